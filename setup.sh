#!/bin/sh
# Build the overlay interpreter used by every check: /venv's packages + /repo + crosshair/z3
# from the offline wheelhouse.  Idempotent; offline.
set -e
cd "$(dirname "$0")"
if [ -x .venv/bin/python ] && .venv/bin/python -c "import z3, crosshair, sharepoint2text" 2>/dev/null; then
  exit 0
fi
rm -rf .venv
/venv/bin/python -m venv .venv
SP=$(.venv/bin/python -c "import site;print(site.getsitepackages()[0])")
printf "import site; site.addsitedir('/venv/lib/python3.12/site-packages')\n/repo\n" > "$SP/_s2t_overlay.pth"
PIP_NO_INDEX=1 .venv/bin/pip install -q --no-index --find-links /opt/veriftools/wheels crosshair-tool z3-solver >/dev/null 2>&1 || \
  PIP_NO_INDEX=1 .venv/bin/pip install --no-index --find-links /opt/veriftools/wheels crosshair-tool z3-solver
.venv/bin/python -c "import z3, crosshair, sharepoint2text; print('overlay ready: z3', z3.get_version_string())"
