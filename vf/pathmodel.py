"""posixpath functions lifted from the STDLIB'S OWN SOURCE to run on bounded symbolic strings
(symrun.CharStr).  The function bodies are taken from posixpath.py / genericpath.py at run
time via the AST: os.fspath() calls are dropped, the bytes branch is cut, string literals become
CharStr constants.  Nothing is re-implemented by hand; `validate()` compares the lifted functions
with the real ones on a lattice of concrete paths."""
import ast
import inspect
import posixpath
import genericpath

from vf import symrun as S


class _Lift(ast.NodeTransformer):
    def visit_Call(self, node):
        self.generic_visit(node)
        f = node.func
        # os.fspath(x) -> x
        if isinstance(f, ast.Attribute) and f.attr == "fspath" and node.args:
            return node.args[0]
        # isinstance(x, bytes) -> False
        if isinstance(f, ast.Name) and f.id == "isinstance" and len(node.args) == 2 and \
                isinstance(node.args[1], ast.Name) and node.args[1].id == "bytes":
            return ast.Constant(False)
        return node

    def visit_Constant(self, node):
        if isinstance(node.value, str):
            return ast.Call(ast.Name("_CS", ast.Load()), [ast.Constant(node.value)], [])
        return node

    def visit_Expr(self, node):
        # drop docstrings
        if isinstance(node.value, ast.Constant) and isinstance(node.value.value, str):
            return None
        return self.generic_visit(node)

    def visit_Try(self, node):
        # keep the body of try blocks that only guard type errors (genericpath._check_arg_types)
        self.generic_visit(node)
        return node.body


def _cs(x):
    return S.CharStr(x)


def _find_def(module, name):
    tree = ast.parse(inspect.getsource(module))
    cands = [n for n in ast.walk(tree) if isinstance(n, ast.FunctionDef) and n.name == name]
    if not cands:
        raise KeyError(name)
    # where a C accelerated wrapper and a pure-python fallback coexist take the fallback
    return max(cands, key=lambda n: len(list(ast.walk(n))))


def _lift(module, name, ns):
    fn = _find_def(module, name)
    fn = _Lift().visit(fn)
    if not fn.body:
        fn.body = [ast.Pass()]
    mod = ast.Module([fn], [])
    ast.fix_missing_locations(mod)
    exec(compile(mod, f"<lifted {module.__name__}.{name}>", "exec"), ns)
    return ns[name]


class PosixPath:
    """stand-in for ``os.path`` (posix flavour) accepting CharStr and str"""

    def __init__(self, cwd="/cwd"):
        import types
        ns = {"_CS": _cs, "os": types.SimpleNamespace(fspath=lambda x: x), "genericpath": None, "map": map, "sep": _cs("/"), "isinstance": isinstance,
              "len": len, "_get_sep": lambda p: _cs("/"), "tuple": tuple}
        self.sep = "/"
        self._cwd = cwd
        self._ns = ns
        for name in ("splitroot", "normpath", "join", "isabs", "splitdrive", "split", "basename", "dirname"):
            setattr(self, "_" + name, _lift(posixpath, name, ns))
        ns["_splitext"] = _lift(genericpath, "_splitext", ns)
        ns["normpath"] = self._normpath
        ns["join"] = self._join
        ns["isabs"] = self._isabs

    @staticmethod
    def _in(p):
        return S.CharStr(p) if isinstance(p, str) else p

    def normpath(self, p):
        return self._normpath(self._in(p))

    def join(self, a, *p):
        return self._join(self._in(a), *[self._in(x) for x in p])

    def isabs(self, p):
        return self._isabs(self._in(p))

    def splitdrive(self, p):
        return self._splitdrive(self._in(p))

    def split(self, p):
        return self._split(self._in(p))

    def basename(self, p):
        return self._basename(self._in(p))

    def dirname(self, p):
        return self._dirname(self._in(p))

    def splitext(self, p):
        return self._ns["_splitext"](self._in(p), _cs("/"), None, _cs("."))

    def abspath(self, p):
        # posixpath.abspath: join(cwd, p) unless absolute, then normpath
        p = self._in(p)
        if not self._isabs(p):
            p = self._join(S.CharStr(self._cwd), p)
        return self._normpath(p)


def validate():
    """lifted functions == real posixpath on a lattice of concrete paths; returns #checks"""
    pp = PosixPath(cwd="/cwd")
    segs = ["", ".", "..", "a", "b.c", "a\\b", "~", "C:"]
    paths = set()
    for a in segs:
        for b in segs:
            for lead in ("", "/", "//", "///"):
                for trail in ("", "/"):
                    paths.add(lead + a + "/" + b + trail)
                    paths.add(lead + a + trail)
    n = 0
    import os
    for p in sorted(paths):
        checks = [
            (str(pp.normpath(p)), posixpath.normpath(p)),
            (str(pp.join("/base", p)), posixpath.join("/base", p)),
            (bool(pp.isabs(p)), posixpath.isabs(p)),
            (tuple(map(str, pp.splitdrive(p))), posixpath.splitdrive(p)),
            (str(pp.basename(p)), posixpath.basename(p)),
            (str(pp.dirname(p)), posixpath.dirname(p)),
            (tuple(map(str, pp.splitext(p))), posixpath.splitext(p)),
            (str(pp.abspath(p)), posixpath.normpath(posixpath.join("/cwd", p))),
        ]
        for got, exp in checks:
            n += 1
            if got != exp:
                raise AssertionError(f"lifted posixpath disagrees on {p!r}: {got!r} vs {exp!r}")
    return n


class OsShadow:
    """the name ``os`` as seen from a module under test: os.path is the lifted posix model;
    everything else is delegated to the real os module"""

    def __init__(self, cwd="/cwd", **extra):
        import os as _os
        self._os = _os
        self.path = _PathShadow(PosixPath(cwd), extra.pop("exists", None))
        self.sep = "/"
        self._extra = extra

    def __getattr__(self, name):
        if name in self._extra:
            return self._extra[name]
        return getattr(self._os, name)


class _PathShadow:
    def __init__(self, pp, exists):
        self._pp = pp
        self._exists = exists

    def __getattr__(self, name):
        return getattr(self._pp, name)

    def exists(self, p):
        if self._exists is not None:
            return self._exists(p)
        return True
