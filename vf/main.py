"""vcheck entry point: python -m vf.main <ID> [--tier quick|thorough] [--only K1,K2] [--replay FILE]"""
import argparse
import json
import os
import sys

sys.dont_write_bytecode = True


def main(argv=None):
    ap = argparse.ArgumentParser()
    ap.add_argument("prop")
    ap.add_argument("--tier", default=os.environ.get("VERIF_TIER", "quick"),
                    choices=["quick", "thorough"])
    ap.add_argument("--only", default="")
    ap.add_argument("--replay", default=None)
    ap.add_argument("--jobs", type=int, default=None)
    a = ap.parse_args(argv)
    seed = int(os.environ.get("VERIF_SEED", "0") or 0)
    from vf import core
    prop = a.prop.upper()
    if a.replay:
        with open(a.replay) as f:
            body = json.load(f)
        r = core._replay(prop, body["kernel"], body.get("tier", "quick"), body.get("params", {}),
                         body["inputs"])
        print(json.dumps(r, indent=1, default=str))
        if r.get("error"):
            return 3
        if r["violated"]:
            print(f"VIOLATION property={prop} replay={a.replay}")
            return 1
        print("replay: no violation on this tree")
        return 0
    only = [x for x in a.only.split(",") if x]
    return core.run_property(prop, tier=a.tier, only=only, jobs=a.jobs, seed=seed)


if __name__ == "__main__":
    sys.exit(main())
