"""symrun (engine E2): proxy execution of real Python function objects over z3.

The real function object from /repo is *called* with proxy arguments.  Operators on
proxies build z3 terms; ``__bool__`` on a symbolic condition is a fork.  The engine
re-executes the harness once per feasible decision sequence (DFS over decision
prefixes), so every explored path is a native CPython execution of the real code.

Two exploration modes:
  pruned   - solver feasibility check at each new decision (default)
  collect  - no checks while exploring; `require` still asks the solver per path
             (so an infeasible path simply gives unsat there)

A harness is ``def kernel(ctx): ...`` using ctx.fresh_* for inputs and
ctx.require(cond, label) for the property.  The same harness re-run under a
ConcreteCtx (no proxies, no shadows) is the generic replay of a model.
"""
from __future__ import annotations

import contextlib
import hashlib
import inspect
import sys
import time
from fractions import Fraction

import z3

import os as _os
REPO = _os.environ.get("S2T_REPO", "/repo").rstrip("/")


class BoundExceeded(BaseException):
    """A feasible path wants more decisions than the stated bound."""


class PathAbort(BaseException):
    """Path infeasible (assumption unsat) - silently dropped."""


class PathViolation(BaseException):
    """Raised by require() to end a path on which a violation was found."""


class Unsupported(Exception):
    """A proxy was used in a way the engine has no model for."""


_CUR = None  # the active context (SymCtx or ConcreteCtx)
_TRUE = z3.BoolVal(True)


def cur():
    return _CUR


# --------------------------------------------------------------------------------------
# helpers
# --------------------------------------------------------------------------------------

def _z(v):
    """python/proxy -> z3 arithmetic/bool term"""
    if isinstance(v, SymInt):
        return v.z
    if isinstance(v, SymBool):
        return v.z
    if isinstance(v, SymReal):
        return v.z
    if isinstance(v, bool):
        return z3.BoolVal(v)
    if isinstance(v, int):
        return z3.IntVal(v)
    if isinstance(v, float):
        fr = Fraction(v)
        return z3.RealVal(fr.numerator) / z3.RealVal(fr.denominator)
    if isinstance(v, Fraction):
        return z3.RealVal(v.numerator) / z3.RealVal(v.denominator)
    raise Unsupported(f"cannot lift {type(v).__name__}")


def _as_int_term(v):
    if isinstance(v, SymInt):
        return v.z
    if isinstance(v, SymBool):
        return z3.If(v.z, z3.IntVal(1), z3.IntVal(0))
    if isinstance(v, SymBV):
        return z3.BV2Int(v.z, is_signed=False)
    if isinstance(v, bool):
        return z3.IntVal(int(v))
    if isinstance(v, int):
        return z3.IntVal(v)
    return None


def _unsupported(what):
    c = _CUR
    if c is not None:
        c.unsupported.append(what)
    raise Unsupported(what)


# --------------------------------------------------------------------------------------
# proxies
# --------------------------------------------------------------------------------------

class SymBool:
    __slots__ = ("z",)

    def __init__(self, z):
        self.z = z

    def __bool__(self):
        return _CUR.decide(self.z)

    def __invert__(self):
        return SymBool(z3.Not(self.z))

    def __and__(self, o):
        return SymBool(z3.And(self.z, _zb(o)))

    __rand__ = __and__

    def __or__(self, o):
        return SymBool(z3.Or(self.z, _zb(o)))

    __ror__ = __or__

    def __eq__(self, o):
        if isinstance(o, (SymBool, bool)):
            return SymBool(self.z == _zb(o))
        t = _as_int_term(o)
        if t is not None:
            return SymBool(_as_int_term(self) == t)
        return False

    def __ne__(self, o):
        r = self.__eq__(o)
        return ~r if isinstance(r, SymBool) else (not r)

    def __hash__(self):
        return hash(bool(self))

    def __int__(self):
        return 1 if bool(self) else 0

    __index__ = __int__

    def __add__(self, o):
        return SymInt(_as_int_term(self)) + o

    __radd__ = __add__

    def __repr__(self):
        return "<symbool>"

    def __format__(self, spec):
        return "<symbool>"


def _zb(v):
    if isinstance(v, SymBool):
        return v.z
    if isinstance(v, bool):
        return z3.BoolVal(v)
    if isinstance(v, SymInt):
        return v.z != 0
    if isinstance(v, int):
        return z3.BoolVal(v != 0)
    if z3.is_bool(v):
        return v
    raise Unsupported(f"cannot lift {type(v).__name__} to Bool")


def _pow2(n):
    return n > 0 and (n & (n - 1)) == 0


class SymInt:
    """Python int (unbounded) as a z3 Int term."""
    __slots__ = ("z",)

    def __init__(self, z):
        self.z = z

    # -- arithmetic ------------------------------------------------------------------
    def _bin(self, o, f, rev=False):
        if isinstance(o, (SymReal, float)):
            a, b = z3.ToReal(self.z), _z(o)
            return SymReal(f(b, a) if rev else f(a, b))
        t = _as_int_term(o)
        if t is None:
            return NotImplemented
        return SymInt(f(t, self.z) if rev else f(self.z, t))

    def __add__(self, o):
        return self._bin(o, lambda a, b: a + b)

    def __radd__(self, o):
        return self._bin(o, lambda a, b: a + b, True)

    def __sub__(self, o):
        return self._bin(o, lambda a, b: a - b)

    def __rsub__(self, o):
        return self._bin(o, lambda a, b: a - b, True)

    def __mul__(self, o):
        return self._bin(o, lambda a, b: a * b)

    def __rmul__(self, o):
        return self._bin(o, lambda a, b: a * b, True)

    def __neg__(self):
        return SymInt(-self.z)

    def __pos__(self):
        return self

    def __abs__(self):
        return SymInt(z3.If(self.z >= 0, self.z, -self.z))

    @staticmethod
    def _floordiv(a, b):
        # python floor division on z3 ints (z3 div is euclidean: remainder >= 0)
        if z3.is_int_value(b):
            if b.as_long() > 0:
                return a / b
            if b.as_long() < 0:
                return (-a) / (-b)
        return z3.If(b > 0, a / b, (-a) / (-b))

    @staticmethod
    def _mod(a, b):
        if z3.is_int_value(b) and b.as_long() > 0:
            return a % b
        return a - b * SymInt._floordiv(a, b)

    def __floordiv__(self, o):
        t = _as_int_term(o)
        if t is None:
            return NotImplemented
        if not z3.is_int_value(t):
            if _CUR.decide(t == 0):
                raise ZeroDivisionError("integer division or modulo by zero")
        elif t.as_long() == 0:
            raise ZeroDivisionError("integer division or modulo by zero")
        return SymInt(self._floordiv(self.z, t))

    def __rfloordiv__(self, o):
        return SymInt(_as_int_term(o)).__floordiv__(self)

    def __mod__(self, o):
        t = _as_int_term(o)
        if t is None:
            return NotImplemented
        if not z3.is_int_value(t):
            if _CUR.decide(t == 0):
                raise ZeroDivisionError("integer division or modulo by zero")
        elif t.as_long() == 0:
            raise ZeroDivisionError("integer division or modulo by zero")
        return SymInt(self._mod(self.z, t))

    def __rmod__(self, o):
        return SymInt(_as_int_term(o)).__mod__(self)

    def __truediv__(self, o):
        t = _as_int_term(o)
        if t is not None:
            if z3.is_int_value(t):
                if t.as_long() == 0:
                    raise ZeroDivisionError("division by zero")
            elif _CUR.decide(t == 0):
                raise ZeroDivisionError("division by zero")
            _CUR.note("real_division")
            return SymReal(z3.ToReal(self.z) / z3.ToReal(t))
        if isinstance(o, (float, SymReal)):
            return SymReal(z3.ToReal(self.z) / _z(o))
        return NotImplemented

    def __rtruediv__(self, o):
        return SymInt(_as_int_term(o)).__truediv__(self)

    # -- bit operations (modelled for non-negative operands / constant masks) ----------
    def __lshift__(self, o):
        if isinstance(o, int):
            return SymInt(self.z * (1 << o))
        _unsupported("SymInt << symbolic")

    def __rshift__(self, o):
        if isinstance(o, int):
            return SymInt(self.z / (1 << o))
        _unsupported("SymInt >> symbolic")

    def _bits(self, o, f):
        w = _CUR.bitwidth
        ot = _as_int_term(o)
        if ot is None:
            return NotImplemented
        _CUR.note("int_bitop_via_bv%d" % w)
        a = z3.Int2BV(self.z, w)
        b = z3.Int2BV(ot, w)
        return SymInt(z3.BV2Int(f(a, b), is_signed=False))

    def __and__(self, o):
        if isinstance(o, int) and o >= 0 and _pow2(o + 1):
            return SymInt(self.z % (o + 1))
        return self._bits(o, lambda a, b: a & b)

    __rand__ = __and__

    def __or__(self, o):
        return self._bits(o, lambda a, b: a | b)

    __ror__ = __or__

    def __xor__(self, o):
        return self._bits(o, lambda a, b: a ^ b)

    __rxor__ = __xor__

    # -- comparisons -------------------------------------------------------------------
    def _cmp(self, o, f):
        if isinstance(o, (float, SymReal, Fraction)):
            return SymBool(f(z3.ToReal(self.z), _z(o)))
        t = _as_int_term(o)
        if t is None:
            return NotImplemented
        return SymBool(f(self.z, t))

    def __lt__(self, o):
        return self._cmp(o, lambda a, b: a < b)

    def __le__(self, o):
        return self._cmp(o, lambda a, b: a <= b)

    def __gt__(self, o):
        return self._cmp(o, lambda a, b: a > b)

    def __ge__(self, o):
        return self._cmp(o, lambda a, b: a >= b)

    def __eq__(self, o):
        r = self._cmp(o, lambda a, b: a == b)
        return False if r is NotImplemented else r

    def __ne__(self, o):
        r = self._cmp(o, lambda a, b: a != b)
        return True if r is NotImplemented else r

    def __bool__(self):
        return _CUR.decide(self.z != 0)

    # -- forced concretisation -----------------------------------------------------------
    def __index__(self):
        return _CUR.concretize(self.z)

    __int__ = __index__

    def __hash__(self):
        return hash(_CUR.concretize(self.z))

    def __repr__(self):
        return "<symint>"

    __str__ = __repr__

    def __format__(self, spec):
        c = _CUR
        if c is not None:
            c.note("formatted_symbolic_value")
        return "<symint>"


class SymReal:
    """Exact rational arithmetic standing in for float (see DESIGN: margin obligation)."""
    __slots__ = ("z",)

    def __init__(self, z):
        self.z = z

    def _cmp(self, o, f):
        if isinstance(o, (SymInt, int)) and not isinstance(o, bool):
            return SymBool(f(self.z, z3.ToReal(_as_int_term(o))))
        return SymBool(f(self.z, _z(o)))

    def __lt__(self, o):
        return self._cmp(o, lambda a, b: a < b)

    def __le__(self, o):
        return self._cmp(o, lambda a, b: a <= b)

    def __gt__(self, o):
        return self._cmp(o, lambda a, b: a > b)

    def __ge__(self, o):
        return self._cmp(o, lambda a, b: a >= b)

    def __eq__(self, o):
        return self._cmp(o, lambda a, b: a == b)

    def __ne__(self, o):
        return self._cmp(o, lambda a, b: a != b)

    def _bin(self, o, f, rev=False):
        if isinstance(o, (SymInt, int)) and not isinstance(o, bool):
            b = z3.ToReal(_as_int_term(o))
        else:
            b = _z(o)
        return SymReal(f(b, self.z) if rev else f(self.z, b))

    def __add__(self, o):
        return self._bin(o, lambda a, b: a + b)

    __radd__ = __add__

    def __sub__(self, o):
        return self._bin(o, lambda a, b: a - b)

    def __rsub__(self, o):
        return self._bin(o, lambda a, b: a - b, True)

    def __mul__(self, o):
        return self._bin(o, lambda a, b: a * b)

    __rmul__ = __mul__

    def __bool__(self):
        return _CUR.decide(self.z != 0)

    def __repr__(self):
        return "<symreal>"

    def __format__(self, spec):
        return "<symreal>"


class SymBV:
    """Fixed-width unsigned machine word / byte as z3 BitVec."""
    __slots__ = ("z", "w")

    def __init__(self, z, w=None):
        self.z = z
        self.w = z.size() if w is None else w

    def _lift(self, o):
        if isinstance(o, SymBV):
            if o.w == self.w:
                return o.z
            if o.w < self.w:
                return z3.ZeroExt(self.w - o.w, o.z)
            return None
        if isinstance(o, bool):
            return z3.BitVecVal(int(o), self.w)
        if isinstance(o, int):
            if 0 <= o < (1 << self.w):
                return z3.BitVecVal(o, self.w)
            return None
        return None

    def _widen(self, o):
        """common width for arithmetic with python-int semantics (no wrap): widen"""
        if isinstance(o, SymBV):
            w = max(self.w, o.w)
        elif isinstance(o, int):
            w = max(self.w, max(o.bit_length(), 1))
        else:
            return None
        return w

    def _bin(self, o, f, grow=0, rev=False):
        if isinstance(o, SymInt):
            a = SymInt(z3.BV2Int(self.z, is_signed=False))
            return NotImplemented if a is None else (f(o, a) if rev else f(a, o))
        w = self._widen(o)
        if w is None:
            return NotImplemented
        w += grow
        a = z3.ZeroExt(w - self.w, self.z) if w > self.w else self.z
        if isinstance(o, SymBV):
            b = z3.ZeroExt(w - o.w, o.z) if w > o.w else o.z
        else:
            if o < 0:
                return NotImplemented
            b = z3.BitVecVal(int(o), w)
        r = f(b, a) if rev else f(a, b)
        return SymBV(z3.simplify(r) if grow == 0 else r)

    # bit ops keep width (of the wider operand)
    def __and__(self, o):
        return self._bin(o, lambda a, b: a & b)

    __rand__ = __and__

    def __or__(self, o):
        return self._bin(o, lambda a, b: a | b)

    __ror__ = __or__

    def __xor__(self, o):
        return self._bin(o, lambda a, b: a ^ b)

    __rxor__ = __xor__

    def __invert__(self):
        _unsupported("~SymBV (python ~ is signed)")

    def __lshift__(self, o):
        if isinstance(o, int):
            # python ints do not wrap: widen by o bits
            return SymBV(z3.ZeroExt(o, self.z) << o)
        _unsupported("SymBV << symbolic")

    def __rshift__(self, o):
        if isinstance(o, int):
            if o >= self.w:
                return SymBV(z3.BitVecVal(0, self.w))
            return SymBV(z3.LShR(self.z, o))
        _unsupported("SymBV >> symbolic")

    def __add__(self, o):
        return self._bin(o, lambda a, b: a + b, grow=1)

    __radd__ = __add__

    def __mul__(self, o):
        if isinstance(o, int) and o >= 0:
            g = max(o.bit_length(), 1)
            return self._bin(o, lambda a, b: a * b, grow=g)
        if isinstance(o, SymBV):
            return self._bin(o, lambda a, b: a * b, grow=min(self.w, o.w))
        return NotImplemented

    __rmul__ = __mul__

    def __sub__(self, o):
        # may go negative: leave to Int arithmetic
        return self.to_int() - (o.to_int() if isinstance(o, SymBV) else o)

    def __rsub__(self, o):
        return o - self.to_int()

    def __mod__(self, o):
        if isinstance(o, int) and _pow2(o):
            return self & (o - 1)
        return self.to_int() % o

    def __floordiv__(self, o):
        if isinstance(o, int) and _pow2(o):
            return self >> (o.bit_length() - 1)
        return self.to_int() // o

    def to_int(self):
        return SymInt(z3.BV2Int(self.z, is_signed=False))

    def __neg__(self):
        return SymInt(-z3.BV2Int(self.z, is_signed=False))

    def __pos__(self):
        return self

    def _cmp(self, o, f_bv, f_int):
        if isinstance(o, SymInt):
            return SymBool(f_int(z3.BV2Int(self.z, is_signed=False), o.z))
        if isinstance(o, int) and not isinstance(o, bool) and (o < 0 or o >= (1 << self.w)):
            return SymBool(f_int(z3.BV2Int(self.z, is_signed=False), z3.IntVal(o)))
        w = self._widen(o)
        if w is None:
            return NotImplemented
        a = z3.ZeroExt(w - self.w, self.z) if w > self.w else self.z
        if isinstance(o, SymBV):
            b = z3.ZeroExt(w - o.w, o.z) if w > o.w else o.z
        else:
            b = z3.BitVecVal(int(o), w)
        return SymBool(f_bv(a, b))

    def __lt__(self, o):
        return self._cmp(o, z3.ULT, lambda a, b: a < b)

    def __le__(self, o):
        return self._cmp(o, z3.ULE, lambda a, b: a <= b)

    def __gt__(self, o):
        return self._cmp(o, z3.UGT, lambda a, b: a > b)

    def __ge__(self, o):
        return self._cmp(o, z3.UGE, lambda a, b: a >= b)

    def __eq__(self, o):
        r = self._cmp(o, lambda a, b: a == b, lambda a, b: a == b)
        return False if r is NotImplemented else r

    def __ne__(self, o):
        r = self._cmp(o, lambda a, b: a != b, lambda a, b: a != b)
        return True if r is NotImplemented else r

    def __bool__(self):
        return _CUR.decide(self.z != 0)

    def __index__(self):
        return _CUR.concretize(self.z)

    __int__ = __index__

    def __hash__(self):
        return hash(_CUR.concretize(self.z))

    def __repr__(self):
        return "<symbv%d>" % self.w

    def __format__(self, spec):
        return repr(self)


class SymBytes:
    """bytes of concrete length whose elements are python ints or SymBV(8)/SymInt."""

    def __init__(self, elems):
        self.e = list(elems)

    def __len__(self):
        return len(self.e)

    def __iter__(self):
        return iter(self.e)

    def __getitem__(self, i):
        if isinstance(i, slice):
            start, stop, step = i.start, i.stop, i.step
            start = None if start is None else _slice_bound(start, len(self.e))
            stop = None if stop is None else _slice_bound(stop, len(self.e))
            return SymBytes(self.e[slice(start, stop, step)])
        return self.e[_to_index(i)]

    def __add__(self, o):
        return SymBytes(self.e + list(o))

    def __radd__(self, o):
        return SymBytes(list(o) + self.e)

    def __eq__(self, o):
        if isinstance(o, (bytes, bytearray, SymBytes, list, tuple)):
            o = list(o)
            if len(o) != len(self.e):
                return False
            conds = []
            for a, b in zip(self.e, o):
                r = (a == b)
                if r is False:
                    return False
                if r is True:
                    continue
                conds.append(r.z)
            if not conds:
                return True
            return SymBool(z3.And(*conds) if len(conds) > 1 else conds[0])
        return False

    def __ne__(self, o):
        r = self.__eq__(o)
        return ~r if isinstance(r, SymBool) else (not r)

    def __hash__(self):
        _unsupported("hash(SymBytes)")

    def __mul__(self, n):
        return SymBytes(self.e * _to_index(n))

    __rmul__ = __mul__

    def __bool__(self):
        return len(self.e) > 0

    def startswith(self, prefix, start=0):
        if isinstance(prefix, tuple):
            out = False
            for p in prefix:
                r = self.startswith(p, start)
                if r is True:
                    return True
                if r is not False:
                    out = r if out is False else (out | r)
            return out
        n = len(prefix)
        if len(self.e) - start < n:
            return False
        return SymBytes(self.e[start:start + n]) == prefix

    def endswith(self, suffix):
        n = len(suffix)
        if len(self.e) < n:
            return False
        return SymBytes(self.e[len(self.e) - n:]) == suffix

    def find(self, sub, start=0, end=None):
        end = len(self.e) if end is None else end
        n = len(sub)
        for i in range(start, end - n + 1):
            if SymBytes(self.e[i:i + n]) == sub:
                return i
        return -1

    def __contains__(self, sub):
        if isinstance(sub, (bytes, bytearray, SymBytes)):
            return self.find(sub) >= 0
        for x in self.e:
            if x == sub:
                return True
        return False

    def __repr__(self):
        return "<symbytes len=%d>" % len(self.e)


class SymByteArray(SymBytes):
    def __setitem__(self, i, v):
        if isinstance(i, slice):
            a = 0 if i.start is None else _to_index(i.start)
            b = len(self.e) if i.stop is None else _to_index(i.stop)
            self.e[a:b] = list(v)
        else:
            self.e[_to_index(i)] = v


def _to_index(i):
    if isinstance(i, int):
        return i
    return i.__index__()


def _slice_bound(i, n):
    """a slice bound on a sequence of length n: python clamps bounds beyond [-n, n], so a symbolic bound is
    first split into below / inside / above that range (two solver-decided forks) and only enumerated inside
    it - a bound with a huge domain (a 32-bit length field) costs three classes, not one path per value"""
    if isinstance(i, int):
        return i
    if isinstance(i, (SymInt, SymBV)):
        if i < -n:
            return -n
        if i > n:
            return n
    return i.__index__()


def sym_int(x=0, base=None):
    """shadow for builtin ``int`` applied to proxies"""
    if isinstance(x, (SymInt, SymBV)):
        return x
    if isinstance(x, SymBool):
        return SymInt(_as_int_term(x))
    if isinstance(x, SymReal):
        _unsupported("int(SymReal)")
    if isinstance(x, CharStr):
        s_ = x.concrete()
        if s_ is None:
            return x.to_int(10 if base is None else base)
        return int(s_) if base is None else int(s_, base)
    if base is not None:
        return int(x, base)
    return int(x)


def _from_bytes(data, byteorder="big", *, signed=False):
    if isinstance(data, (bytes, bytearray)):
        return int.from_bytes(data, byteorder, signed=signed)
    elems = list(data)
    if all(isinstance(e, int) for e in elems):
        return int.from_bytes(bytes(elems), byteorder, signed=signed)
    if byteorder == "little":
        elems = elems[::-1]
    n = len(elems)
    if n == 0:
        return 0
    parts = []
    for e in elems:
        if isinstance(e, SymBV):
            parts.append(e.z if e.w == 8 else z3.Extract(7, 0, e.z))
        elif isinstance(e, int):
            parts.append(z3.BitVecVal(e, 8))
        elif isinstance(e, SymInt):
            parts.append(z3.Int2BV(e.z, 8))
        else:
            raise Unsupported("from_bytes element")
    word = z3.Concat(*parts) if n > 1 else parts[0]
    if signed:
        return SymInt(z3.BV2Int(word, is_signed=True))
    return SymBV(word)


class _IntShadow:
    """module-global replacement for the name ``int``: callable + from_bytes"""

    def __call__(self, x=0, base=None):
        return sym_int(x, base)

    from_bytes = staticmethod(_from_bytes)

    def __instancecheck__(self, inst):  # pragma: no cover - isinstance uses type(cls)
        return isinstance(inst, (int, SymInt, SymBV))


class _IntShadowMeta(type):
    def __instancecheck__(cls, inst):
        return isinstance(inst, (int, SymInt, SymBV, SymBool))

    def __call__(cls, x=0, base=None):
        return sym_int(x, base)


class IntShadow(metaclass=_IntShadowMeta):
    """``int`` stand-in: IntShadow(x) == sym_int(x); isinstance(p, IntShadow) true for proxies"""
    from_bytes = staticmethod(_from_bytes)


def _const_or_self(e):
    if isinstance(e, (SymBV, SymInt)):
        z = z3.simplify(e.z)
        if z3.is_bv_value(z) or z3.is_int_value(z):
            return z.as_long()
    return e


def sym_bytes(x=b"", *a):
    """shadow for builtin ``bytes``/``bytearray``"""
    if isinstance(x, (bytes, bytearray)):
        return bytes(x)
    if isinstance(x, int):
        return SymBytes([0] * x)
    if isinstance(x, str):
        return bytes(x, *a)
    elems = [_const_or_self(e) for e in x]
    if all(isinstance(e, int) for e in elems):
        return bytes(elems)
    return SymBytes(elems)


def sym_bytearray(x=b"", *a):
    if isinstance(x, int):
        return SymByteArray([0] * x)
    return SymByteArray(list(x))


def sym_memoryview(x):
    return x


class UFTable:
    """byte table abstracted as an uninterpreted function BV8->BV8; ``inverse`` names a
    table proved (elsewhere) to be its inverse so that inv[tab[x]] rewrites to x"""

    def __init__(self, name, n=256):
        self.f = z3.Function(name, z3.BitVecSort(8), z3.BitVecSort(8))
        self.inverse = None
        self.n = n

    def _arg(self, x):
        if isinstance(x, SymBV):
            z = x.z
            if x.w > 8:
                z = z3.Extract(7, 0, z)
            return z
        if isinstance(x, int):
            return z3.BitVecVal(x, 8)
        raise Unsupported("table index")

    def __getitem__(self, x):
        z = self._arg(x)
        inv = self.inverse
        if inv is not None and z3.is_app(z) and z.num_args() == 1 and z.decl().eq(inv.f):
            return SymBV(z.arg(0), 8)
        return SymBV(self.f(z), 8)

    def __len__(self):
        return self.n


class FnTable(UFTable):
    """byte table given by a z3-level function of the index (semantic abstraction)"""

    def __init__(self, fn, n=256):
        self.fn = fn
        self.n = n
        self.inverse = None

    def __getitem__(self, x):
        return SymBV(z3.simplify(self.fn(self._arg(x))), 8)


def str_constants(*modules):
    """every str constant reachable from the code objects and module-level containers of the
    given modules (the strings their hashed containers can contain)"""
    import types
    out = set()

    def from_const(c):
        if isinstance(c, str):
            out.add(c)
        elif isinstance(c, (tuple, frozenset, set, list)):
            for x in c:
                from_const(x)
        elif isinstance(c, dict):
            for k, v in c.items():
                from_const(k)
                from_const(v)
        elif isinstance(c, types.CodeType):
            for x in c.co_consts:
                from_const(x)

    for m in modules:
        for v in list(vars(m).values()):
            if isinstance(v, types.FunctionType) and v.__module__ == m.__name__:
                from_const(v.__code__)
            elif isinstance(v, type) and v.__module__ == m.__name__:
                for a in vars(v).values():
                    f = getattr(a, "__func__", a)
                    if isinstance(f, types.FunctionType):
                        from_const(f.__code__)
            elif isinstance(v, (set, frozenset, tuple, list, dict)):
                from_const(v)
    return out


def str_constants_of(*functions):
    """str constants a set of functions can compare against: their code constants (nested code
    objects included) plus the str-valued module globals they name"""
    import types
    out = set()

    def walk(code, glob):
        for c in code.co_consts:
            if isinstance(c, str):
                out.add(c)
            elif isinstance(c, (tuple, frozenset)):
                out.update(x for x in c if isinstance(x, str))
            elif isinstance(c, types.CodeType):
                walk(c, glob)
        for n in code.co_names:
            v = glob.get(n)
            if isinstance(v, str):
                out.add(v)
            elif isinstance(v, (set, frozenset, tuple, list)):
                out.update(x for x in v if isinstance(x, str))
            elif isinstance(v, dict):
                out.update(x for x in v if isinstance(x, str))

    for f in functions:
        f = getattr(f, "__func__", f)
        walk(f.__code__, f.__globals__)
    return out


def sym_len(x):
    if isinstance(x, (SymStr, AbsBytes)) or hasattr(x, "sym_len"):
        return x.sym_len()
    return len(x)


def sym_abs(x):
    if isinstance(x, SymInt):
        return abs(x)
    if isinstance(x, SymBV):
        return x
    return abs(x)


class SymStructFmt:
    """struct.Struct stand-in for fixed-size integer formats on symbolic bytes
    (endianness prefix < > ! =, codes B H I L Q and signed b h i l q, x padding, Ns byte fields)"""
    _SIZES = {"B": 1, "H": 2, "I": 4, "L": 4, "Q": 8, "b": 1, "h": 2, "i": 4, "l": 4, "q": 8, "x": 1}

    def __init__(self, fmt):
        import struct as _struct
        self.format = fmt
        self._real = _struct.Struct(fmt)
        self.size = self._real.size
        self._order = "big" if fmt[:1] in (">", "!") else "little"
        body = fmt[1:] if fmt[:1] in "<>!=@" else fmt
        self._codes = []
        num = ""
        for ch in body:
            if ch.isdigit():
                num += ch
                continue
            if ch == "s":
                # "4s": ONE field of that many bytes (a slice of the buffer)
                self._codes.append(("s", int(num) if num else 1))
            else:
                self._codes += [ch] * (int(num) if num else 1)
            num = ""

    def unpack_from(self, data, offset=0):
        if isinstance(data, (bytes, bytearray, memoryview)):
            return self._real.unpack_from(data, offset)
        import struct as _struct
        if isinstance(offset, (SymInt, SymBV)):
            # decide the out-of-range classes before enumerating the in-range values (struct's own checks)
            if offset < -len(data):
                raise _struct.error("offset out of range")
            if offset > len(data) - self.size:
                raise _struct.error("unpack_from requires a buffer of at least %d bytes" % self.size)
        off = _to_index(offset)
        if off < 0:
            off += len(data)            # struct counts a negative offset from the end of the buffer
        if off < 0 or off + self.size > len(data):
            raise _struct.error("unpack_from requires a buffer of at least %d bytes" % self.size)
        out, p_ = [], off
        for c in self._codes:
            if isinstance(c, tuple):
                out.append(data[p_:p_ + c[1]])
                p_ += c[1]
                continue
            n = self._SIZES[c]
            if c != "x":
                out.append(_from_bytes(data[p_:p_ + n], self._order, signed=c.islower()))
            p_ += n
        return tuple(out)

    def unpack(self, data):
        if isinstance(data, (bytes, bytearray, memoryview)):
            return self._real.unpack(data)
        import struct as _struct
        if len(data) != self.size:
            raise _struct.error("unpack requires a buffer of %d bytes" % self.size)
        return self.unpack_from(data, 0)


class SymStructMod:
    """the name ``struct`` as seen from a module under test"""
    import struct as _s
    error = _s.error
    Struct = SymStructFmt

    @staticmethod
    def unpack(fmt, data):
        return SymStructFmt(fmt).unpack(data)

    @staticmethod
    def unpack_from(fmt, data, offset=0):
        return SymStructFmt(fmt).unpack_from(data, offset)

    @staticmethod
    def calcsize(fmt):
        return SymStructFmt(fmt).size

    @staticmethod
    def pack(fmt, *a):
        import struct as _struct
        return _struct.pack(fmt, *a)


def sym_chr(x):
    if isinstance(x, (SymInt, SymBV)):
        return CharStr([x if isinstance(x, SymInt) else x.to_int()])
    return CharStr([int(x)])


def sym_ord(x):
    if isinstance(x, CharStr):
        if len(x.c) != 1:
            raise TypeError("ord() expected a character")
        return x.c[0]
    return ord(x)


def sym_bool(x=False):
    if isinstance(x, (SymBool, SymInt, SymBV)):
        return bool(x)
    return bool(x)


def sym_min(*a):
    if len(a) == 1:
        a = tuple(a[0])
    r = a[0]
    for x in a[1:]:
        r = x if (x < r) else r
    return r


def sym_max(*a):
    if len(a) == 1:
        a = tuple(a[0])
    r = a[0]
    for x in a[1:]:
        r = x if (x > r) else r
    return r


class SymStr:
    """z3 String proxy."""
    __slots__ = ("z",)

    def __init__(self, z):
        self.z = z3.StringVal(z) if isinstance(z, str) else z

    @staticmethod
    def lift(o):
        if isinstance(o, SymStr):
            return o.z
        if isinstance(o, str):
            return z3.StringVal(o)
        return None

    def sym_len(self):
        return SymInt(z3.Length(self.z))

    def __len__(self):
        return _CUR.concretize(z3.Length(self.z))

    def lower(self):
        return SymStr(_CUR.uf("lower", z3.StringSort(), z3.StringSort())(self.z))

    def __eq__(self, o):
        t = self.lift(o)
        if t is None:
            return False
        return SymBool(self.z == t)

    def __ne__(self, o):
        t = self.lift(o)
        if t is None:
            return True
        return SymBool(self.z != t)

    def __hash__(self):
        _unsupported("hash(SymStr) - swap the dict/set for a SymMap/SymSet proxy")

    def __bool__(self):
        return _CUR.decide(z3.Length(self.z) > 0)

    def endswith(self, suf):
        if isinstance(suf, tuple):
            return SymBool(z3.Or(*[z3.SuffixOf(self.lift(s), self.z) for s in suf]))
        return SymBool(z3.SuffixOf(self.lift(suf), self.z))

    def startswith(self, pre):
        if isinstance(pre, tuple):
            return SymBool(z3.Or(*[z3.PrefixOf(self.lift(s), self.z) for s in pre]))
        return SymBool(z3.PrefixOf(self.lift(pre), self.z))

    def __contains__(self, sub):
        return bool(SymBool(z3.Contains(self.z, self.lift(sub))))

    def contains(self, sub):
        return SymBool(z3.Contains(self.z, self.lift(sub)))

    def __add__(self, o):
        t = self.lift(o)
        if t is None:
            return NotImplemented
        return SymStr(z3.Concat(self.z, t))

    def __radd__(self, o):
        t = self.lift(o)
        if t is None:
            return NotImplemented
        return SymStr(z3.Concat(t, self.z))

    def __getitem__(self, i):
        n = z3.Length(self.z)
        if isinstance(i, slice):
            if i.step not in (None, 1):
                _unsupported("SymStr slice step")
            a = 0 if i.start is None else i.start
            b = None if i.stop is None else i.stop

            def norm(v):
                t = _as_int_term(v)
                if z3.is_int_value(t):
                    if t.as_long() >= 0:
                        return z3.If(t > n, n, t)
                    return z3.If(n + t < 0, z3.IntVal(0), n + t)
                return z3.If(t < 0, z3.If(n + t < 0, z3.IntVal(0), n + t), z3.If(t > n, n, t))
            za = norm(a)
            zb = n if b is None else norm(b)
            ln = z3.If(zb > za, zb - za, z3.IntVal(0))
            return SymStr(z3.SubString(self.z, za, ln))
        t = _as_int_term(i)
        idx = t
        if z3.is_int_value(t) and t.as_long() < 0:
            idx = n + t
        if _CUR.decide(z3.Or(idx < 0, idx >= n)):
            raise IndexError("string index out of range")
        return SymStr(z3.SubString(self.z, idx, 1))

    def rfind(self, sub):
        return SymInt(z3.LastIndexOf(self.z, self.lift(sub)))

    def find(self, sub):
        return SymInt(z3.IndexOf(self.z, self.lift(sub), 0))

    def __repr__(self):
        return "<symstr>"

    __str__ = __repr__

    def __format__(self, spec):
        c = _CUR
        if c is not None:
            c.note("formatted_symbolic_value")
        return "<symstr>"


class CharStr:
    """Bounded string as a python list of char codes (python ints or SymInt): concrete
    length, symbolic characters.  Every predicate is a finite formula over linear integer
    arithmetic, so z3 decides each fork instantly (hand-unrolled bounded encoding); operations
    whose result length depends on the characters (rfind, split, strip) fork over positions."""
    __slots__ = ("c",)

    def __init__(self, codes):
        if isinstance(codes, str):
            codes = [ord(ch) for ch in codes]
        self.c = list(codes)

    # -- helpers -----------------------------------------------------------------------
    @staticmethod
    def _codes(o):
        if isinstance(o, CharStr):
            return o.c
        if isinstance(o, str):
            return [ord(ch) for ch in o]
        return None

    @staticmethod
    def _eqc(a, b):
        """equality of two codes -> python bool or z3 Bool"""
        if isinstance(a, int) and isinstance(b, int):
            return a == b
        return _as_int_term(a) == _as_int_term(b)

    @staticmethod
    def _conj(parts):
        zs = []
        for p_ in parts:
            if p_ is False:
                return False
            if p_ is True:
                continue
            zs.append(p_)
        if not zs:
            return True
        return SymBool(z3.And(*zs) if len(zs) > 1 else zs[0])

    @staticmethod
    def _disj(parts):
        zs = []
        for p_ in parts:
            if p_ is True:
                return True
            if p_ is False:
                continue
            zs.append(p_.z if isinstance(p_, SymBool) else p_)
        if not zs:
            return False
        return SymBool(z3.Or(*zs) if len(zs) > 1 else zs[0])

    def _match_at(self, pos, codes):
        if pos < 0 or pos + len(codes) > len(self.c):
            return False
        return self._conj([self._eqc(self.c[pos + i], codes[i]) for i in range(len(codes))])

    def concrete(self):
        """python str if all characters are concrete else None"""
        out = []
        for ch in self.c:
            ch = _const_or_self(ch)
            if not isinstance(ch, int):
                return None
            out.append(chr(ch))
        return "".join(out)

    # -- str protocol ------------------------------------------------------------------
    def __len__(self):
        return len(self.c)

    def __bool__(self):
        return len(self.c) > 0

    def __iter__(self):
        return iter(CharStr([x]) for x in self.c)

    def __eq__(self, o):
        oc = self._codes(o)
        if oc is None or len(oc) != len(self.c):
            return False
        return self._match_at(0, oc)

    def __ne__(self, o):
        r = self.__eq__(o)
        return ~r if isinstance(r, SymBool) else (not r)

    def __hash__(self):
        s_ = self.concrete()
        if s_ is not None:
            return hash(s_)
        uni = getattr(_CUR, "hash_universe", None)
        if uni is None:
            _unsupported("hash(CharStr) - swap the dict/set for a SymMap/SymSet proxy or set ctx.hash_universe")
        # fork over the string constants the code under test can hold in hashed containers
        for cand in sorted(uni):
            if len(cand) == len(self.c) and (self == cand):
                self.c = [ord(ch) for ch in cand]
                return hash(cand)
        _CUR.note("hash_of_string_outside_universe")
        return hash(("charstr-not-in-universe", len(self.c)))

    def __add__(self, o):
        oc = self._codes(o)
        if oc is None:
            return NotImplemented
        return CharStr(self.c + list(oc))

    def __radd__(self, o):
        oc = self._codes(o)
        if oc is None:
            return NotImplemented
        return CharStr(list(oc) + self.c)

    def __mul__(self, n):
        return CharStr(self.c * n)

    def __getitem__(self, i):
        if isinstance(i, slice):
            a = None if i.start is None else _to_index(i.start)
            b = None if i.stop is None else _to_index(i.stop)
            return CharStr(self.c[slice(a, b, i.step)])
        return CharStr([self.c[_to_index(i)]])

    def lower(self):
        out = []
        for ch in self.c:
            if isinstance(ch, int):
                out.append(ord(chr(ch).lower()) if ch < 128 else ch)
            else:
                t = _as_int_term(ch)
                out.append(SymInt(z3.If(z3.And(t >= 65, t <= 90), t + 32, t)))
        return CharStr(out)

    def upper(self):
        out = []
        for ch in self.c:
            if isinstance(ch, int):
                out.append(ord(chr(ch).upper()) if ch < 128 else ch)
            else:
                t = _as_int_term(ch)
                out.append(SymInt(z3.If(z3.And(t >= 97, t <= 122), t - 32, t)))
        return CharStr(out)

    def endswith(self, suf):
        if isinstance(suf, tuple):
            return self._disj([self.endswith(x) for x in suf])
        sc = self._codes(suf)
        return self._match_at(len(self.c) - len(sc), sc)

    def startswith(self, pre, start=0):
        if isinstance(pre, tuple):
            return self._disj([self.startswith(x, start) for x in pre])
        return self._match_at(start, self._codes(pre))

    def _contains(self, sub):
        sc = self._codes(sub)
        if len(sc) == 0:
            return True
        return self._disj([self._match_at(i, sc) for i in range(len(self.c) - len(sc) + 1)])

    def __contains__(self, sub):
        return bool(self._contains(sub))

    def find(self, sub, start=0, end=None):
        sc = self._codes(sub)
        end = len(self.c) if end is None else end
        for i in range(start, end - len(sc) + 1):
            if self._match_at(i, sc):
                return i
        return -1

    def rfind(self, sub, start=0, end=None):
        sc = self._codes(sub)
        end = len(self.c) if end is None else end
        for i in range(end - len(sc), start - 1, -1):
            if self._match_at(i, sc):
                return i
        return -1

    def index(self, sub, *a):
        r = self.find(sub, *a)
        if r < 0:
            raise ValueError("substring not found")
        return r

    def count(self, sub):
        sc = self._codes(sub)
        n, i = 0, 0
        while i <= len(self.c) - len(sc):
            if self._match_at(i, sc):
                n += 1
                i += max(len(sc), 1)
            else:
                i += 1
        return n

    def split(self, sep=None, maxsplit=-1):
        if sep is None:
            _unsupported("CharStr.split() on whitespace")
        out, start, i = [], 0, 0
        sc = self._codes(sep)
        while i <= len(self.c) - len(sc):
            if (maxsplit < 0 or len(out) < maxsplit) and self._match_at(i, sc):
                out.append(CharStr(self.c[start:i]))
                i += len(sc)
                start = i
            else:
                i += 1
        out.append(CharStr(self.c[start:]))
        return out

    def rsplit(self, sep=None, maxsplit=-1):
        if sep is None:
            _unsupported("CharStr.rsplit() on whitespace")
        sc = self._codes(sep)
        out, end, i = [], len(self.c), len(self.c) - len(sc)
        while i >= 0:
            if (maxsplit < 0 or len(out) < maxsplit) and self._match_at(i, sc):
                out.append(CharStr(self.c[i + len(sc):end]))
                end = i
                i -= len(sc)
            else:
                i -= 1
        out.append(CharStr(self.c[:end]))
        return out[::-1]

    def rpartition(self, sep):
        i = self.rfind(sep)
        if i < 0:
            return CharStr([]), CharStr([]), self
        n = len(self._codes(sep))
        return CharStr(self.c[:i]), CharStr(self.c[i:i + n]), CharStr(self.c[i + n:])

    def partition(self, sep):
        i = self.find(sep)
        if i < 0:
            return self, CharStr([]), CharStr([])
        n = len(self._codes(sep))
        return CharStr(self.c[:i]), CharStr(self.c[i:i + n]), CharStr(self.c[i + n:])

    _WS = (32, 9, 10, 11, 12, 13)

    def _is_ws(self, ch, chars):
        codes = self._WS if chars is None else self._codes(chars)
        return self._disj([self._eqc(ch, w) for w in codes])

    def lstrip(self, chars=None):
        i = 0
        while i < len(self.c) and self._is_ws(self.c[i], chars):
            i += 1
        return CharStr(self.c[i:])

    def rstrip(self, chars=None):
        j = len(self.c)
        while j > 0 and self._is_ws(self.c[j - 1], chars):
            j -= 1
        return CharStr(self.c[:j])

    def strip(self, chars=None):
        return self.lstrip(chars).rstrip(chars)

    def replace(self, old, new):
        oc, nc = self._codes(old), self._codes(new)
        out, i = [], 0
        while i < len(self.c):
            if len(oc) and self._match_at(i, oc):
                out.extend(nc)
                i += len(oc)
            else:
                out.append(self.c[i])
                i += 1
        return CharStr(out)

    def join(self, parts):
        out = []
        for k, p_ in enumerate(parts):
            if k:
                out.extend(self.c)
            out.extend(self._codes(p_))
        return CharStr(out)

    def isdigit(self):
        return self._all_in([(48, 57)])

    def _all_in(self, ranges):
        if not self.c:
            return False
        parts = []
        for ch in self.c:
            if isinstance(ch, int):
                if not any(lo <= ch <= hi for lo, hi in ranges):
                    return False
                continue
            t = _as_int_term(ch)
            parts.append(z3.Or(*[z3.And(t >= lo, t <= hi) for lo, hi in ranges]))
        return self._conj(parts)

    def isalpha(self):
        """ASCII letters (the harnesses bound characters to ASCII)"""
        return self._all_in([(65, 90), (97, 122)])

    def isalnum(self):
        return self._all_in([(48, 57), (65, 90), (97, 122)])

    def isspace(self):
        return self._all_in([(9, 13), (32, 32)])

    def isupper(self):
        return self._all_in([(65, 90)])

    def islower(self):
        return self._all_in([(97, 122)])

    def to_int(self, base=10):
        """int(str, base) semantics on ASCII text: surrounding white space stripped, optional sign,
        optional 0x/0o/0b prefix matching the base, digits with single underscores between them;
        forks on each character test; raises ValueError otherwise"""
        body = self.strip()
        codes = list(body.c)

        def is_(ch, *vals):
            r = CharStr._disj([CharStr._eqc(ch, v) for v in vals])
            return r if isinstance(r, bool) else bool(r)

        neg = False
        if codes and is_(codes[0], 45, 43):
            neg = is_(codes[0], 45)
            codes = codes[1:]
        prefix = {16: (120, 88), 8: (111, 79), 2: (98, 66)}.get(base)
        if prefix and len(codes) >= 2 and is_(codes[0], 48) and is_(codes[1], *prefix):
            codes = codes[2:]
            if codes and is_(codes[0], 95):
                codes = codes[1:]
        if not codes:
            raise ValueError("invalid literal for int()")
        val = 0
        prev_us = True          # an underscore may not lead, trail or repeat
        for k_, ch in enumerate(codes):
            if not prev_us and k_ < len(codes) - 1 and is_(ch, 95):
                prev_us = True
                continue
            prev_us = False
            if isinstance(ch, int):
                try:
                    d = int(chr(ch), base)
                except ValueError:
                    raise ValueError("invalid literal for int()")
                val = val * base + d
                continue
            t = _as_int_term(ch)
            ranges = [(48, min(57, 47 + base))]
            if base > 10:
                ranges += [(65, 54 + base), (97, 86 + base)]
            ok = z3.Or(*[z3.And(t >= lo, t <= hi) for lo, hi in ranges])
            if not _CUR.decide(ok):
                raise ValueError("invalid literal for int()")
            d = z3.If(t <= 57, t - 48, z3.If(t <= 90, t - 55, t - 87))
            val = val * base + SymInt(d)
        return -val if neg else val

    def encode(self, encoding="utf-8", errors="strict"):
        s_ = self.concrete()
        if s_ is not None:
            return s_.encode(encoding, errors)
        if encoding.lower().replace("_", "-") == "utf-16" and errors == "surrogatepass":
            # modelled: the UTF-16 code units of the string (see _Utf16Units.decode)
            return _Utf16Units(self.c)
        _unsupported("CharStr.encode with symbolic characters")

    # -- ordering (single characters compare by code point; longer strings lexicographically) --
    def _order(self, o, strict, less):
        oc = self._codes(o)
        if oc is None:
            return NotImplemented
        a, b = (self.c, oc) if less else (oc, self.c)
        # a < b (strict) / a <= b lexicographically
        def lt(i):
            if i >= len(a) or i >= len(b):
                return z3.BoolVal(len(a) < len(b) if strict else len(a) <= len(b))
            x, y = _as_int_term(a[i]), _as_int_term(b[i])
            return z3.Or(x < y, z3.And(x == y, lt(i + 1)))
        r = z3.simplify(lt(0))
        if z3.is_true(r):
            return True
        if z3.is_false(r):
            return False
        return SymBool(r)

    def __lt__(self, o):
        return self._order(o, True, True)

    def __le__(self, o):
        return self._order(o, False, True)

    def __gt__(self, o):
        return self._order(o, True, False)

    def __ge__(self, o):
        return self._order(o, False, False)

    def __str__(self):
        s_ = self.concrete()
        return s_ if s_ is not None else "<charstr>"

    def __repr__(self):
        s_ = self.concrete()
        return repr(s_) if s_ is not None else "<charstr len=%d>" % len(self.c)

    def __format__(self, spec):
        return str(self)

    def __fspath__(self):
        s_ = self.concrete()
        if s_ is None:
            _unsupported("os.fspath(CharStr)")
        return s_


class _Utf16Units:
    """result of CharStr.encode("utf-16", "surrogatepass"): the code units, kept as code points.
    decode("utf-16", "replace") joins surrogate pairs and replaces lone surrogates by U+FFFD - the
    round trip python performs on the real bytes (validated against the real codec on concrete
    strings by symrun.validate_utf16_model)."""

    def __init__(self, codes):
        self.c = list(codes)

    def decode(self, encoding="utf-8", errors="strict"):
        if encoding.lower().replace("_", "-") != "utf-16" or errors != "replace":
            _unsupported("decode of modelled UTF-16 units other than ('utf-16', 'replace')")
        # characters above U+FFFF were encoded as two units: expand first
        units = []
        for ch in self.c:
            if isinstance(ch, int):
                if ch > 0xFFFF:
                    v = ch - 0x10000
                    units += [0xD800 + (v >> 10), 0xDC00 + (v & 0x3FF)]
                else:
                    units.append(ch)
            else:
                if _CUR.decide(_as_int_term(ch) > 0xFFFF):
                    _unsupported("symbolic astral character in UTF-16 model")
                units.append(ch)
        out, i = [], 0

        def in_range(ch, lo, hi):
            if isinstance(ch, int):
                return lo <= ch <= hi
            t = _as_int_term(ch)
            return _CUR.decide(z3.And(t >= lo, t <= hi))
        while i < len(units):
            ch = units[i]
            if in_range(ch, 0xD800, 0xDBFF):
                if i + 1 < len(units) and in_range(units[i + 1], 0xDC00, 0xDFFF):
                    lo = units[i + 1]
                    if isinstance(ch, int) and isinstance(lo, int):
                        out.append(0x10000 + ((ch - 0xD800) << 10) + (lo - 0xDC00))
                    else:
                        out.append(SymInt(65536 + (_as_int_term(ch) - 0xD800) * 1024 + (_as_int_term(lo) - 0xDC00)))
                    i += 2
                    continue
                out.append(0xFFFD)
            elif in_range(ch, 0xDC00, 0xDFFF):
                out.append(0xFFFD)
            else:
                out.append(ch)
            i += 1
        return CharStr(out)


def validate_utf16_model():
    """the modelled surrogatepass/replace round trip == python's on concrete strings"""
    import itertools
    alphabet = ["a", "\ud800", "\udbff", "\udc00", "\udfff", "\ue000", "\U0001f600"]
    n = 0
    for L in (0, 1, 2, 3):
        for tup in itertools.product(alphabet, repeat=L):
            s_ = "".join(tup)
            real = s_.encode("utf-16", "surrogatepass").decode("utf-16", "replace")
            got = _Utf16Units([ord(ch) for ch in s_]).decode("utf-16", "replace")
            n += 1
            if str(got) != real and [ord(x) for x in real] != [int(c) for c in got.c]:
                raise AssertionError(f"utf-16 model differs on {s_!r}: {got.c} vs {[ord(x) for x in real]}")
    return n


class SymMap:
    """dict stand-in keyed by concrete str/int whose lookups accept symbolic keys
    (one fork per key compared, in insertion order)."""

    def __init__(self, d):
        self.d = dict(d)

    def _find(self, k):
        if isinstance(k, (str, int, bytes)):
            return (True, self.d[k]) if k in self.d else (False, None)
        if isinstance(k, CharStr):
            ks = k.concrete()
            if ks is not None:
                return (True, self.d[ks]) if ks in self.d else (False, None)
            for kk, vv in self.d.items():
                if isinstance(kk, str) and len(kk) == len(k.c) and (k == kk):
                    k.c = [ord(ch) for ch in kk]   # sound on this path: pc contains k == kk
                    return True, vv
            return False, None
        if isinstance(k, SymStr):
            keys = [kk for kk in self.d if isinstance(kk, str)]
            if not keys:
                return False, None
            # one fork "is it any key", then enumerate only the FEASIBLE keys from models
            if not _CUR.decide(z3.Or(*[k.z == z3.StringVal(kk) for kk in keys])):
                return False, None
            val = _CUR.concretize(k.z)
            k.z = z3.StringVal(val)   # sound on this path: pc now contains k == val
            return True, self.d[val]
        for kk, vv in self.d.items():
            if k == kk:
                return True, vv
        return False, None

    def get(self, k, default=None):
        ok, v = self._find(k)
        return v if ok else default

    def __getitem__(self, k):
        ok, v = self._find(k)
        if not ok:
            raise KeyError(k)
        return v

    def __contains__(self, k):
        return self._find(k)[0]

    def __iter__(self):
        return iter(self.d)

    def keys(self):
        return self.d.keys()

    def items(self):
        return self.d.items()

    def values(self):
        return self.d.values()

    def __len__(self):
        return len(self.d)


class SymSet:
    """set/frozenset stand-in; membership of a symbolic value is one disjunction"""

    def __init__(self, s):
        self.s = list(s)

    def __contains__(self, k):
        if isinstance(k, CharStr):
            ks = k.concrete()
            if ks is not None:
                return ks in self.s
            return bool(CharStr._disj([k == x for x in self.s if isinstance(x, str) and len(x) == len(k.c)]))
        if isinstance(k, SymStr):
            return bool(SymBool(z3.Or(*[k.z == z3.StringVal(x) for x in self.s]) if self.s else z3.BoolVal(False)))
        if isinstance(k, (SymInt, SymBV)):
            conds = [(k == x).z for x in self.s]
            return bool(SymBool(z3.Or(*conds) if conds else z3.BoolVal(False)))
        return k in self.s

    def __iter__(self):
        return iter(self.s)

    def __len__(self):
        return len(self.s)


class AbsBytes:
    """Abstract byte buffer of symbolic length backed by a z3 array (for inductive
    loop-step kernels).  Reads inside [0,len) give array selects; a read that is not
    provably inside forks on in-range and truncates like python slicing."""

    def __init__(self, name, length):
        self.arr = z3.Array(name, z3.IntSort(), z3.BitVecSort(8))
        self.n = length if isinstance(length, SymInt) else SymInt(z3.IntVal(length))

    def sym_len(self):
        return self.n

    def __len__(self):
        return _CUR.concretize(self.n.z)

    def _byte(self, idx):
        return SymBV(z3.Select(self.arr, idx), 8)

    def __getitem__(self, i):
        n = self.n.z
        if isinstance(i, slice):
            if i.step not in (None, 1):
                _unsupported("AbsBytes slice step")
            a = _as_int_term(0 if i.start is None else i.start)
            b = n if i.stop is None else _as_int_term(i.stop)
            width = z3.simplify(b - a)
            if not z3.is_int_value(width):
                w = _CUR.concretize(width)
            else:
                w = width.as_long()
            if w <= 0:
                return SymBytes([])
            if _CUR.decide(z3.And(a >= 0, b <= n)):
                return SymBytes([self._byte(a + j) for j in range(w)])
            if _CUR.decide(a < 0):
                _unsupported("AbsBytes negative slice start")
            avail = _CUR.concretize(z3.If(n - a < 0, z3.IntVal(0), n - a))
            return SymBytes([self._byte(a + j) for j in range(min(avail, w))])
        t = _as_int_term(i)
        if _CUR.decide(z3.Or(t < 0, t >= n)):
            if _CUR.decide(z3.And(t < 0, t >= -n)):
                return self._byte(n + t)
            raise IndexError("index out of range")
        return self._byte(t)


# --------------------------------------------------------------------------------------
# contexts
# --------------------------------------------------------------------------------------

class Counterexample:
    def __init__(self, label, inputs, info, path_index):
        self.label = label
        self.inputs = inputs
        self.info = info
        self.path_index = path_index

    def as_dict(self):
        return {"label": self.label, "inputs": self.inputs, "info": self.info}


class _Base:
    concrete = False

    def note(self, what):
        self.notes[what] = self.notes.get(what, 0) + 1

    def event(self, *a):
        self.events.append(a)

    @contextlib.contextmanager
    def shadow(self, target, **names):
        """temporarily set attributes/global names on a module (or dict).  No-op when
        replaying concretely unless keep=True names are given via ``stub``"""
        if self.concrete:
            yield
            return
        d = target if isinstance(target, dict) else vars(target)
        missing = object()
        saved = {k: d.get(k, missing) for k in names}
        d.update(names)
        self.shadows_used.update(
            f"{getattr(target, '__name__', 'globals')}.{k}" for k in names)
        try:
            yield
        finally:
            for k, v in saved.items():
                if v is missing:
                    d.pop(k, None)
                else:
                    d[k] = v

    @contextlib.contextmanager
    def stub(self, target, **names):
        """like shadow but also active in concrete replay (environment stubs)"""
        d = target if isinstance(target, dict) else None
        missing = object()
        if d is not None:
            saved = {k: d.get(k, missing) for k in names}
            d.update(names)
        else:
            saved = {k: getattr(target, k, missing) for k in names}
            for k, v in names.items():
                setattr(target, k, v)
        self.stubs_used.update(
            f"{getattr(target, '__name__', getattr(target, '__qualname__', 'obj'))}.{k}" for k in names)
        try:
            yield
        finally:
            for k, v in saved.items():
                if d is not None:
                    if v is missing:
                        d.pop(k, None)
                    else:
                        d[k] = v
                else:
                    if v is missing:
                        try:
                            delattr(target, k)
                        except AttributeError:
                            pass
                    else:
                        setattr(target, k, v)


class SymCtx(_Base):
    def __init__(self, run, prefix):
        self.run = run
        self.prefix = prefix
        self.trace = []          # [(cond, taken)]
        self.solver = z3.Solver()
        if run.solver_timeout_ms:
            self.solver.set("timeout", run.solver_timeout_ms)
        self.inputs = {}         # name -> z3 const (ordered)
        self.counter = {}
        self.notes = run.notes
        self.events = []
        self.unsupported = []
        self.shadows_used = run.shadows_used
        self.stubs_used = run.stubs_used
        self.bitwidth = run.bitwidth
        self.requires_reached = 0
        self.maybe = False       # a feasibility check answered unknown on this path
        self.perturb = run.perturb
        self.tier = run.tier
        self.params = run.params
        self.hash_universe = None
        # opt-in (harness sets ``ctx.decision_memo = {}``): a condition / concretised term that
        # was already decided on this path is answered from the path condition without
        # solver calls and without a new trace entry (sound: the decision is in the pc)
        self.decision_memo = None
        self._memo_keep = []

    # ---- inputs ----------------------------------------------------------------------
    def _name(self, name):
        k = self.counter.get(name, 0)
        self.counter[name] = k + 1
        return name if k == 0 else f"{name}#{k}"

    def fresh_int(self, name, lo=None, hi=None):
        n = self._name(name)
        v = z3.Int(n)
        self.inputs[n] = v
        if lo is not None:
            self.solver.add(v >= lo)
        if hi is not None:
            self.solver.add(v <= hi)
        return SymInt(v)

    def fresh_bool(self, name):
        n = self._name(name)
        v = z3.Bool(n)
        self.inputs[n] = v
        return SymBool(v)

    def fresh_bv(self, name, w):
        n = self._name(name)
        v = z3.BitVec(n, w)
        self.inputs[n] = v
        return SymBV(v, w)

    def fresh_str(self, name, maxlen=None):
        n = self._name(name)
        v = z3.String(n)
        self.inputs[n] = v
        if maxlen is not None:
            self.solver.add(z3.Length(v) <= maxlen)
        return SymStr(v)

    def fresh_bytes(self, name, n):
        return SymBytes([self.fresh_bv(f"{name}[{i}]", 8) for i in range(n)])

    def fresh_chars(self, name, n, lo=1, hi=127):
        """string of concrete length n with symbolic characters (codes in [lo,hi])"""
        return CharStr([self.fresh_int(f"{name}[{i}]", lo, hi) for i in range(n)])

    def choice(self, name, n):
        """fresh symbolic int in [0,n) consumed concretely at a harness injection point.
        The variable is fresh and constrained by its range only, so every value is feasible
        and no solver call is needed to enumerate them (one n-ary decision)."""
        v = self.fresh_int(name, 0, n - 1)
        if n <= 1:
            return 0
        i = len(self.trace)
        if i < len(self.prefix):
            val = int(self.prefix[i])
        else:
            if i >= self.run.max_depth:
                raise BoundExceeded(f"decision depth {i} reached")
            kind, site = self._site()
            self.run.fork_sites[kind][site] = self.run.fork_sites[kind].get(site, 0) + 1
            base = [t for _, t in self.trace]
            for alt in range(n - 1, 0, -1):
                self.run.work.append(base + [alt])
            val = 0
        c = (v.z == val)
        self.trace.append((c, val))
        self.solver.add(c)
        return val

    def flag(self, name):
        return bool(self.choice(name, 2))

    def pick(self, name, n):
        """like ``choice`` but creates no z3 variable: the value is recorded directly as an
        input of the path (cheap; for harnesses with many structure decisions per path)"""
        nm = self._name(name)
        if n <= 1:
            self.inputs[nm] = 0
            return 0
        i = len(self.trace)
        if i < len(self.prefix):
            val = int(self.prefix[i])
        else:
            if i >= self.run.max_depth:
                raise BoundExceeded(f"decision depth {i} reached")
            kind, site = self._site()
            self.run.fork_sites[kind][site] = self.run.fork_sites[kind].get(site, 0) + 1
            base = [t for _, t in self.trace]
            for alt in range(n - 1, 0, -1):
                self.run.work.append(base + [alt])
            val = 0
        self.trace.append((_TRUE, val))
        self.inputs[nm] = val
        return val

    def conc(self, v, lo, hi):
        """fork a small symbolic int into its concrete values (binary splitting)"""
        if isinstance(v, int):
            return v
        z = v.z
        while lo < hi:
            mid = (lo + hi) // 2
            if self.decide(z <= mid):
                hi = mid
            else:
                lo = mid + 1
        self.assume(z == lo)
        return lo

    def uf(self, name, *sorts):
        return z3.Function(name, *sorts)

    # ---- control ---------------------------------------------------------------------
    def assume(self, cond):
        c = _zb(cond) if not z3.is_bool(cond) else cond
        self.solver.add(c)
        if self.run.mode == "pruned":
            r = self.solver.check()
            self.run.stats["checks"] += 1
            if r == z3.unsat:
                raise PathAbort()
            if r == z3.unknown:
                self.maybe = True

    def _feasible(self, c):
        t0 = time.time()
        self.solver.push()
        self.solver.add(c)
        r = self.solver.check()
        self.solver.pop()
        st = self.run.stats
        st["checks"] += 1
        st["solver_s"] += time.time() - t0
        st[str(r)] += 1
        if r == z3.unknown:
            self.maybe = True
            return True
        return r == z3.sat

    def _site(self):
        f = sys._getframe(2)
        first = None
        while f is not None:
            fn = f.f_code.co_filename
            if fn.startswith(REPO + "/"):
                return "repo", f"{fn[len(REPO) + 1:]}:{f.f_lineno}"
            if fn.startswith("<lifted sharepoint2text"):
                # repository source lifted to symbolic strings (vf/lift.py); line = line in function
                return "repo", f"{fn[1:-1]}:+{f.f_lineno}"
            if first is None and not fn.endswith("symrun.py"):
                first = f"{fn.rsplit('/', 1)[-1]}:{f.f_lineno}"
            f = f.f_back
        return "harness", first or "?"

    def decide(self, c):
        c = z3.simplify(c)
        if z3.is_true(c):
            return True
        if z3.is_false(c):
            return False
        memo = self.decision_memo
        if memo is not None:
            hit = memo.get(c.get_id())
            if hit is not None:
                return hit
        i = len(self.trace)
        if i < len(self.prefix):
            taken = self.prefix[i]
        else:
            if i >= self.run.max_depth:
                raise BoundExceeded(f"decision depth {i} reached")
            kind, site = self._site()
            self.run.fork_sites[kind][site] = self.run.fork_sites[kind].get(site, 0) + 1
            if self.run.mode == "pruned":
                t_ok = self._feasible(c)
                f_ok = self._feasible(z3.Not(c)) if t_ok else True
            else:
                t_ok = f_ok = True
            if t_ok and f_ok:
                self.run.work.append([t for _, t in self.trace] + [False])
                taken = True
            else:
                taken = bool(t_ok)
        self.trace.append((c, taken))
        self.solver.add(c if taken else z3.Not(c))
        if memo is not None:
            taken = bool(taken)
            neg = c.arg(0) if z3.is_not(c) else z3.Not(c)
            self._memo_keep.append(neg)      # keeps the AST (and so its id) alive
            memo[c.get_id()] = taken
            memo[neg.get_id()] = not taken
        return taken

    def concretize(self, z):
        """enumerate feasible values of an int/bv term by forking on equality with a
        model value"""
        z = z3.simplify(z)
        if z3.is_int_value(z) or z3.is_bv_value(z):
            return z.as_long()
        if z3.is_string_value(z):
            return z.as_string()
        memo = self.decision_memo
        if memo is not None:
            hit = memo.get(("conc", z.get_id()))
            if hit is not None:
                return hit[0]
        self.note("concretized")
        while True:
            i = len(self.trace)
            if i < len(self.prefix):
                # replay: the recorded condition tells the value
                c, val = self.run.cond_cache[tuple(self.prefix[:i])]
            else:
                self.solver.push()
                probe = z3.FreshConst(z.sort(), "cz")
                self.solver.add(probe == z)
                r = self.solver.check()
                self.run.stats["checks"] += 1
                if r != z3.sat:
                    self.solver.pop()
                    if r == z3.unknown:
                        self.maybe = True
                        raise BoundExceeded("concretize: solver unknown")
                    raise PathAbort()
                mv = self.solver.model().eval(probe, model_completion=True)
                self.solver.pop()
                val = mv.as_string() if z3.is_string_value(mv) else mv.as_long()
                c = (z == mv)
                self.run.cond_cache[tuple(t for _, t in self.trace)] = (c, val)
            if self.decide_raw(c):
                if memo is not None:
                    self._memo_keep.append(z)
                    memo[("conc", z.get_id())] = (val,)
                return val

    def decide_raw(self, c):
        """decide without simplification (condition identity matters for replay)"""
        i = len(self.trace)
        if i < len(self.prefix):
            taken = self.prefix[i]
        else:
            if i >= self.run.max_depth:
                raise BoundExceeded(f"decision depth {i} reached")
            kind, site = self._site()
            self.run.fork_sites[kind][site] = self.run.fork_sites[kind].get(site, 0) + 1
            # c is sat by construction (from a model); check the negation
            f_ok = self._feasible(z3.Not(c))
            if f_ok:
                self.run.work.append([t for _, t in self.trace] + [False])
            taken = True
        self.trace.append((c, taken))
        self.solver.add(c if taken else z3.Not(c))
        return taken

    # ---- the property ----------------------------------------------------------------
    def require(self, cond, label, **info):
        """the property assertion: must hold for every model of the path condition"""
        self.requires_reached += 1
        self.run.stats["requires"] += 1
        if isinstance(cond, (SymBool, SymInt)):
            cond = _zb(cond)
        if cond is True or (z3.is_bool(cond) and z3.is_true(z3.simplify(cond))):
            self.run.stats["q_simplified"] = self.run.stats.get("q_simplified", 0) + 1
            return
        t0 = time.time()
        self.solver.push()
        if cond is not False:
            self.solver.add(z3.Not(cond))
        r = self.solver.check()
        self.run.stats["queries"] += 1
        self.run.stats["solver_s"] += time.time() - t0
        self.run.stats["q_" + str(r)] += 1
        if r == z3.sat:
            m = self.solver.model()
            inputs = {}
            for n, v in self.inputs.items():
                inputs[n] = v if isinstance(v, int) else _pyval(m.eval(v, model_completion=True))
            self.solver.pop()
            cex = Counterexample(label, inputs, {k: _jsonable(v) for k, v in info.items()},
                                 self.run.stats["paths"])
            self.run.counterexamples.append(cex)
            raise PathViolation()
        self.solver.pop()
        if r == z3.unknown:
            self.run.inconclusive.append(f"require '{label}': solver unknown")

    def fail(self, label, **info):
        self.require(False, label, **info)


def _pyval(v):
    if z3.is_int_value(v):
        return v.as_long()
    if z3.is_bv_value(v):
        return v.as_long()
    if z3.is_true(v):
        return True
    if z3.is_false(v):
        return False
    if z3.is_string_value(v):
        return v.as_string()
    if z3.is_rational_value(v):
        return [v.numerator_as_long(), v.denominator_as_long()]
    return str(v)


def _jsonable(v):
    if isinstance(v, (str, int, float, bool)) or v is None:
        return v
    if isinstance(v, (list, tuple)):
        return [_jsonable(x) for x in v]
    if isinstance(v, dict):
        return {str(k): _jsonable(x) for k, x in v.items()}
    return repr(v)


class ConcreteCtx(_Base):
    """replay context: inputs come from a model, everything is a plain python value,
    shadows are not installed."""
    concrete = True

    def __init__(self, inputs, tier="quick", params=None):
        self.inputs = dict(inputs)
        self.counter = {}
        self.notes = {}
        self.events = []
        self.unsupported = []
        self.shadows_used = set()
        self.stubs_used = set()
        self.violations = []
        self.perturb = None
        self.tier = tier
        self.params = params or {}
        self.bitwidth = 64
        self.requires_reached = 0

    def _name(self, name):
        k = self.counter.get(name, 0)
        self.counter[name] = k + 1
        return name if k == 0 else f"{name}#{k}"

    def fresh_int(self, name, lo=None, hi=None):
        n = self._name(name)
        v = self.inputs.get(n)
        if v is None:
            v = lo if lo is not None else (hi if hi is not None and hi < 0 else 0)
        return int(v)

    def fresh_bool(self, name):
        return bool(self.inputs.get(self._name(name), False))

    def fresh_bv(self, name, w):
        return int(self.inputs.get(self._name(name), 0))

    def fresh_str(self, name, maxlen=None):
        return str(self.inputs.get(self._name(name), ""))

    def fresh_bytes(self, name, n):
        return bytes(self.fresh_bv(f"{name}[{i}]", 8) for i in range(n))

    def fresh_chars(self, name, n, lo=1, hi=127):
        return "".join(chr(self.fresh_int(f"{name}[{i}]", lo, hi)) for i in range(n))

    def choice(self, name, n):
        return self.fresh_int(name, 0, n - 1)

    def flag(self, name):
        return bool(self.fresh_int(name, 0, 1))

    def pick(self, name, n):
        return self.fresh_int(name, 0, n - 1)

    def conc(self, v, lo, hi):
        return int(v)

    def assume(self, cond):
        if not cond:
            raise PathAbort()

    def require(self, cond, label, **info):
        self.requires_reached += 1
        if isinstance(cond, z3.ExprRef):
            cond = z3.is_true(z3.simplify(cond))
        if not cond:
            self.violations.append((label, {k: _jsonable(v) for k, v in info.items()}))
            raise PathViolation()

    def fail(self, label, **info):
        self.require(False, label, **info)

    def uf(self, name, *sorts):
        raise Unsupported("uf in concrete replay")


# --------------------------------------------------------------------------------------
# exploration
# --------------------------------------------------------------------------------------

class Run:
    def __init__(self, mode="pruned", max_depth=200, max_paths=200000, timeout_s=600,
                 solver_timeout_ms=20000, bitwidth=64, perturb=None, tier="quick",
                 params=None, stop_on_first=False):
        self.mode = mode
        self.max_depth = max_depth
        self.max_paths = max_paths
        self.timeout_s = timeout_s
        self.solver_timeout_ms = solver_timeout_ms
        self.bitwidth = bitwidth
        self.perturb = perturb
        self.tier = tier
        self.params = params or {}
        self.stop_on_first = stop_on_first
        self.work = [[]]
        self.cond_cache = {}
        self.stats = {"paths": 0, "aborted": 0, "checks": 0, "queries": 0, "requires": 0,
                      "solver_s": 0.0, "sat": 0, "unsat": 0, "unknown": 0,
                      "q_sat": 0, "q_unsat": 0, "q_unknown": 0, "paths_with_require": 0,
                      "decisions": 0, "maybe_paths": 0}
        self.fork_sites = {"repo": {}, "harness": {}}
        self.notes = {}
        self.shadows_used = set()
        self.stubs_used = set()
        self.counterexamples = []
        self.inconclusive = []
        self.errors = []
        self.samples = []
        self.path_models = []
        self.max_cex = 60
        self.model_budget = 12
        self.model_stride = 97
        self.wall_s = 0.0


def explore(harness, **kw):
    """Run ``harness(ctx)`` over all feasible decision sequences."""
    global _CUR
    run = Run(**kw)
    t0 = time.time()
    while run.work:
        if run.stats["paths"] >= run.max_paths:
            run.inconclusive.append(f"path bound {run.max_paths} reached with work left")
            break
        if time.time() - t0 > run.timeout_s:
            run.inconclusive.append(f"time budget {run.timeout_s}s reached with work left")
            break
        prefix = run.work.pop()
        ctx = SymCtx(run, prefix)
        prev = _CUR
        _CUR = ctx
        n_cex_before = len(run.counterexamples)
        try:
            harness(ctx)
        except PathAbort:
            run.stats["aborted"] += 1
            continue
        except PathViolation:
            pass
        except BoundExceeded as e:
            run.inconclusive.append(f"bound exceeded: {e}")
        except Unsupported as e:
            run.errors.append(f"unsupported proxy operation escaped: {e}")
        except Exception as e:  # harness bug
            import traceback
            run.errors.append("harness raised %s: %s\n%s" % (
                type(e).__name__, e, traceback.format_exc(limit=8)))
        finally:
            _CUR = prev
        if ctx.unsupported:
            run.errors.append("unsupported proxy operation (possibly swallowed by code under "
                              "test): " + "; ".join(sorted(set(ctx.unsupported))[:3]))
        run.stats["paths"] += 1
        run.stats["decisions"] += len(ctx.trace)
        if ctx.requires_reached:
            run.stats["paths_with_require"] += 1
        if ctx.maybe:
            run.stats["maybe_paths"] += 1
        if len(run.samples) < 3:
            run.samples.append({"decisions": [bool(t) for _, t in ctx.trace][:24],
                                "pc": [str(c)[:120] for c, _ in ctx.trace][:6]})
        # a model of this (passing) path, to be re-executed concretely against the real code
        np_ = run.stats["paths"]
        # (a path on which a counterexample was found is not a passing path: any other model
        # of its path condition may violate as well)
        if ctx.requires_reached and len(run.path_models) < run.model_budget and \
                len(run.counterexamples) == n_cex_before and \
                (np_ <= 4 or np_ % run.model_stride == 0):
            try:
                if ctx.solver.check() == z3.sat:
                    m = ctx.solver.model()
                    run.path_models.append({n: (v if isinstance(v, int) else
                                                _pyval(m.eval(v, model_completion=True)))
                                            for n, v in ctx.inputs.items()})
            except Exception:
                pass
        if run.stop_on_first and run.counterexamples:
            break
        if len(run.counterexamples) >= run.max_cex:
            # plenty of counterexamples for the report; the part is not explored further
            run.notes["stopped_after_max_counterexamples"] = run.max_cex
            break
        if len(run.errors) > 5:
            break
    if run.stats["unknown"] or run.stats["q_unknown"]:
        run.inconclusive.append("solver answered unknown on %d feasibility checks / %d queries" % (
            run.stats["unknown"], run.stats["q_unknown"]))
    run.wall_s = time.time() - t0
    return run


def replay_concrete(harness, inputs, tier="quick", params=None):
    """Re-run the harness on plain python values (no proxies, no shadows).
    Returns (violated, detail)."""
    global _CUR
    ctx = ConcreteCtx(inputs, tier=tier, params=params)
    prev = _CUR
    _CUR = ctx
    try:
        harness(ctx)
    except PathViolation:
        pass
    except PathAbort:
        return False, "assumption not met in replay"
    finally:
        _CUR = prev
    if ctx.violations:
        return True, ctx.violations[0]
    return False, None


def describe(fn):
    """qualname, file:lines and sha256 of a function's current source text"""
    try:
        fn = inspect.unwrap(fn)
        src, start = inspect.getsourcelines(fn)
        f = inspect.getsourcefile(fn) or "?"
        text = "".join(src)
        return {"qualname": f"{fn.__module__}.{fn.__qualname__}",
                "file": f[len(REPO) + 1:] if f.startswith(REPO) else f,
                "lines": [start, start + len(src) - 1],
                "sha256": hashlib.sha256(text.encode()).hexdigest()[:16]}
    except Exception as e:
        return {"qualname": getattr(fn, "__qualname__", repr(fn)), "error": str(e)}
