"""Driver plumbing shared by all property checks: kernels, parallel execution, replay,
known findings, evidence."""
from __future__ import annotations

import concurrent.futures as cf
import hashlib
import importlib
import json
import os
import sys
import time
import traceback

VERIF = os.path.dirname(os.path.dirname(os.path.abspath(__file__)))
EVIDENCE_DIR = os.path.join(VERIF, "evidence")
REPLAY_DIR = os.path.join(VERIF, "replays")
KNOWN_FILE = os.path.join(VERIF, "known_findings.json")


class Kernel:
    """One harness (+ twin) of a property.

    fn        E2 harness ``fn(ctx)``; or None when ``runner`` is given
    runner    custom runner ``runner(kernel, tier, params) -> dict`` (E1 / E3 kernels)
    targets   callable returning the list of repository functions encoded
    bounds    {"quick": {...}, "thorough": {...}} -> ctx.params
    parts     callable(tier) -> list of param dicts; each part is explored in its own
              process and the union is the kernel's space (exhaustive partition)
    perturb   names of oracle perturbations that MUST yield a violation (twin)
    """

    def __init__(self, kid, title, fn=None, *, engine="E2", targets=None, bounds=None,
                 parts=None, core=True, strength="data", mode="pruned", assumptions=(),
                 outside=(), stubs=(), perturb=(), runner=None, max_depth=400,
                 timeout={"quick": 150, "thorough": 1500}, solver_timeout_ms=30000,
                 symbolic=(), choices=(), public_replay=None):
        self.id = kid
        self.title = title
        self.fn = fn
        self.engine = engine
        self.targets = targets or (lambda: [])
        self.bounds = bounds or {"quick": {}, "thorough": {}}
        self.parts = parts
        self.core = core
        self.strength = strength
        self.mode = mode
        self.assumptions = list(assumptions)
        self.outside = list(outside)
        self.stubs = list(stubs)
        self.perturb = list(perturb)
        self.runner = runner
        self.max_depth = max_depth
        self.timeout = timeout
        self.solver_timeout_ms = solver_timeout_ms
        self.symbolic = list(symbolic)
        self.choices = list(choices)
        self.public_replay = public_replay


# --------------------------------------------------------------------------------------
# running one kernel part (in a worker process)
# --------------------------------------------------------------------------------------

def _load(prop):
    return importlib.import_module(f"vf.props.{prop.lower()}")


def _find_kernel(prop, kid):
    mod = _load(prop)
    for k in mod.KERNELS:
        if k.id == kid:
            return k
    raise KeyError(kid)


def _run_part(prop, kid, tier, params, perturb, seed):
    """worker: explore one part of one kernel; returns a plain dict"""
    import z3
    z3.set_param("smt.random_seed", seed % 1000)
    from vf import symrun
    k = _find_kernel(prop, kid)
    t0 = time.time()
    try:
        if k.runner is not None:
            out = k.runner(k, tier, dict(params), perturb)
            out.setdefault("wall_s", time.time() - t0)
            return out
        run = symrun.explore(
            k.fn, mode=k.mode, max_depth=k.max_depth, timeout_s=k.timeout[tier],
            solver_timeout_ms=k.solver_timeout_ms, perturb=perturb, tier=tier,
            params=dict(params), stop_on_first=bool(perturb))
        # re-execute models of passing paths on plain python values (no proxies, no shadows):
        # the real code must agree with the symbolic verdict
        validated, mismatches = 0, []
        if not perturb:
            cex_inputs = [c.inputs for c in run.counterexamples]
            for inputs in run.path_models:
                if inputs in cex_inputs:
                    continue
                try:
                    v, detail = symrun.replay_concrete(k.fn, inputs, tier=tier, params=dict(params))
                except BaseException as e:
                    mismatches.append(f"replay of a passing path crashed: {type(e).__name__}: {e}")
                    continue
                validated += 1
                if v:
                    mismatches.append(f"path passed symbolically but fails concretely: inputs={inputs} detail={detail}")
        run.stats["validated_paths"] = validated
        run.errors.extend(mismatches[:2])
        return {
            "stats": run.stats, "fork_sites": run.fork_sites, "notes": run.notes,
            "shadows": sorted(run.shadows_used), "stubs": sorted(run.stubs_used),
            "cex": [c.as_dict() for c in run.counterexamples],
            "inconclusive": run.inconclusive[:5], "errors": run.errors[:5],
            "samples": run.samples, "wall_s": run.wall_s,
        }
    except BaseException as e:  # the machinery itself crashed
        return {"stats": {}, "fork_sites": {"repo": {}, "harness": {}}, "notes": {},
                "shadows": [], "stubs": [], "cex": [], "inconclusive": [],
                "errors": ["worker crashed: %s: %s\n%s" % (type(e).__name__, e,
                                                            traceback.format_exc(limit=10))],
                "samples": [], "wall_s": time.time() - t0}


def _replay(prop, kid, tier, params, inputs):
    """worker: concrete replay (no proxies, no shadows) of one model"""
    from vf import symrun
    k = _find_kernel(prop, kid)
    try:
        if getattr(k, "replayer", None) is not None:
            return k.replayer(k, tier, dict(params), inputs)
        v, detail = symrun.replay_concrete(k.fn, inputs, tier=tier, params=dict(params))
        return {"violated": bool(v), "detail": detail}
    except BaseException as e:
        return {"violated": False, "detail": None,
                "error": "%s: %s\n%s" % (type(e).__name__, e, traceback.format_exc(limit=8))}


# --------------------------------------------------------------------------------------
# known findings
# --------------------------------------------------------------------------------------

def load_known(prop):
    if not os.path.exists(KNOWN_FILE):
        return []
    with open(KNOWN_FILE) as f:
        data = json.load(f)
    return [e for e in data.get("findings", []) if e.get("property") == prop]


def _matches(entry, kid, cex):
    m = entry.get("match", {})
    if m.get("kernel") and m["kernel"] != kid:
        return False
    if m.get("label") and m["label"] != cex["label"]:
        return False
    where = m.get("where")
    if where:
        try:
            return bool(eval(where, {"__builtins__": {"len": len, "any": any, "all": all,
                                                       "str": str, "int": int, "abs": abs,
                                                       "sum": sum, "min": min, "max": max,
                                                       "sorted": sorted, "set": set}},
                             {"i": cex["inputs"], "info": cex.get("info", {}),
                              "p": cex.get("params", {})}))
        except Exception:
            return False
    return True


# --------------------------------------------------------------------------------------
# property run
# --------------------------------------------------------------------------------------

def run_property(prop, tier="quick", only=None, jobs=None, seed=0, verbose=True):
    t_start = time.time()
    mod = _load(prop)
    kernels = [k for k in mod.KERNELS if not only or k.id in only]
    jobs = jobs or min(16, os.cpu_count() or 4)
    say = (lambda *a: print(*a, flush=True)) if verbose else (lambda *a: None)

    known = load_known(prop)
    harness_errors = []
    known_lines = []
    active = {}

    with cf.ProcessPoolExecutor(max_workers=jobs) as pool:
        # 1. pinned witnesses of known findings --------------------------------------
        futs = {}
        for e in known:
            if e.get("status") != "known":
                continue
            kid = e["match"]["kernel"]
            if only and kid not in only:
                continue
            w = e.get("witness", {})
            futs[pool.submit(_replay, prop, kid, tier, w.get("params", {}), w.get("inputs", {}))] = e
        for f, e in futs.items():
            r = f.result()
            if r.get("error"):
                harness_errors.append(f"witness of known finding {e['id']} crashed: {r['error']}")
            elif r["violated"]:
                active[e["id"]] = e
                line = f"KNOWN-FINDING: property={prop} {e['id']}: {e['what']}"
                known_lines.append(line)
                say(line)
            else:
                say(f"note: known finding {e['id']} no longer reproduces on this tree "
                    f"(nothing is excluded for it)")

        # 2. kernels (parts in parallel) ---------------------------------------------
        tasks = {}
        for k in kernels:
            base = dict(k.bounds.get(tier, {}))
            base["known_active"] = sorted(active)
            parts = k.parts(tier) if k.parts else [{}]
            for pi, p in enumerate(parts):
                params = dict(base)
                params.update(p)
                tasks[pool.submit(_run_part, prop, k.id, tier, params, None, seed)] = (k, pi, params, None)
            for pt in k.perturb:
                params = dict(base)
                params.update(parts[0] if parts else {})
                if isinstance(pt, tuple):
                    pt, extra = pt
                    params.update(extra)
                tasks[pool.submit(_run_part, prop, k.id, tier, params, pt, seed)] = (k, -1, params, pt)

        results = {k.id: {"parts": [], "twins": []} for k in kernels}
        for f in cf.as_completed(tasks):
            k, pi, params, pt = tasks[f]
            r = f.result()
            r["params"] = {a: b for a, b in params.items() if a != "known_active"}
            if pt is None:
                results[k.id]["parts"].append(r)
            else:
                r["perturb"] = pt
                results[k.id]["twins"].append(r)

        # 3. replay of counterexamples -------------------------------------------------
        violations = []
        kernel_reports = []
        totals = {"states": 0, "transitions": 0, "replayed": 0, "queries": 0, "solver_s": 0.0, "validated": 0}
        samples = []
        for k in kernels:
            res = results[k.id]
            rep = _summarise_kernel(k, tier, res)
            cexs = []
            for part in res["parts"]:
                for c in part["cex"]:
                    c = dict(c)
                    c["params"] = part["params"]
                    cexs.append(c)
            # one replay per distinct (label, inputs)
            seen = set()
            rfuts = []
            per_label_replays = {}
            for c in cexs:
                key = json.dumps([c["label"], c["inputs"], c["params"]], sort_keys=True, default=str)
                if key in seen:
                    continue
                seen.add(key)
                # replay at most 40 counterexamples per label (each is a native run of the real code)
                per_label_replays[c["label"]] = per_label_replays.get(c["label"], 0) + 1
                if per_label_replays[c["label"]] > 40 and not active:
                    continue
                rfuts.append((c, pool.submit(_replay, prop, k.id, tier, c["params"], c["inputs"])))
            n_known = 0
            for c, fut in rfuts:
                rr = fut.result()
                totals["replayed"] += 1
                if rr.get("error"):
                    harness_errors.append(f"{k.id}: replay crashed: {rr['error']}")
                    continue
                if not rr["violated"]:
                    harness_errors.append(
                        f"{k.id}: counterexample '{c['label']}' inputs={c['inputs']} does not "
                        f"reproduce on the untouched code (encoding or stub wrong)")
                    continue
                hit = [e for e in active.values() if _matches(e, k.id, c)]
                if hit:
                    n_known += 1
                    rep.setdefault("known_hits", {})
                    rep["known_hits"][hit[0]["id"]] = rep["known_hits"].get(hit[0]["id"], 0) + 1
                    continue
                violations.append((k, c, rr))
            rep["counterexamples"] = len(rfuts)
            rep["counterexamples_known"] = n_known
            # twins
            for tw in res["twins"]:
                ok = bool(tw["cex"])
                rep.setdefault("twins", []).append(
                    {"perturb": tw["perturb"], "refuted": ok,
                     "paths": tw["stats"].get("paths", 0), "wall_s": round(tw["wall_s"], 2)})
                if not ok and not tw["errors"] and not tw["inconclusive"]:
                    harness_errors.append(
                        f"{k.id}: perturbed oracle '{tw['perturb']}' was NOT refuted - harness is vacuous")
                elif not ok:
                    rep["inconclusive"].append(f"twin {tw['perturb']} inconclusive: "
                                               f"{(tw['errors'] or tw['inconclusive'])[0][:200]}")
            if rep["errors"]:
                harness_errors.extend(f"{k.id}: {e}" for e in rep["errors"])
            if rep["vacuous"]:
                harness_errors.append(f"{k.id}: no path reached the assertion (vacuous harness)")
            totals["validated"] += rep.get("passing_paths_replayed", 0)
            totals["states"] += rep["paths"]
            totals["transitions"] += rep["decisions"]
            totals["queries"] += rep["queries"] + rep["feasibility_checks"]
            totals["solver_s"] += rep["solver_s"]
            samples.extend(rep.pop("_samples")[:2])
            kernel_reports.append(rep)

    # 4. report ------------------------------------------------------------------------
    os.makedirs(REPLAY_DIR, exist_ok=True)
    if not only:
        import glob
        for old in glob.glob(os.path.join(REPLAY_DIR, prop, "*.json")):
            os.remove(old)
    viol_lines = []
    per_label = {}
    suppressed = 0
    for k, c, rr in violations:
        per_label[(k.id, c["label"])] = per_label.get((k.id, c["label"]), 0) + 1
        if per_label[(k.id, c["label"])] > 3:
            suppressed += 1
            continue
        body = {"property": prop, "kernel": k.id, "tier": tier, "label": c["label"],
                "inputs": c["inputs"], "params": c["params"], "info": c.get("info", {}),
                "observed": rr.get("detail")}
        h = hashlib.sha256(json.dumps(body, sort_keys=True, default=str).encode()).hexdigest()[:10]
        d = os.path.join(REPLAY_DIR, prop)
        os.makedirs(d, exist_ok=True)
        path = os.path.join(d, f"{k.id}-{h}.json")
        with open(path, "w") as f:
            json.dump(body, f, indent=1, default=str)
        line = f"VIOLATION property={prop} replay={path}"
        viol_lines.append(line)
        say(line)
        say(f"  kernel={k.id} label={c['label']} inputs={json.dumps(c['inputs'], default=str)[:300]}")

    if suppressed:
        say(f"  (+{suppressed} further counterexamples with the same kernel/label not written out)")
    conclusive_all = True
    for rep in kernel_reports:
        status = "ok" if rep["conclusive"] else "INCONCLUSIVE"
        if not rep["conclusive"]:
            conclusive_all = False
            say(f"INCONCLUSIVE kernel={rep['kernel']} reason={'; '.join(rep['inconclusive'])[:300]}")
        say(f"  [{prop}/{rep['kernel']}] {status} engine={rep['engine']} paths={rep['paths']} "
            f"queries={rep['queries']} (unsat={rep['q_unsat']} sat={rep['q_sat']} trivial={rep['q_simplified']}) "
            f"forks(repo/harness)={len(rep['fork_sites_in_repo'])}/{len(rep['fork_sites_in_harness'])} "
            f"cex={rep['counterexamples']} known={rep['counterexamples_known']} "
            f"solver={rep['solver_s']:.1f}s wall={rep['wall_s']:.1f}s")
    for e in harness_errors:
        say("HARNESS-ERROR " + e[:1500])

    wall = time.time() - t_start
    evidence = {
        "property_id": prop, "tier": tier, "seed": seed, "level": "model_checking",
        "coverage": {
            "states": max(totals["states"], 0),
            "transitions": max(totals["transitions"], 0),
            "traces_validated_against_impl": totals["replayed"] + len(known_lines) + totals["validated"],
            "samples": samples[:8] or [{"note": "no path sampled"}],
            "exhaustive": bool(conclusive_all and not harness_errors),
            "rule": "states = feasible paths of the real code explored under the symbolic "
                    "inputs (each a native execution of /repo functions); transitions = "
                    "solver-decided branch decisions; a path's property query is pc AND NOT "
                    "oracle, unsat for every path = holds within the bounds",
            "solver_queries": totals["queries"],
            "solver_s": round(totals["solver_s"], 2),
            "kernels": kernel_reports,
            "known_findings_active": sorted(active),
            "harness_errors": harness_errors[:10],
        },
        "assumptions": sorted({a for k in kernels for a in k.assumptions} |
                              {"outside: " + o for k in kernels for o in k.outside}),
        "wall_s": round(wall, 2),
        "violations": len(violations),
    }
    os.makedirs(EVIDENCE_DIR, exist_ok=True)
    if not only and not os.environ.get("VERIF_SCRATCH_EVIDENCE"):
        with open(os.path.join(EVIDENCE_DIR, f"{prop}.json"), "w") as f:
            json.dump(evidence, f, indent=1, default=str)
    else:
        with open(os.path.join(EVIDENCE_DIR, f".partial-{prop}.json"), "w") as f:
            json.dump(evidence, f, indent=1, default=str)
    say(f"{prop} tier={tier}: kernels={len(kernels)} paths={totals['states']} "
        f"violations={len(viol_lines)} known={len(known_lines)} harness_errors={len(harness_errors)} "
        f"wall={wall:.1f}s")
    if viol_lines:
        return 1
    if harness_errors:
        return 3
    return 0


def _summarise_kernel(k, tier, res):
    from vf import symrun
    parts = res["parts"]
    st = {}
    for p in parts:
        for a, b in p["stats"].items():
            st[a] = st.get(a, 0) + b
    forks_repo, forks_h = {}, {}
    notes, shadows, stubs = {}, set(), set()
    inconcl, errors, samples = [], [], []
    for p in parts:
        for s, n in p["fork_sites"]["repo"].items():
            forks_repo[s] = forks_repo.get(s, 0) + n
        for s, n in p["fork_sites"]["harness"].items():
            forks_h[s] = forks_h.get(s, 0) + n
        for s, n in p["notes"].items():
            notes[s] = notes.get(s, 0) + n
        shadows.update(p["shadows"])
        stubs.update(p["stubs"])
        inconcl.extend(p["inconclusive"])
        errors.extend(p["errors"])
        for s in p["samples"][:1]:
            samples.append({"kernel": k.id, "params": p["params"], **s})
    for p in parts:
        for c in p["cex"][:1]:
            samples.append({"kernel": k.id, "counterexample": c["label"], "inputs": c["inputs"]})
    funcs = []
    try:
        funcs = [symrun.describe(f) for f in k.targets()]
    except Exception as e:
        errors.append(f"targets(): {e}")
    paths = st.get("paths", 0)
    extra = {}
    for p in parts:
        for key in ("crosshair", "e3"):
            if key in p:
                extra.setdefault(key, []).append(p[key])
    rep = {
        "kernel": k.id, "title": k.title, "engine": k.engine, "mode": k.mode,
        "strength": ("symbolic data reaches repository branches" if k.strength == "data"
                     else "structure/schedule exploration"),
        "core": k.core, "bounds": k.bounds.get(tier, {}), "parts": len(parts),
        "functions_encoded": funcs,
        "symbolic_inputs": k.symbolic, "choice_inputs": k.choices,
        "stubs": sorted(stubs | set(k.stubs)), "shadows": sorted(shadows),
        "paths": paths, "decisions": st.get("decisions", 0),
        "paths_reaching_assertion": st.get("paths_with_require", 0),
        "passing_paths_replayed": st.get("validated_paths", 0),
        "feasibility_checks": st.get("checks", 0), "queries": st.get("queries", 0),
        "q_unsat": st.get("q_unsat", 0), "q_sat": st.get("q_sat", 0),
        "q_simplified": st.get("q_simplified", 0),
        "q_unknown": st.get("q_unknown", 0) + st.get("unknown", 0),
        "solver_s": round(st.get("solver_s", 0.0), 2),
        "wall_s": round(max([p["wall_s"] for p in parts] or [0]), 2),
        "fork_sites_in_repo": sorted(forks_repo), "fork_sites_in_harness": sorted(forks_h),
        "notes": notes, "inconclusive": inconcl[:5], "errors": errors[:5],
        "vacuous": (paths > 0 and st.get("paths_with_require", 0) == 0 and not errors
                    and not inconcl),
        "outside": k.outside, "_samples": samples,
    }
    rep.update(extra)
    rep["conclusive"] = not inconcl and not errors and paths > 0
    return rep
