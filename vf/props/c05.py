"""C05 - to_json is JSON-serialisable and from_json restores the same object."""
import dataclasses
import datetime
import io
import json
import typing

from vf.core import Kernel
from vf import symrun as S

MARKERS = ("_type", "_bytes", "_bytesio")


def _ser():
    import sharepoint2text.parsing.extractors.serialization as s
    return s


def _registry():
    return _ser()._get_type_registry()


def _dumps(x):
    # pure-python encoder with the stock settings (what json.dumps does, minus the C accelerator)
    return json.JSONEncoder().encode(x)


# ---------------------------------------------------------------------------------------
# K0: symbolic dictionary keys through the real decoder
# ---------------------------------------------------------------------------------------

KEY_LENS = (1, 4, 5, 6, 8)          # k / .... / _type / _bytes / _bytesio
VALS = [7, "QUJD", "x", None, [1], {"n": 1}]
SHAPES = ["Any", "Dict[str, Any]", "List[Dict[str, str]]", "List[List[Any]]", "List[Dict[str, Any]]"]


class SymDict(dict):
    """what json.loads hands to the decoder for a user dictionary, with symbolic keys: a real
    dict subclass (isinstance checks hold) whose membership / lookup compare key by key, so the
    decoder's own ``"_bytes" in value`` tests are the forks"""

    def __init__(self, pairs):
        dict.__init__(self)
        self.pairs = list(pairs)

    def __contains__(self, k):
        for kk, _ in self.pairs:
            if kk == k:
                return True
        return False

    def __getitem__(self, k):
        for kk, v in self.pairs:
            if kk == k:
                return v
        raise KeyError(k)

    def get(self, k, default=None):
        for kk, v in self.pairs:
            if kk == k:
                return v
        return default

    def items(self):
        return list(self.pairs)

    def keys(self):
        return [k for k, _ in self.pairs]

    def values(self):
        return [v for _, v in self.pairs]

    def __iter__(self):
        return iter(self.keys())

    def __len__(self):
        return len(self.pairs)

    def __bool__(self):
        return bool(self.pairs)

    def __eq__(self, o):
        return self is o

    __hash__ = None


def _pairs(d):
    return d.items() if isinstance(d, SymDict) else list(d.items())


def _same(a, b):
    """structural equality where dict keys may be CharStr; returns python bool or SymBool"""
    if isinstance(a, dict) and isinstance(b, dict):
        pa, pb = _pairs(a), _pairs(b)
        if len(pa) != len(pb):
            return False
        out = True
        for (ka, va), (kb, vb) in zip(pa, pb):
            r = (ka == kb)
            if r is False:
                return False
            if r is not True:
                out = r if out is True else (out & r)
            if not _same(va, vb):
                return False
        return out
    if isinstance(a, list) and isinstance(b, list):
        if len(a) != len(b):
            return False
        out = True
        for x, y in zip(a, b):
            r = _same(x, y)
            if r is False:
                return False
            if r is not True:
                out = r if out is True else (out & r)
        return out
    if isinstance(a, dict) != isinstance(b, dict):
        return False
    return type(a) is type(b) and a == b


def k0_marker_keys(ctx):
    s = _ser()
    shape = SHAPES[ctx.params["shape"]]
    if not ctx.concrete:
        ctx.hash_universe = S.str_constants_of(s._deserialize_value, s._deserialize_dataclass,
                                               s._serialize_for_json, s.deserialize_extraction)
    nk = 1 + ctx.choice("n_keys", 2)
    pairs = []
    for i in range(nk):
        n = KEY_LENS[ctx.choice(f"key{i}_len", len(KEY_LENS))]
        k = ctx.fresh_chars(f"key{i}", n, 48, 122)
        pairs.append((k, VALS[ctx.choice(f"val{i}", len(VALS))]))
    if nk == 2:
        ctx.assume(pairs[0][0] != pairs[1][0])
    if "C05-marker-keys" in ctx.params.get("known_active", []):
        # the recorded class: a user key that is a payload marker.  A "_type" key whose value names no registered
        # class is handed back unchanged by the decoder and is judged like any other key.
        # (with an unhashable value - list / dict - the "_type" key raises TypeError in the registry lookup: part
        # of the recorded class)
        for k, v in pairs:
            for mk in MARKERS:
                if (mk != "_type" or isinstance(v, (list, dict))) and len(mk) == len(k):
                    ctx.assume(k != mk)
    T = {"Any": typing.Any, "Dict[str, Any]": typing.Dict[str, typing.Any],
         "List[Dict[str, str]]": typing.List[typing.Dict[str, str]],
         "List[List[Any]]": typing.List[typing.List[typing.Any]],
         "List[Dict[str, Any]]": typing.List[typing.Dict[str, typing.Any]]}[shape]
    user = dict(pairs) if ctx.concrete else SymDict(pairs)
    wrap = lambda u: u if shape in ("Any", "Dict[str, Any]") else ([[u]] if shape == "List[List[Any]]" else [u])
    value = wrap(user)
    if ctx.concrete:
        # the serialiser emits plain user data unchanged, and it survives the JSON text form
        emitted = s._serialize_for_json(value, include_binary=True)
        ctx.require(emitted == value, "serialiser-changed-plain-data", user=repr(user), emitted=repr(emitted)[:80])
        value = json.loads(_dumps(emitted))
    expected = wrap(dict(pairs) if ctx.concrete else SymDict(pairs))
    if ctx.perturb == "expect_changed":
        expected = wrap({"other": 1})
    try:
        back = s._deserialize_value(value, T)
    except Exception as e:
        ctx.fail("plain-user-dict-decoded-as-marker", exc=type(e).__name__, msg=str(e)[:60],
                 user=repr(dict(pairs)) if ctx.concrete else None, shape=shape)
        return
    ctx.require(_same(back, expected), "plain-user-dict-decoded-as-marker",
                user=repr(dict(pairs)) if ctx.concrete else None, got=repr(back)[:80], shape=shape)


# ---------------------------------------------------------------------------------------
# K1: type-directed round trip over every registered dataclass
# ---------------------------------------------------------------------------------------

DICT_KEYS = ["k", "_type", "_bytes", "_bytesio", "value", "DocxRun"]
ANY_VALUES = [None, 3, 2.5, True, "s", [1, "a"], {"k": 1}, {"_type": "DocxRun"}, {"_bytes": "QUJD"}]


class G:
    def __init__(self, ctx, allow_markers):
        self.ctx = ctx
        self.k = 0
        self.allow_markers = allow_markers
        self.binary_paths = []

    def nm(self, s):
        self.k += 1
        return f"{s}{self.k}"

    def concrete_class(self, tp):
        reg = _registry()
        if dataclasses.is_dataclass(tp) and not getattr(tp, "_is_protocol", False) and tp.__name__ in reg \
                and not getattr(tp, "__abstractmethods__", None):
            return tp
        # abstract interface: pick the first registered concrete subclass
        for n in sorted(reg):
            c = reg[n]
            if c is not tp and isinstance(c, type) and issubclass(c, tp) and not getattr(c, "__abstractmethods__", None):
                return c
        return None

    def minimal(self, tp, depth=0):
        tp, opt = _unwrap(tp)
        if opt:
            return None
        o = typing.get_origin(tp)
        if o in (list, typing.List):
            return []
        if o in (dict, typing.Dict):
            return {}
        if tp is str:
            return ""
        if tp is bool:
            return False
        if tp is int:
            return 1
        if tp is float:
            return 0.5
        if tp is bytes:
            return b""
        if tp is io.BytesIO:
            return io.BytesIO(b"")
        if tp is typing.Any:
            return None
        if isinstance(tp, type):
            c = self.concrete_class(tp)
            if c is not None:
                return self.instance(c, None, depth + 1)
        return None

    def full(self, tp, depth):
        ctx = self.ctx
        tp, opt = _unwrap(tp)
        if opt and ctx.flag(self.nm("none")):
            return None
        o = typing.get_origin(tp)
        if o in (list, typing.List):
            (it,) = typing.get_args(tp) or (typing.Any,)
            n = ctx.choice(self.nm("len"), 3)
            out = []
            for i in range(n):
                out.append(self.full(it, depth - 1) if i == 0 else self.nonempty(it, depth - 1))
            return out
        if o in (dict, typing.Dict):
            args = typing.get_args(tp)
            vt = args[1] if len(args) > 1 else typing.Any
            if not ctx.flag(self.nm("has_entry")):
                return {}
            keys = DICT_KEYS if self.allow_markers else ["k", "value", "DocxRun"]
            key = keys[ctx.choice(self.nm("key"), len(keys))]
            return {key: self.full(vt, depth - 1)}
        if tp is str:
            return ["", "a b", "_type", "é "][ctx.choice(self.nm("str"), 4)]
        if tp is bool:
            return ctx.flag(self.nm("bool"))
        if tp is int:
            return [0, -3, 2 ** 40][ctx.choice(self.nm("int"), 3)]
        if tp is float:
            return [0.0, 1.25][ctx.choice(self.nm("float"), 2)]
        if tp is bytes:
            return [b"", b"\x00\xffPNG"][ctx.choice(self.nm("bytes"), 2)]
        if tp is io.BytesIO:
            data = [b"", b"\x00\xffPNG data"][ctx.choice(self.nm("bio"), 2)]
            b = io.BytesIO(data)
            # the consumer may have read the stream before serialising
            b.seek([0, len(data), min(3, len(data))][ctx.choice(self.nm("bio_pos"), 3)])
            return b
        if tp is typing.Any:
            vals = ANY_VALUES if self.allow_markers else ANY_VALUES[:7]
            return vals[ctx.choice(self.nm("any"), len(vals))]
        if isinstance(tp, type):
            c = self.concrete_class(tp)
            if c is not None:
                if depth <= 0:
                    return self.instance(c, None, depth)
                nf = len(dataclasses.fields(c))
                return self.instance(c, ctx.choice(self.nm("focus"), nf) if nf else None, depth - 1)
        return None

    def nonempty(self, tp, depth):
        tp2, opt = _unwrap(tp)
        o = typing.get_origin(tp2)
        if o in (list, typing.List):
            (it,) = typing.get_args(tp2) or (typing.Any,)
            return [self.nonempty(it, depth - 1)]
        if tp2 is str:
            return "z"
        if tp2 is typing.Any:
            return 5
        return self.minimal(tp2)

    def instance(self, cls, focus, depth):
        hints = typing.get_type_hints(cls)
        kw = {}
        for i, f in enumerate(dataclasses.fields(cls)):
            tp = hints.get(f.name, typing.Any)
            if typing.get_origin(tp) is typing.ClassVar or not f.init:
                continue
            kw[f.name] = self.full(tp, depth) if i == focus else self.minimal(tp)
        return cls(**kw)


def _unwrap(tp):
    o = typing.get_origin(tp)
    import types
    if o is typing.Union or o is types.UnionType:
        args = [a for a in typing.get_args(tp) if a is not type(None)]
        if len(args) == 1:
            return args[0], True
    return tp, False


def _null_binary(j):
    """reference for include_binary=False: exactly the binary payload markers become null"""
    if isinstance(j, dict):
        if set(j) == {"_bytes"} or set(j) == {"_bytesio"}:
            return None
        return {k: _null_binary(v) for k, v in j.items()}
    if isinstance(j, list):
        return [_null_binary(v) for v in j]
    return j


def _class_names():
    reg = _registry()
    out = []
    for n in sorted(reg):
        c = reg[n]
        if getattr(c, "__abstractmethods__", None) or getattr(c, "_is_protocol", False):
            continue
        if not dataclasses.fields(c):
            continue
        out.append(n)
    return out


def k1_roundtrip(ctx):
    s = _ser()
    reg = _registry()
    cls = reg[ctx.params["cls"]]
    known = ctx.params.get("known_active", [])
    g = G(ctx, allow_markers="C05-marker-keys" not in known)
    nf = len(dataclasses.fields(cls))
    focus = ctx.choice("focus_field", nf)
    try:
        x = g.instance(cls, focus, 2)
    except Exception as e:
        ctx.assume(False)   # generator could not build this class (abstract / required args)
        return
    info = dict(cls=cls.__name__, field=dataclasses.fields(cls)[focus].name)
    try:
        j = x.to_json() if hasattr(x, "to_json") else s.serialize_extraction(x)
    except Exception as e:
        ctx.fail("to_json-raised", exc=type(e).__name__, **info)
        return
    try:
        wire = json.loads(_dumps(j))
    except Exception as e:
        ctx.fail("to_json-not-json-serialisable", exc=type(e).__name__, msg=str(e)[:60], **info)
        return
    try:
        from sharepoint2text.parsing.extractors.data_types import ExtractionInterface
        back = ExtractionInterface.from_json(wire)
    except Exception as e:
        ctx.fail("from_json-raised", exc=type(e).__name__, msg=str(e)[:60], **info)
        return
    ctx.require(type(back) is type(x), "from_json-wrong-type", got=type(back).__name__, **info)
    j2 = s.serialize_extraction(back)
    if ctx.perturb == "expect_field_dropped":
        j = dict(j)
        j.pop(info["field"], None)
    ctx.require(j2 == j, "roundtrip-to_json-differs", diff=_diff(j, j2), **info)
    # binary payloads are complete whatever the stream position was
    for got, exp in zip(_payloads(back), _payloads(x)):
        ctx.require(got == exp, "binary-payload-differs", **info)
    # without binary payloads: exactly the binary positions are null
    nb = s.serialize_extraction(x, include_binary=False)
    ctx.require(nb == _null_binary(j), "include_binary-false-changes-more-than-binary", diff=_diff(_null_binary(j), nb), **info)
    # observers of the round-tripped object agree
    if hasattr(x, "get_full_text"):
        try:
            a, b = x.get_full_text(), back.get_full_text()
        except Exception as e:
            return
        ctx.require(a == b, "roundtrip-full-text-differs", **info)


def _payloads(x):
    out = []
    if dataclasses.is_dataclass(x) and not isinstance(x, type):
        for f in dataclasses.fields(x):
            out += _payloads(getattr(x, f.name))
    elif isinstance(x, (list, tuple)):
        for v in x:
            out += _payloads(v)
    elif isinstance(x, dict):
        for v in x.values():
            out += _payloads(v)
    elif isinstance(x, io.BytesIO):
        out.append(x.getvalue())
    elif isinstance(x, (bytes, bytearray)):
        out.append(bytes(x))
    return out


def _diff(a, b, path=""):
    if type(a) is not type(b):
        return f"{path}: {type(a).__name__} vs {type(b).__name__}"
    if isinstance(a, dict):
        for k in sorted(set(a) | set(b)):
            if k not in a or k not in b:
                return f"{path}.{k}: missing on one side"
            d = _diff(a[k], b[k], f"{path}.{k}")
            if d:
                return d
        return None
    if isinstance(a, list):
        if len(a) != len(b):
            return f"{path}: len {len(a)} vs {len(b)}"
        for i, (x, y) in enumerate(zip(a, b)):
            d = _diff(x, y, f"{path}[{i}]")
            if d:
                return d
        return None
    return None if a == b else f"{path}: {a!r} vs {b!r}"[:120]


def _k1_parts(tier):
    return [{"cls": n} for n in _class_names()]


# ---------------------------------------------------------------------------------------
# K2: cell values delivered by the spreadsheet readers are JSON-able
# ---------------------------------------------------------------------------------------

def k2_cell_values(ctx):
    which = ctx.choice("reader", 3)
    if which == 0:
        from sharepoint2text.parsing.extractors.ms_modern import xlsx_extractor as m
        vals = [None, 3, 2.5, True, "s", datetime.datetime(2020, 1, 2, 3, 4, 5), datetime.date(2020, 1, 2),
                datetime.time(3, 4, 5), datetime.timedelta(hours=30, minutes=5), "#DIV/0!", float("inf")]
        v = vals[ctx.choice("value", len(vals))]
        out = m._get_cell_value(v)
        kind = type(v).__name__
    elif which == 1:
        from sharepoint2text.parsing.extractors.ms_legacy import xls_extractor as m
        import xlrd

        class Cell:
            def __init__(self, ctype, value):
                self.ctype, self.value = ctype, value

        class Book:
            datemode = 0
        cells = [Cell(xlrd.XL_CELL_EMPTY, ""), Cell(xlrd.XL_CELL_TEXT, "s"), Cell(xlrd.XL_CELL_NUMBER, 3.0),
                 Cell(xlrd.XL_CELL_NUMBER, 2.5), Cell(xlrd.XL_CELL_DATE, 43831.5), Cell(xlrd.XL_CELL_DATE, -1.0),
                 Cell(xlrd.XL_CELL_DATE, 0.25), Cell(xlrd.XL_CELL_BOOLEAN, 1), Cell(xlrd.XL_CELL_ERROR, 7),
                 Cell(xlrd.XL_CELL_BLANK, ""), Cell(xlrd.XL_CELL_NUMBER, float("inf"))]
        c = cells[ctx.choice("value", len(cells))]
        try:
            out = m._get_cell_values(c, Book())[0]
        except OverflowError:
            return      # contained by the extractor wrapper (C01), not a serialisation matter
        kind = f"ctype{c.ctype}"
    else:
        from sharepoint2text.parsing.extractors.open_office import ods_extractor as m
        from xml.etree import ElementTree as ET
        O = "urn:oasis:names:tc:opendocument:xmlns:office:1.0"
        T = "urn:oasis:names:tc:opendocument:xmlns:text:1.0"
        TB = "urn:oasis:names:tc:opendocument:xmlns:table:1.0"
        specs = [("float", "value", "3"), ("float", "value", "2.5"), ("float", "value", "abc"), ("currency", "value", "1e3"),
                 ("date", "date-value", "2020-01-02"), ("time", "time-value", "PT30H05M"), ("boolean", "boolean-value", "true"),
                 ("string", None, None), ("", None, None), ("percentage", "value", "nan")]
        vt, attr, val = specs[ctx.choice("value", len(specs))]
        cell = ET.Element(f"{{{TB}}}table-cell")
        if vt:
            cell.set(f"{{{O}}}value-type", vt)
        if attr:
            cell.set(f"{{{O}}}{attr}", val)
        p = ET.SubElement(cell, f"{{{T}}}p")
        p.text = "shown"
        try:
            out = m._extract_cell_value(cell)[0]
        except (OverflowError, ValueError):
            return
        kind = vt
    try:
        _dumps(out)
        ok = True
    except Exception:
        ok = False
    if ctx.perturb == "expect_not_serialisable":
        ok = not ok
    ctx.require(ok, "cell-value-not-json-serialisable", reader=which, kind=kind, value=repr(out)[:60])


# ---------------------------------------------------------------------------------------
# K3: CLI payload shape
# ---------------------------------------------------------------------------------------

def k3_cli_shape(ctx):
    from sharepoint2text import cli
    import base64
    from sharepoint2text.parsing.extractors.data_types import (PdfContent, PdfImage, PdfMetadata, PdfPage,
                                                                PlainTextContent, XlsxContent, XlsxSheet)
    s = _ser()
    n = 1 + ctx.choice("n_results", 3)
    binary = ctx.flag("binary")
    unit = ctx.flag("json_unit")
    results = []
    payloads = []
    for i in range(n):
        kind = ctx.choice(f"result{i}_kind", 3)
        if kind == 1:
            results.append(XlsxContent(sheets=[XlsxSheet(name=f"S{i}", data=[["a", 1]], text="a 1"),
                                               XlsxSheet(name="T", data=[], text="")]))
        elif kind == 2:
            # a result whose units carry a binary payload
            raw = b"\x89PNG\r\n\x1a\n payload %d " % i + bytes(range(40, 60))
            payloads.append(base64.b64encode(raw).decode())
            img = PdfImage(index=1, name="im", caption="", width=2, height=3, color_space="/DeviceRGB",
                           bits_per_component=8, filter="", data=raw, format="png", content_type="image/png",
                           unit_name=1)
            results.append(PdfContent(pages=[PdfPage(text=f"page {i}", images=[img], tables=[])],
                                      metadata=PdfMetadata(total_pages=1)))
        else:
            results.append(PlainTextContent(content=f"text {i}"))
    if unit:
        got = cli._serialize_unit_results(results, include_binary=binary)
        per = [[s.serialize_extraction(u, include_binary=binary) for u in r.iterate_units()] for r in results]
        exp = per[0] if n == 1 else per
    else:
        got = cli._serialize_results(results, include_binary=binary)
        per = [s.serialize_extraction(r, include_binary=binary) for r in results]
        exp = per[0] if n == 1 else per
    if ctx.perturb == "expect_always_array" and n == 1:
        exp = [exp]
    ctx.require(got == exp, "cli-json-payload-shape", n=n, unit=unit)
    ctx.require(isinstance(got, dict) == (n == 1 and not unit), "cli-object-vs-array", n=n, unit=unit)
    text = _dumps(got)
    # the CLI's own output step: what main() writes for --json / --json-unit is that JSON, also when the text holds
    # characters the stdout encoding cannot represent (the JSON text form is pure ASCII)
    if ctx.flag("through_main_with_ascii_stdout"):
        import sys
        import sharepoint2text
        if results and isinstance(results[0], PlainTextContent):
            results[0] = PlainTextContent(content="caf\u00e9 \u20ac \udc80")

        class AsciiOut(io.StringIO):
            encoding = "ascii"

            def write(self, t):
                t.encode("ascii")
                return io.StringIO.write(self, t)

        class FakePath:
            def __init__(self, p_):
                self.p = str(p_)

            def exists(self):
                return True

            def stat(self):
                class St:
                    st_size = 10
                return St()

            def __str__(self):
                return self.p

            def __fspath__(self):
                return self.p
        out, err = AsciiOut(), io.StringIO()
        argv = ["some/file.txt", "--json-unit" if unit else "--json"] + (["--binary"] if binary else [])
        with ctx.stub(sharepoint2text, read_file=lambda path, **k: iter(results)), ctx.stub(cli, Path=FakePath), \
                ctx.stub(sys, stdout=out, stderr=err):
            try:
                rc = cli.main(argv)
            except SystemExit as e:
                rc = e.code
            except Exception as e:
                rc = ("raised", type(e).__name__)
        if unit:
            per2 = [[s.serialize_extraction(u, include_binary=binary) for u in r.iterate_units()] for r in results]
        else:
            per2 = [s.serialize_extraction(r, include_binary=binary) for r in results]
        exp2 = per2[0] if n == 1 else per2
        try:
            printed = json.loads(out.getvalue())
        except Exception:
            printed = None
        ctx.require(rc in (0, None) and printed == exp2, "cli-output-is-not-the-json-of-the-results", rc=repr(rc),
                    n=n, unit=unit, stderr=err.getvalue()[:100])
    # binary payloads are in the output exactly when asked for (independent of serialize_extraction's own flag)
    if isinstance(text, str):
        for b64 in payloads:
            ctx.require((b64 in text) == bool(binary), "cli-binary-payload-presence", n=n, unit=unit, binary=binary)


def _targets():
    s = _ser()
    return [s._serialize_for_json, s.serialize_extraction, s._deserialize_value, s._deserialize_dataclass,
            s.deserialize_extraction, s._bytesio_to_base64, s._bytes_to_base64]


KERNELS = [
    Kernel("K0", "plain user dictionaries survive the decoder: symbolic keys, the decoder's own marker tests split them",
           k0_marker_keys, targets=_targets, parts=lambda tier: [{"shape": i} for i in range(len(SHAPES))],
           perturb=[("expect_changed", {"shape": 0})],
           symbolic=["every character of each dictionary key (lengths 1,4,5,6,8); hashing forks over the serialisation "
                     "module's own string constants (_type, _bytes, _bytesio, ...) and 'any other key'"],
           choices=["number of keys 1..2", "value kind", "container shape of the untyped field"]),
    Kernel("K1", "type-directed round trip of every registered dataclass (one focus field at full range, others minimal)",
           k1_roundtrip, targets=_targets, parts=_k1_parts, strength="structure",
           perturb=[("expect_field_dropped", {"cls": "DocxRun"})],
           choices=["focus field", "list lengths 0..2", "Optional present/absent", "Any value kind", "dict key from the "
                    "marker vocabulary", "bytes / BytesIO content and stream position", "nested focus field"],
           assumptions=["instances are built from the live type hints of the live registry (a new class joins automatically)"],
           outside=["simultaneous variation of several fields of one object (one focus field per object level)"],
           timeout={"quick": 280, "thorough": 1500}),
    Kernel("K2", "cell values handed over by the xlsx/xls/ods cell readers are JSON-serialisable", k2_cell_values,
           targets=lambda: [__import__("sharepoint2text.parsing.extractors.ms_modern.xlsx_extractor", fromlist=["x"])._get_cell_value,
                            __import__("sharepoint2text.parsing.extractors.ms_legacy.xls_extractor", fromlist=["x"])._get_cell_values,
                            __import__("sharepoint2text.parsing.extractors.open_office.ods_extractor", fromlist=["x"])._extract_cell_value],
           strength="structure", perturb=["expect_not_serialisable"],
           choices=["reader", "value kind the reading library can deliver (None,int,float,bool,str,datetime,date,time,timedelta,error,inf)"]),
    Kernel("K3", "CLI --json/--json-unit payload: object for one result, array for several, same JSON as serialize_extraction",
           k3_cli_shape, targets=lambda: [__import__("sharepoint2text.cli", fromlist=["x"])._serialize_results,
                                          __import__("sharepoint2text.cli", fromlist=["x"])._serialize_unit_results],
           strength="structure", core=False, perturb=["expect_always_array"],
           choices=["1..3 results", "result kind (plain text, sheets, pages with an image payload)", "--binary", "--json-unit"]),
]

META = {
    "level_text": "The real decoder is run on plain user dictionaries whose keys are symbolic strings (the decoder's own marker "
                  "tests, reached through dict hashing over the module's constants, split the key space); every dataclass of "
                  "the live registry is built from its type hints over a bounded choice space and pushed through the real "
                  "to_json -> JSON text -> from_json, with equality of JSON, payload bytes, binary-free form and full text "
                  "checked on every path.",
    "level_note": "K0 has symbolic data reaching repository branches; K1-K3 are structure exploration over the type-directed "
                  "generator. Trusted: json (pure-python encoder used), base64. Outside: results of real extractors on real files.",
    "technique": "symbolic dictionary keys through the real decoder (symrun CharStr + hash-universe forks) and bounded "
                 "type-directed exploration of the round trip for every registered dataclass",
}
