"""C02 - main-text fidelity: nothing lost, duplicated, merged or leaked.

Every kernel builds a bounded ABSTRACT DOCUMENT (structure chosen by solver-enumerated
choices, some element names / counts symbolic) simultaneously as
  (a) the data structure the repository walker consumes (real xml.etree Elements, parser
      callback sequences, RTF text, fake workbook objects ...) and
  (b) a REFERENCE STREAM written from the property text and the file-format specs:
      tokens (class body / excluded / free) in reading order with the boundaries
      (paragraph, cell, tab, line break) between them.
The real walker runs on (a); the oracle `_judge` compares its output with (b):
  body token exactly once - tokens in source order - tokens separated by a boundary are
  separated by whitespace - excluded tokens absent - nothing but tokens, whitespace and
  documented decoration in the output.
Symbolic element names (CharStr) flow into the walkers' own ``==`` / ``in`` / ``endswith``
tests, symbolic counts (text:c, repeat attributes) into their arithmetic; the reference
classifies the same names from spec tables in the harness.  In concrete replay the
document is serialised and additionally pushed through the public read_* entry points.
"""
import io
import zipfile
from xml.etree import ElementTree as ET

from vf.core import Kernel
from vf import symrun as S

# =======================================================================================
# reference stream + oracle (shared by all kernels)
# =======================================================================================

LABELS = ("body-text-lost", "body-text-duplicated", "body-text-reordered", "boundary-merged",
          "excluded-text-leaks", "space-count-wrong", "foreign-text-in-output")


class Ref:
    """reference stream of an abstract document.  items:
       ("tok", text, cls, feats)   cls in body | excl | free
       ("sep", feats)              paragraph / cell / tab / line-break boundary
       ("exact", string, feats)    the two neighbouring tokens are separated by exactly this"""

    def __init__(self):
        self.items = []
        self.n = 0
        self.stack = []
        self.desc = []          # human-readable structure (for counterexample info)

    def push(self, f):
        self.stack.append(f)

    def pop(self):
        self.stack.pop()

    def feats(self, extra=()):
        return tuple(self.stack) + tuple(extra)

    def tok(self, cls="body", shape=0, extra=()):
        self.n += 1
        lead = {"body": "Q", "excl": "X", "free": "F"}[cls]
        s = "%s%02dk" % (lead, self.n)
        if shape == 1:
            s = "%s%02dk j%02d%s" % (lead, self.n, self.n, lead)      # token with an inner space
        self.items.append(("tok", s, cls, self.feats(extra)))
        return s

    def sep(self, *extra):
        self.items.append(("sep", self.feats(extra)))

    def exact(self, s, *extra):
        self.items.append(("exact", s, self.feats(extra)))

    def tokens(self, cls=None):
        return [it for it in self.items if it[0] == "tok" and (cls is None or it[2] == cls)]


def _known_entries(ctx):
    ids = ctx.params.get("known_active") or []
    if not ids:
        return []
    try:
        from vf.core import load_known
        return [e for e in load_known("C02") if e.get("id") in ids]
    except Exception:
        return []


def _is_known(ctx, kid, label, info, entries):
    from vf.core import _matches
    params = {a: b for a, b in ctx.params.items() if a != "known_active"}
    cex = {"label": label, "inputs": {}, "info": info, "params": params}
    return any(_matches(e, kid, cex) for e in entries)


def _judge(ctx, kid, ref, channels, deco_strings=(), deco_chars="", info=None, only_token=None):
    """channels: [(name, str)] - the observed text(s).  Collect every failure, report one
    that is not a recorded known finding first (so a known defect cannot mask another)."""
    info = dict(info or {})
    fails = []

    def fail(label, feats, **kw):
        d = dict(info)
        d.update(kw)
        d["feats"] = sorted(set(feats))
        fails.append((label, d))

    texts = [t for _, t in channels]
    where = {}
    for it in ref.tokens():
        _, s, cls, feats = it
        n = sum(t.count(s) for t in texts)
        if only_token is not None and s != only_token:
            if cls == "body" and n == 1:
                pass
            else:
                continue
        if cls == "body":
            if n == 0:
                fail("body-text-lost", feats, token=s)
            elif n > 1:
                fail("body-text-duplicated", feats, token=s, count=n)
            else:
                for ci, t in enumerate(texts):
                    p = t.find(s)
                    if p >= 0:
                        where[s] = (ci, p)
        elif cls == "excl":
            if n > 0:
                fail("excluded-text-leaks", feats, token=s, count=n)
    if only_token is None:
        # order and separation, per channel, between consecutive located body tokens
        for ci in range(len(texts)):
            prev = None
            between = []
            for it in ref.items:
                if it[0] != "tok":
                    if prev is not None:
                        between.append(it)
                    continue
                _, s, cls, feats = it
                if cls != "body" or s not in where or where[s][0] != ci:
                    if cls == "body" and s in where:
                        pass
                    # an intervening token of another class/channel voids "exact" demands
                    if prev is not None and cls in ("body", "free", "excl"):
                        between.append(("other",))
                    continue
                if prev is not None:
                    ps, pfe = prev
                    a, b = where[ps][1], where[s][1]
                    if b < a:
                        fail("body-text-reordered", set(pfe) | set(feats), token=s, before=ps)
                    else:
                        gap = texts[ci][a + len(ps):b]
                        seps = [x for x in between if x[0] == "sep"]
                        if seps and not any(ch.isspace() for ch in gap):
                            sf = set()
                            for x in seps:
                                sf |= set(x[1])
                            fail("boundary-merged", sf, left=ps, right=s, gap=gap)
                        ex = [x for x in between if x[0] == "exact"]
                        if ex and len(between) == len(ex):
                            want = "".join(x[1] for x in ex)
                            if gap != want:
                                fail("space-count-wrong", set(ex[0][2]), left=ps, right=s, gap=gap, want=want)
                prev = (s, feats)
                between = []
        # residual: nothing but tokens, whitespace, documented decoration
        for ci, t in enumerate(texts):
            r = t
            for it in sorted(ref.tokens(), key=lambda x: -len(x[1])):
                r = r.replace(it[1], "")
            for d in deco_strings:
                if d:
                    r = r.replace(d, "")
            r = "".join(ch for ch in r if not ch.isspace() and ch not in deco_chars)
            if r:
                fail("foreign-text-in-output", ref.feats(("residual",)), residual=r[:40], channel=channels[ci][0])
    ctx.require(True, "reached")
    if not fails:
        return
    entries = _known_entries(ctx)
    if entries:
        fresh = [f for f in fails if not _is_known(ctx, kid, f[0], f[1], entries)]
        if fresh:
            fails = fresh
    label, d = fails[0]
    ctx.fail(label, **d)


def _classify(loc, table):
    """spec class of a (possibly symbolic) local name: compares against the spec names of the
    same length (each comparison is a solver-decided fork in symbolic runs)"""
    for name, cls in table.items():
        if len(name) == len(loc) and (loc == name):
            return cls, name
    return "other", None


def _sym_local(ctx, name, lengths, lo=65, hi=122):
    n = lengths[ctx.choice(name + "_len", len(lengths))]
    return ctx.fresh_chars(name, n, lo, hi)


def _tag(ctx, ns, loc):
    """'{ns}local' with a possibly symbolic local part"""
    if isinstance(loc, str):
        return ns + loc
    return S.CharStr(ns) + loc


def _xml(elem):
    """serialise a tree whose tags are concrete (replay)"""
    return ET.tostring(elem, encoding="unicode")


def _show(elem, depth=0):
    """compact structure rendering that tolerates symbolic tags"""
    t = str(elem.tag)
    t = t.rsplit("}", 1)[-1] if "}" in t else t
    kids = "".join(_show(c, depth + 1) for c in elem) if depth < 12 else "..."
    tx = (elem.text or "")
    tl = (elem.tail or "")
    return "<%s>%s%s</>%s" % (t, tx, kids, tl)


# =======================================================================================
# K1  DOCX body walk
# =======================================================================================

W = "{http://schemas.openxmlformats.org/wordprocessingml/2006/main}"
MC = "{http://schemas.openxmlformats.org/markup-compatibility/2006}"
WP = "{http://schemas.openxmlformats.org/drawingml/2006/wordprocessingDrawing}"
A = "{http://schemas.openxmlformats.org/drawingml/2006/main}"
WPS = "{http://schemas.microsoft.com/office/word/2010/wordprocessingShape}"
V = "{urn:schemas-microsoft-com:vml}"

# ECMA-376 part 1, 17.3.3 run content: what a child of w:r contributes to the visible text
RUN_CHILD_SPEC = {
    "t": "text", "tab": "sep", "br": "sep", "cr": "sep", "ptab": "sep",
    "delText": "deleted", "instrText": "code", "delInstrText": "code",
    "sym": "glyph", "noBreakHyphen": "glyph", "softHyphen": "glyph", "rPr": "props",
}


def _docx():
    import sharepoint2text.parsing.extractors.ms_modern.docx_extractor as d
    return d


class DocxGen:
    def __init__(self, ctx):
        self.ctx = ctx
        self.ref = Ref()
        self.k = 0

    def nm(self, s):
        self.k += 1
        return "%s%d" % (s, self.k)

    # ---- leaves ---------------------------------------------------------------------
    def run(self, parent, text, rpr=True):
        r = ET.SubElement(parent, W + "r")
        if rpr:
            ET.SubElement(ET.SubElement(r, W + "rPr"), W + "b")
        t = ET.SubElement(r, W + "t")
        t.text = text
        return r

    def plain_par(self, parent, extra=()):
        ref = self.ref
        ref.sep("para")
        p = ET.SubElement(parent, W + "p")
        ET.SubElement(p, W + "pPr")
        self.run(p, ref.tok("body", extra=extra))
        ref.sep("para")
        return p

    def txbx_content(self, parent, cls, n_par, feat):
        ref = self.ref
        tc = ET.SubElement(parent, W + "txbxContent")
        ref.push(feat)
        for _ in range(n_par):
            ref.sep("para", "textbox-para")
            p = ET.SubElement(tc, W + "p")
            self.run(p, ref.tok(cls), rpr=False)
            ref.sep("para", "textbox-para")
        ref.pop()

    def textbox_ac(self, run, n_par):
        """w:r/mc:AlternateContent{Choice: DrawingML text box, Fallback: VML rendition}"""
        ac = ET.SubElement(run, MC + "AlternateContent")
        ch = ET.SubElement(ac, MC + "Choice")
        ch.set("Requires", "wps")
        node = ch
        for tag in (W + "drawing", WP + "anchor", A + "graphic", A + "graphicData", WPS + "wsp", WPS + "txbx"):
            node = ET.SubElement(node, tag)
        self.txbx_content(node, "body", n_par, "textbox")
        fb = ET.SubElement(ac, MC + "Fallback")
        node = fb
        for tag in (W + "pict", V + "shape", V + "textbox"):
            node = ET.SubElement(node, tag)
        self.txbx_content(node, "excl", n_par, "ac-fallback")

    # ---- inline items of the focus paragraph ----------------------------------------
    INLINE = ["run", "run-tab", "run-br", "run-cr", "run-sym", "hyperlink", "ins", "del", "sdt", "fldSimple",
              "smartTag", "textbox", "vml-textbox", "blank", "empty", "spaced", "field", "para-ac"]

    def inline(self, p, kind):
        ctx, ref = self.ctx, self.ref
        if kind == "run":
            self.run(p, ref.tok())
        elif kind in ("run-tab", "run-br", "run-cr"):
            r = ET.SubElement(p, W + "r")
            ET.SubElement(r, W + "t").text = ref.tok()
            ET.SubElement(r, W + kind[4:])
            ref.sep(kind)
            ET.SubElement(r, W + "t").text = ref.tok()
        elif kind == "run-sym":
            lens = ctx.params.get("sym_lens", (1, 2, 3, 7))
            loc = _sym_local(ctx, self.nm("runchild"), lens)
            cls, name = _classify(loc, RUN_CHILD_SPEC)
            r = ET.SubElement(p, W + "r")
            ET.SubElement(r, W + "t").text = ref.tok()
            x = ET.SubElement(r, _tag(ctx, W, loc))
            if cls == "text":
                x.text = ref.tok()
            elif cls == "sep":
                ref.sep("run-" + name)
            elif cls in ("deleted", "code"):
                x.text = ref.tok("excl", extra=("run-" + name,))
            elif cls == "other":
                x.text = ref.tok("free")
            ET.SubElement(r, W + "t").text = ref.tok()
            ref.desc.append("run child w:%s (%s)" % (str(loc), cls))
        elif kind in ("hyperlink", "ins", "fldSimple", "smartTag"):
            ref.push(kind)
            self.run(ET.SubElement(p, W + kind), ref.tok())
            ref.pop()
        elif kind == "del":
            d = ET.SubElement(p, W + "del")
            r = ET.SubElement(d, W + "r")
            ET.SubElement(r, W + "delText").text = ref.tok("excl", extra=("del",))
        elif kind == "sdt":
            sdt = ET.SubElement(p, W + "sdt")
            ET.SubElement(sdt, W + "sdtPr")
            ref.push("inline-sdt")
            self.run(ET.SubElement(sdt, W + "sdtContent"), ref.tok())
            ref.pop()
        elif kind == "textbox":
            r = ET.SubElement(p, W + "r")
            self.textbox_ac(r, 1 + ctx.choice(self.nm("txbx_pars"), 2))
        elif kind == "vml-textbox":
            r = ET.SubElement(p, W + "r")
            node = r
            for tag in (W + "pict", V + "shape", V + "textbox"):
                node = ET.SubElement(node, tag)
            self.txbx_content(node, "body", 1, "vml-textbox")
        elif kind == "blank":
            self.run(p, " ")
        elif kind == "empty":
            self.run(p, None if ctx.flag(self.nm("none")) else "")
        elif kind == "spaced":
            self.run(p, ref.tok(shape=1))
        elif kind == "field":
            # complex field: begin, code, separate, result, end
            for part in ("begin", "code", "separate", "result", "end"):
                r = ET.SubElement(p, W + "r")
                if part == "code":
                    ET.SubElement(r, W + "instrText").text = ref.tok("excl", extra=("field-code",))
                elif part == "result":
                    ET.SubElement(r, W + "t").text = ref.tok(extra=("field-result",))
                else:
                    ET.SubElement(r, W + "fldChar").set(W + "fldCharType", part)
        elif kind == "para-ac":
            ac = ET.SubElement(p, MC + "AlternateContent")
            ref.push("para-ac")
            self.run(ET.SubElement(ac, MC + "Choice"), ref.tok())
            fb = ET.SubElement(ac, MC + "Fallback")
            r = ET.SubElement(fb, W + "r")
            ET.SubElement(r, W + "t").text = ref.tok("excl", extra=("ac-fallback",))
            ref.pop()

    def focus_par(self, parent):
        ctx, ref = self.ctx, self.ref
        ref.sep("para")
        p = ET.SubElement(parent, W + "p")
        kinds = ctx.params.get("inline_kinds") or self.INLINE
        m = ctx.params.get("M", 2)
        n = ctx.choice("n_inline", m + 1)
        for i in range(n):
            self.inline(p, kinds[ctx.choice(self.nm("inline"), len(kinds))])
        ref.sep("para")
        return p

    # ---- blocks ---------------------------------------------------------------------
    def table(self, parent, rows, cols, first_cell, depth=0, row_sdt=False):
        ctx, ref = self.ctx, self.ref
        ref.sep("table")
        tbl = ET.SubElement(parent, W + "tbl")
        ET.SubElement(tbl, W + "tblPr")
        ref.push("table" if depth == 0 else "nested-table")
        for ri in range(rows):
            holder = tbl
            if row_sdt and ri == 0:
                sdt = ET.SubElement(tbl, W + "sdt")
                holder = ET.SubElement(sdt, W + "sdtContent")
            tr = ET.SubElement(holder, W + "tr")
            for ci in range(cols):
                ref.sep("cell")
                tc = ET.SubElement(tr, W + "tc")
                ET.SubElement(tc, W + "tcPr")
                if ri == 0 and ci == 0:
                    first_cell(tc)
                else:
                    self.plain_par(tc)
                ref.sep("cell")
        ref.pop()
        ref.sep("table")
        return tbl

    CELL_VARIANTS = ["p", "p-p", "p-nested", "nested-p", "sdt-p", "p-textbox", "focus"]

    def cell_content(self, variant):
        def fill(tc):
            ref = self.ref
            if variant == "p":
                self.plain_par(tc)
            elif variant == "p-p":
                self.plain_par(tc)
                self.plain_par(tc)
            elif variant == "p-nested":
                self.plain_par(tc)
                self.table(tc, 1, 1 + self.ctx.choice(self.nm("nested_cols"), 2), lambda c: self.plain_par(c), depth=1)
                ET.SubElement(tc, W + "p")      # a cell must end with a paragraph
            elif variant == "nested-p":
                self.table(tc, 1, 1, lambda c: self.plain_par(c), depth=1)
                self.plain_par(tc)
            elif variant == "sdt-p":
                sdt = ET.SubElement(tc, W + "sdt")
                ref.push("cell-sdt")
                self.plain_par(ET.SubElement(sdt, W + "sdtContent"))
                ref.pop()
            elif variant == "p-textbox":
                ref.sep("para")
                p = ET.SubElement(tc, W + "p")
                self.run(p, ref.tok())
                ref.push("textbox-in-cell")
                self.textbox_ac(ET.SubElement(p, W + "r"), 1)
                ref.pop()
                ref.sep("para")
            elif variant == "focus":
                self.focus_par(tc)
        return fill

    BLOCKS = ["p", "table", "sdt-p", "sdt-table", "customXml-p"]

    def block(self, body, kind):
        ctx, ref = self.ctx, self.ref
        if kind == "p":
            self.plain_par(body)
        elif kind == "table":
            rows = 1 + ctx.choice(self.nm("rows"), 2)
            cols = 1 + ctx.choice(self.nm("cols"), 2)
            variants = ctx.params.get("cell_variants") or self.CELL_VARIANTS[:6]
            v = variants[ctx.choice(self.nm("cell"), len(variants))]
            row_sdt = ctx.flag(self.nm("row_sdt")) if ctx.params.get("row_sdt", True) else False
            self.table(body, rows, cols, self.cell_content(v), row_sdt=row_sdt)
        elif kind in ("sdt-p", "sdt-table"):
            sdt = ET.SubElement(body, W + "sdt")
            ET.SubElement(sdt, W + "sdtPr")
            c = ET.SubElement(sdt, W + "sdtContent")
            ref.push("block-sdt")
            if kind == "sdt-p":
                self.plain_par(c)
            else:
                self.table(c, 1, 1, self.cell_content("p"))
            ref.pop()
        elif kind == "customXml-p":
            cx = ET.SubElement(body, W + "customXml")
            cx.set(W + "element", "x")
            ref.push("block-customXml")
            self.plain_par(cx)
            ref.pop()
        elif kind == "focus":
            self.focus_par(body)
        elif kind == "focus-in-cell":
            self.table(body, 1, 2, self.cell_content("focus"))
        elif kind == "focus-in-sdt":
            sdt = ET.SubElement(body, W + "sdt")
            ref.push("block-sdt")
            self.focus_par(ET.SubElement(sdt, W + "sdtContent"))
            ref.pop()


def _docx_file(body_xml):
    doc = ('<?xml version="1.0" encoding="UTF-8" standalone="yes"?>'
           '<w:document xmlns:w="%s">%s</w:document>' % (W[1:-1], body_xml))
    ct = ('<?xml version="1.0" encoding="UTF-8"?><Types xmlns="http://schemas.openxmlformats.org/package/2006/'
          'content-types"><Default Extension="xml" ContentType="application/xml"/><Default Extension="rels" '
          'ContentType="application/vnd.openxmlformats-package.relationships+xml"/><Override PartName="/word/'
          'document.xml" ContentType="application/vnd.openxmlformats-officedocument.wordprocessingml.document.'
          'main+xml"/></Types>')
    rels = ('<?xml version="1.0" encoding="UTF-8"?><Relationships xmlns="http://schemas.openxmlformats.org/package/'
            '2006/relationships"><Relationship Id="rId1" Type="http://schemas.openxmlformats.org/officeDocument/2006/'
            'relationships/officeDocument" Target="word/document.xml"/></Relationships>')
    bio = io.BytesIO()
    with zipfile.ZipFile(bio, "w", zipfile.ZIP_DEFLATED) as z:
        z.writestr("[Content_Types].xml", ct)
        z.writestr("_rels/.rels", rels)
        z.writestr("word/document.xml", doc)
    bio.seek(0)
    return bio


def k1_docx(ctx):
    d = _docx()
    g = DocxGen(ctx)
    ref = g.ref
    body = ET.Element(W + "body")
    space = ctx.params["space"]
    if space == "inline":
        g.plain_par(body)
        holder = ("focus", "focus-in-cell", "focus-in-sdt")[ctx.choice("container", 3)]
        g.block(body, holder)
        g.plain_par(body)
    else:
        n = 1 + ctx.choice("n_blocks", ctx.params.get("N", 2))
        first = ctx.params.get("first")
        for i in range(n):
            kinds = [first] if (first and i == 0) else g.BLOCKS
            g.block(body, kinds[ctx.choice(g.nm("block"), len(kinds))])
    ET.SubElement(body, W + "sectPr")
    info = {"doc": _show(body)[:600]}
    try:
        out = d._extract_full_text_from_body(body, include_formulas=True)
    except Exception as e:
        ctx.fail("extractor-raised", exc=type(e).__name__, msg=str(e)[:100], **info)
        return
    info["out"] = out[:300]
    if ctx.concrete:
        # the same document through the public entry point
        import sharepoint2text
        res = list(sharepoint2text.read_docx(_docx_file(_xml(body)), "x.docx"))
        pub = res[0].get_full_text()
        ctx.require(pub == out, "public-api-differs-from-kernel", public=pub[:200], **info)
    only = None
    if ctx.perturb == "fallback_is_body":
        ex = ref.tokens("excl")
        ctx.assume(len(ex) > 0)
        i = ref.items.index(ex[0])
        ref.items[i] = ("tok", ex[0][1], "body", ex[0][3])
        only = ex[0][1]
    elif ctx.perturb == "expect_merged_paragraphs":
        # twin: claim that no whitespace separates the first two paragraphs
        toks = ref.tokens("body")
        ctx.assume(len(toks) >= 2)
        a, b = toks[0][1], toks[1][1]
        ctx.require(not (a in out and b in out and out.find(a) < out.find(b) and
                         any(ch.isspace() for ch in out[out.find(a) + len(a):out.find(b)])), "twin")
        return
    _judge(ctx, "K1", ref, [("text", out)], info=info, only_token=only)


def _k1_parts(tier):
    m = 2 if tier == "quick" else 3
    lens = (1, 2, 3, 7) if tier == "quick" else (1, 2, 3, 4, 7, 9, 12, 13)
    parts = [{"space": "inline", "M": m, "sym_lens": lens}]
    n = 2 if tier == "quick" else 3
    for first in DocxGen.BLOCKS:
        parts.append({"space": "blocks", "N": n, "first": first})
    return parts


def _k1_targets():
    d = _docx()
    return [d._extract_full_text_from_body, d._extract_table_text, d._extract_paragraph_content,
            d._process_text_element]



# =======================================================================================
# K2  ODF text (shared element_text walker, ODT body walk, ODG/ODP page walk)
# =======================================================================================

TEXT = "{urn:oasis:names:tc:opendocument:xmlns:text:1.0}"
OFFICE = "{urn:oasis:names:tc:opendocument:xmlns:office:1.0}"
TABLE = "{urn:oasis:names:tc:opendocument:xmlns:table:1.0}"
DRAW = "{urn:oasis:names:tc:opendocument:xmlns:drawing:1.0}"
DC = "{http://purl.org/dc/elements/1.1/}"
PRES = "{urn:oasis:names:tc:opendocument:xmlns:presentation:1.0}"
SVG = "{urn:oasis:names:tc:opendocument:xmlns:svg-compatible:1.0}"

# OpenDocument 1.2 part 1, 6.1 / 5.x: what a child of text:p contributes to the paragraph text
ODF_INLINE_SPEC = {
    "s": "space", "tab": "sep", "line-break": "sep", "span": "inline", "a": "inline",
    "note": "excluded", "p": "invalid", "h": "invalid", "meta": "inline", "ruby": "other",
}
# children of office:text / text:section / table cells
ODF_BLOCK_SPEC = {"p": "par", "h": "par", "list": "list", "section": "section"}


def _odf_mods():
    import sharepoint2text.parsing.extractors.open_office._shared as sh
    import sharepoint2text.parsing.extractors.open_office.odt_extractor as odt
    import sharepoint2text.parsing.extractors.open_office.odg_extractor as odg
    import sharepoint2text.parsing.extractors.open_office.odp_extractor as odp
    return sh, odt, odg, odp


class OdfGen:
    def __init__(self, ctx, fmt):
        self.ctx = ctx
        self.fmt = fmt
        self.ref = Ref()
        self.k = 0
        self.patch = []        # (index into ref.items, symbolic count, lo, hi, feats)

    def nm(self, s):
        self.k += 1
        return "%s%d" % (s, self.k)

    def par(self, parent, tag="p", extra=(), cls="body"):
        ref = self.ref
        ref.sep("para")
        p = ET.SubElement(parent, TEXT + tag)
        p.text = ref.tok(cls, extra=extra)
        ref.sep("para")
        return p

    def annotation(self, parent, feat="annotation"):
        ref = self.ref
        an = ET.SubElement(parent, OFFICE + "annotation")
        ET.SubElement(an, DC + "creator").text = ref.tok("excl", extra=(feat, "creator"))
        ET.SubElement(an, DC + "date").text = "2024-01-01T00:00:00"
        ET.SubElement(an, TEXT + "p").text = ref.tok("excl", extra=(feat,))
        return an

    def textbox(self, parent, n_par=1, feat="textbox"):
        ref = self.ref
        fr = ET.SubElement(parent, DRAW + "frame")
        tb = ET.SubElement(fr, DRAW + "text-box")
        ref.push(feat)
        for _ in range(n_par):
            ref.sep("para", "textbox-para")
            ET.SubElement(tb, TEXT + "p").text = ref.tok()
            ref.sep("para", "textbox-para")
        ref.pop()
        return fr

    INLINE = ["span", "a", "s-default", "s-count", "s-bad", "tab", "line-break", "note", "annotation", "textbox",
              "sym", "span-s", "bookmark", "change-marks", "blank-span"]

    def inline(self, p, kind):
        """append one child to the mixed content of p; returns the child (tail set by caller)"""
        ctx, ref = self.ctx, self.ref
        if kind in ("span", "a"):
            ref.push(kind)
            c = ET.SubElement(p, TEXT + kind)
            c.text = ref.tok()
            ref.pop()
        elif kind == "blank-span":
            c = ET.SubElement(p, TEXT + "span")
            c.text = " "
        elif kind == "s-default":
            c = ET.SubElement(p, TEXT + "s")
            ref.exact(" ", "text-s")
        elif kind == "s-count":
            lo, hi = ctx.params.get("c_range", (-1, 3))
            cnt = ctx.fresh_int(self.nm("text_c"), lo, hi)
            c = ET.SubElement(p, TEXT + "s")
            c.set(TEXT + "c", str(cnt) if ctx.concrete else cnt)
            ref.items.append(("void",))
            self.patch.append((len(ref.items) - 1, cnt, lo, hi, ref.feats(("text-s",))))
        elif kind == "s-bad":
            c = ET.SubElement(p, TEXT + "s")
            c.set(TEXT + "c", ("x", "", "1.5")[ctx.choice(self.nm("bad_c"), 3)])
            ref.items.append(("void",))
        elif kind in ("tab", "line-break"):
            c = ET.SubElement(p, TEXT + kind)
            ref.sep("inline-" + kind)
        elif kind == "note":
            c = ET.SubElement(p, TEXT + "note")
            c.set(TEXT + "note-class", "footnote")
            ET.SubElement(c, TEXT + "note-citation").text = ref.tok("excl", extra=("note", "citation"))
            nb = ET.SubElement(c, TEXT + "note-body")
            ET.SubElement(nb, TEXT + "p").text = ref.tok("excl", extra=("note",))
        elif kind == "annotation":
            c = self.annotation(p)
        elif kind == "textbox":
            ref.sep("para", "textbox-start")
            c = self.textbox(p, 1 + ctx.choice(self.nm("tb_pars"), 2))
            ref.sep("para", "textbox-end")
        elif kind == "span-s":
            c = ET.SubElement(p, TEXT + "span")
            c.text = ref.tok()
            ET.SubElement(c, TEXT + "s")
            ref.exact(" ", "text-s")
        elif kind == "bookmark":
            c = ET.SubElement(p, TEXT + "bookmark")
            c.set(TEXT + "name", "bm")
        elif kind == "change-marks":
            c = ET.SubElement(p, TEXT + "change-start")
            c.set(TEXT + "change-id", "ct1")
        elif kind == "sym":
            lens = ctx.params.get("sym_lens", (1, 3, 4, 10))
            loc = _sym_local(ctx, self.nm("inline_name"), lens, 45, 122)
            cls, name = _classify(loc, ODF_INLINE_SPEC)
            c = ET.SubElement(p, _tag(ctx, TEXT, loc))
            if cls == "space":
                ref.exact(" ", "text-s")
            elif cls == "sep":
                ref.sep("inline-" + name)
            elif cls == "inline":
                c.text = ref.tok(extra=(name,))
            elif cls == "excluded":
                c.text = ref.tok("excl", extra=(name,))
            else:
                c.text = ref.tok("free")
            ref.desc.append("text:%s (%s)" % (str(loc), cls))
        return c

    def focus_par(self, parent, tag="p"):
        ctx, ref = self.ctx, self.ref
        ref.sep("para")
        p = ET.SubElement(parent, TEXT + tag)
        p.text = ref.tok()
        kinds = ctx.params.get("inline_kinds") or self.INLINE
        n = ctx.choice("n_inline", ctx.params.get("M", 2) + 1)
        for i in range(n):
            c = self.inline(p, kinds[ctx.choice(self.nm("inline"), len(kinds))])
            c.tail = ref.tok()
        ref.sep("para")
        return p

    # ---- ODT blocks -----------------------------------------------------------------
    def odt_list(self, parent, variant, depth=0):
        ref = self.ref
        ref.sep("list")
        lst = ET.SubElement(parent, TEXT + "list")
        ref.push("list" if depth == 0 else "nested-list")
        if variant == "item-p":
            self.par(ET.SubElement(lst, TEXT + "list-item"))
        elif variant == "two-items":
            self.par(ET.SubElement(lst, TEXT + "list-item"))
            self.par(ET.SubElement(lst, TEXT + "list-item"))
        elif variant == "item-p-p":
            it = ET.SubElement(lst, TEXT + "list-item")
            self.par(it)
            self.par(it)
        elif variant == "nested":
            it = ET.SubElement(lst, TEXT + "list-item")
            self.par(it)
            self.odt_list(it, "item-p", depth + 1)
            self.par(ET.SubElement(lst, TEXT + "list-item"))
        elif variant == "item-h":
            it = ET.SubElement(lst, TEXT + "list-item")
            self.par(it, "h", extra=("heading-in-list",))
        elif variant == "header-p":
            self.par(ET.SubElement(lst, TEXT + "list-header"), extra=("list-header",))
            self.par(ET.SubElement(lst, TEXT + "list-item"))
        elif variant == "item-focus":
            self.focus_par(ET.SubElement(lst, TEXT + "list-item"))
        ref.pop()
        ref.sep("list")

    LIST_VARIANTS = ["item-p", "two-items", "item-p-p", "nested", "item-h", "header-p"]

    def odt_table(self, parent, rows, cols, variant, depth=0):
        ref = self.ref
        ref.sep("table")
        tbl = ET.SubElement(parent, TABLE + "table")
        ET.SubElement(tbl, TABLE + "table-column")
        ref.push("table" if depth == 0 else "nested-table")
        for ri in range(rows):
            holder = tbl
            if variant == "header-rows" and ri == 0:
                holder = ET.SubElement(tbl, TABLE + "table-header-rows")
            tr = ET.SubElement(holder, TABLE + "table-row")
            for ci in range(cols):
                ref.sep("cell")
                tc = ET.SubElement(tr, TABLE + "table-cell")
                if ri == 0 and ci == 0:
                    if variant in ("p", "header-rows"):
                        self.par(tc)
                    elif variant == "p-p":
                        self.par(tc)
                        self.par(tc)
                    elif variant == "nested":
                        self.par(tc)
                        self.odt_table(tc, 1, 1, "p", depth + 1)
                    elif variant == "list":
                        self.odt_list(tc, "item-p")
                    elif variant == "h":
                        self.par(tc, "h", extra=("heading-in-cell",))
                    elif variant == "p-textbox":
                        ref.sep("para")
                        p = ET.SubElement(tc, TEXT + "p")
                        p.text = ref.tok()
                        ref.push("textbox-in-cell")
                        self.textbox(p)
                        ref.pop()
                        ref.sep("para")
                    elif variant == "focus":
                        self.focus_par(tc)
                else:
                    self.par(tc)
                ref.sep("cell")
        ref.pop()
        ref.sep("table")

    TABLE_VARIANTS = ["p", "p-p", "nested", "list", "h", "p-textbox", "header-rows"]
    ODT_BLOCKS = ["p", "h", "list", "table", "section", "tracked", "frame", "toc", "sym"]

    def odt_block(self, body, kind):
        ctx, ref = self.ctx, self.ref
        if kind in ("p", "h"):
            self.par(body, kind)
        elif kind == "list":
            v = self.LIST_VARIANTS[ctx.choice(self.nm("list"), len(self.LIST_VARIANTS))]
            self.odt_list(body, v)
        elif kind == "table":
            rows = 1 + ctx.choice(self.nm("rows"), 2)
            cols = 1 + ctx.choice(self.nm("cols"), 2)
            v = self.TABLE_VARIANTS[ctx.choice(self.nm("cell"), len(self.TABLE_VARIANTS))]
            self.odt_table(body, rows, cols, v)
        elif kind == "section":
            sec = ET.SubElement(body, TEXT + "section")
            ref.push("section")
            self.par(sec)
            ref.pop()
        elif kind == "tracked":
            # ODF 1.2 5.5: deleted content is kept inside text:tracked-changes
            tc = ET.SubElement(body, TEXT + "tracked-changes")
            reg = ET.SubElement(tc, TEXT + "changed-region")
            dele = ET.SubElement(reg, TEXT + "deletion")
            ci = ET.SubElement(dele, OFFICE + "change-info")
            ET.SubElement(ci, DC + "creator").text = ref.tok("excl", extra=("tracked-deletion", "creator"))
            ET.SubElement(ci, DC + "date").text = "2024-01-01T00:00:00"
            ET.SubElement(dele, TEXT + "p").text = ref.tok("excl", extra=("tracked-deletion",))
        elif kind == "frame":
            ref.push("page-frame")
            self.textbox(body, 1)
            ref.pop()
        elif kind == "toc":
            toc = ET.SubElement(body, TEXT + "table-of-content")
            ib = ET.SubElement(toc, TEXT + "index-body")
            ref.push("toc")
            self.par(ET.SubElement(ib, TEXT + "index-title"))
            self.par(ib)
            ref.pop()
        elif kind == "sym":
            loc = _sym_local(ctx, self.nm("block_name"), ctx.params.get("block_lens", (1, 4, 7)), 45, 122)
            cls, name = _classify(loc, ODF_BLOCK_SPEC)
            el = ET.SubElement(body, _tag(ctx, TEXT, loc))
            ref.desc.append("block text:%s (%s)" % (str(loc), cls))
            if cls == "par":
                ref.sep("para")
                el.text = ref.tok()
                ref.sep("para")
            elif cls == "list":
                ref.push("list")
                self.par(ET.SubElement(el, TEXT + "list-item"))
                ref.pop()
            elif cls == "section":
                self.par(el)
            else:
                ref.sep("para")
                ET.SubElement(el, TEXT + "p").text = ref.tok("free")
                ref.sep("para")
        elif kind == "focus":
            self.focus_par(body)
        elif kind == "focus-h":
            self.focus_par(body, "h")
        elif kind == "focus-in-cell":
            self.odt_table(body, 1, 2, "focus")
        elif kind == "focus-in-list":
            self.odt_list(body, "item-focus")

    # ---- ODG / ODP page -------------------------------------------------------------
    SHAPES = ["frame", "frame-2p", "custom-shape", "group", "annotation", "frame-list", "frame-nested", "frame-focus",
              "notes", "table-frame"]

    def shape(self, page, kind):
        ctx, ref = self.ctx, self.ref
        if kind == "frame":
            self.textbox(page, 1, "frame")
        elif kind == "frame-2p":
            self.textbox(page, 2, "frame")
        elif kind == "custom-shape":
            cs = ET.SubElement(page, DRAW + "custom-shape")
            ref.push("custom-shape")
            self.par(cs)
            ref.pop()
            ET.SubElement(cs, DRAW + "enhanced-geometry")
        elif kind == "group":
            g = ET.SubElement(page, DRAW + "g")
            ref.push("group")
            self.textbox(g, 1, "frame")
            ref.pop()
        elif kind == "annotation":
            self.annotation(page, "page-annotation")
        elif kind == "frame-list":
            fr = ET.SubElement(page, DRAW + "frame")
            tb = ET.SubElement(fr, DRAW + "text-box")
            lst = ET.SubElement(tb, TEXT + "list")
            ref.push("frame-list")
            it = ET.SubElement(lst, TEXT + "list-item")
            self.par(it)
            inner = ET.SubElement(it, TEXT + "list")
            self.par(ET.SubElement(inner, TEXT + "list-item"))
            ref.pop()
        elif kind == "frame-nested":
            fr = ET.SubElement(page, DRAW + "frame")
            tb = ET.SubElement(fr, DRAW + "text-box")
            ref.sep("para")
            p = ET.SubElement(tb, TEXT + "p")
            p.text = ref.tok()
            ref.push("frame-in-paragraph")
            ref.sep("para")
            inner = self.textbox(p, 1, "frame")
            ref.sep("para")
            ref.pop()
            inner.tail = ref.tok()
            ref.sep("para")
        elif kind == "frame-focus":
            fr = ET.SubElement(page, DRAW + "frame")
            self.focus_par(ET.SubElement(fr, DRAW + "text-box"))
        elif kind == "notes":
            # speaker notes (presentations): documented as not part of the default text
            notes = ET.SubElement(page, PRES + "notes")
            fr = ET.SubElement(notes, DRAW + "frame")
            tb = ET.SubElement(fr, DRAW + "text-box")
            ET.SubElement(tb, TEXT + "p").text = ref.tok("excl", extra=("speaker-notes",))
        elif kind == "table-frame":
            fr = ET.SubElement(page, DRAW + "frame")
            tbl = ET.SubElement(fr, TABLE + "table")
            ref.push("table")
            for ri in range(2):
                holder = tbl if ri else ET.SubElement(tbl, TABLE + "table-header-rows")
                tr = ET.SubElement(holder, TABLE + "table-row")
                for ci in range(2):
                    ref.sep("cell")
                    tc = ET.SubElement(tr, TABLE + "table-cell")
                    ET.SubElement(tc, TEXT + "p").text = ref.tok(extra=("cell",))
                    ref.sep("cell")
            ref.pop()


def _odf_file(fmt, body_elem):
    kind = {"odt": "text", "odg": "graphics", "odp": "presentation"}[fmt]
    root = ET.Element(OFFICE + "document-content")
    b = ET.SubElement(root, OFFICE + "body")
    b.append(body_elem)
    bio = io.BytesIO()
    with zipfile.ZipFile(bio, "w", zipfile.ZIP_DEFLATED) as z:
        z.writestr("mimetype", "application/vnd.oasis.opendocument." + kind)
        z.writestr("content.xml", '<?xml version="1.0" encoding="UTF-8"?>' + _xml(root))
        z.writestr("META-INF/manifest.xml", '<?xml version="1.0" encoding="UTF-8"?><manifest:manifest xmlns:manifest='
                   '"urn:oasis:names:tc:opendocument:xmlns:manifest:1.0"><manifest:file-entry manifest:full-path="/" '
                   'manifest:media-type="application/vnd.oasis.opendocument.%s"/></manifest:manifest>' % kind)
    bio.seek(0)
    return bio


def k2_odf(ctx):
    sh, odt, odg, odp = _odf_mods()
    fmt = ctx.params["fmt"]
    g = OdfGen(ctx, fmt)
    ref = g.ref
    space = ctx.params["space"]
    if fmt == "odt":
        body = ET.Element(OFFICE + "text")
        if space == "inline":
            g.par(body)
            g.odt_block(body, ("focus", "focus-h", "focus-in-cell", "focus-in-list")[ctx.choice("container", 4)])
            g.par(body)
        else:
            n = 1 + ctx.choice("n_blocks", ctx.params.get("N", 2))
            first = ctx.params.get("first")
            for i in range(n):
                kinds = [first] if (first and i == 0) else [b for b in g.ODT_BLOCKS if b != "tracked"]
                g.odt_block(body, kinds[ctx.choice(g.nm("block"), len(kinds))])
        mod = odt
    else:
        body = ET.Element(OFFICE + ("drawing" if fmt == "odg" else "presentation"))
        pages = 1 + (ctx.choice("extra_page", 2) if space == "shapes" else 0)
        for pi in range(pages):
            ref.sep("page")
            page = ET.SubElement(body, DRAW + "page")
            if space == "inline":
                g.shape(page, "frame")
                g.shape(page, "frame-focus")
                g.shape(page, "frame")
            else:
                n = 1 + ctx.choice(g.nm("n_shapes"), ctx.params.get("N", 2))
                first = ctx.params.get("first")
                shapes = [s for s in g.SHAPES if s != "frame-focus" and (fmt == "odp" or s not in ("notes", "table-frame"))]
                for i in range(n):
                    kinds = [first] if (first and i == 0 and pi == 0) else shapes
                    g.shape(page, kinds[ctx.choice(g.nm("shape"), len(kinds))])
            ref.sep("page")
        mod = odg if fmt == "odg" else odp
    info = {"doc": _show(body)[:700], "fmt": fmt}
    if not ctx.concrete:
        ctx.hash_universe = S.str_constants(mod) | S.str_constants(sh)
    channels = None
    with ctx.shadow(sh, int=S.IntShadow):
        try:
            if fmt == "odt":
                out = odt._extract_full_text(body)
            elif fmt == "odg":
                out = odg._extract_full_text(body)
            else:
                slides = []
                for i, page in enumerate(body.findall(DRAW + "page"), start=1):
                    slide, _ = odp._extract_slide(None, page, i, 0)
                    slides.append(slide)
                content = odp.OdpContent(slides=slides)
                out = content.get_full_text()
                cells = [c for t in content.iterate_tables() for row in t.get_table() for c in row]
                channels = [("text", out), ("tables", "\n".join(cells))]
        except Exception as e:
            ctx.fail("extractor-raised", exc=type(e).__name__, msg=str(e)[:100], **info)
            return
    out = str(out)
    info["out"] = out[:300]
    if channels is None:
        channels = [("text", out)]
    # text:s counts: concretise after the walker has branched on the symbolic value
    for idx, cnt, lo, hi, feats in g.patch:
        n = ctx.conc(cnt, lo, hi)
        info["text_c"] = n
        if n >= 0:
            ref.items[idx] = ("exact", " " * n, feats)
    if ctx.concrete:
        import sharepoint2text
        reader = {"odt": sharepoint2text.read_odt, "odg": sharepoint2text.read_odg, "odp": sharepoint2text.read_odp}[fmt]
        res = list(reader(_odf_file(fmt, body), "x." + fmt))
        pub = res[0].get_full_text()
        want = out if fmt == "odt" else out.strip()
        ctx.require(pub == want, "public-api-differs-from-kernel", public=pub[:200], **info)
    only = None
    if ctx.perturb == "note_is_body":
        ex = [t for t in ref.tokens("excl")]
        ctx.assume(len(ex) > 0)
        i = ref.items.index(ex[-1])
        ref.items[i] = ("tok", ex[-1][1], "body", ex[-1][3])
        only = ex[-1][1]
    elif ctx.perturb == "one_more_space":
        ex = [i for i, it in enumerate(ref.items) if it[0] == "exact"]
        ctx.assume(len(ex) > 0)
        ref.items[ex[0]] = ("exact", ref.items[ex[0]][1] + " ", ref.items[ex[0]][2])
    _judge(ctx, "K2", ref, channels, info=info, only_token=only)


def _k2_parts(tier):
    m = 2 if tier == "quick" else 3
    n = 2 if tier == "quick" else 3
    cr = (-1, 3) if tier == "quick" else (-2, 8)
    lens = (1, 3, 4, 10) if tier == "quick" else (1, 2, 3, 4, 5, 10)
    parts = [{"fmt": "odt", "space": "inline", "M": m, "c_range": cr, "sym_lens": lens}]
    for first in OdfGen.ODT_BLOCKS:
        parts.append({"fmt": "odt", "space": "blocks", "N": n, "first": first})
    for fmt in ("odg", "odp"):
        parts.append({"fmt": fmt, "space": "inline", "M": m if fmt == "odg" else 1, "c_range": cr, "sym_lens": lens})
        parts.append({"fmt": fmt, "space": "shapes", "N": n})
    return parts


def _k2_targets():
    sh, odt, odg, odp = _odf_mods()
    return [sh.element_text, sh._append_element_text, odt._append_full_text_from_element, odt._extract_full_text,
            odg._extract_full_text, odp._extract_slide, odp._extract_table]



# =======================================================================================
# K3  HTML tree builder + text walk, EPUB XHTML walker
# =======================================================================================

# HTML Living Standard: 13.1.2 void elements; 15.3 "flow content" rendered as blocks (only the
# elements an HTML writer uses for paragraphs, headings, lists, tables, quotes and line
# breaks - the boundaries the property names); elements whose content is not rendered.
HTML_VOID = ("area", "base", "br", "col", "embed", "hr", "img", "input", "link", "meta", "param", "source",
             "track", "wbr")
HTML_BLOCK = ("p", "div", "h1", "h2", "h3", "h4", "h5", "h6", "ul", "ol", "li", "blockquote", "pre", "dl", "dt",
              "dd", "section", "article", "header", "footer")
HTML_INLINE = ("a", "b", "i", "u", "s", "q", "em", "tt", "big", "bdi", "bdo", "del", "dfn", "ins", "kbd", "sub",
               "sup", "var", "abbr", "cite", "code", "font", "mark", "nobr", "samp", "span", "time", "small",
               "label", "strong", "strike", "acronym")
HTML_REMOVED = ("script", "style", "noscript", "iframe", "object", "embed", "applet")      # property text
HTML_TABLE_PARTS = ("table", "caption", "colgroup", "col", "thead", "tbody", "tfoot", "tr", "td", "th")
HTML_NOT_RENDERED = ("title", "template", "datalist", "head", "html", "body", "textarea", "select", "option",
                     "optgroup", "rp", "rt", "dialog", "details", "summary", "svg", "math", "audio", "video",
                     "canvas", "frameset", "frame", "noframes", "noembed", "xmp", "plaintext", "listing", "map",
                     "button", "legend", "fieldset", "form", "menu", "dir", "center", "address", "aside", "nav",
                     "main", "figure", "figcaption", "hgroup", "search", "picture", "ruby", "meter", "progress",
                     "output", "slot", "data", "image", "isindex", "keygen", "basefont", "bgsound", "marquee",
                     "blink", "spacer", "multicol", "nextid", "command", "menuitem", "rb", "rtc")


def _html_spec():
    t = {}
    for n in HTML_NOT_RENDERED:
        t[n] = "nodemand"
    for n in HTML_TABLE_PARTS:
        t[n] = "tablepart"
    for n in HTML_INLINE:
        t[n] = "inline"
    for n in HTML_BLOCK:
        t[n] = "block"
    for n in HTML_VOID:
        t[n] = "void"
    for n in HTML_REMOVED:
        t[n] = "removed"
    t["embed"] = "void-removed"
    t["br"] = "void-break"
    t["hr"] = "void-break"
    return t


HTML_SPEC = _html_spec()


def _html_mods():
    import sharepoint2text.parsing.extractors.html_extractor as h
    import sharepoint2text.parsing.extractors.epub_extractor as e
    return h, e


class HtmlGen:
    def __init__(self, ctx):
        self.ctx = ctx
        self.ref = Ref()
        self.toks = []
        self.k = 0
        self.omit_end = False

    def nm(self, s):
        self.k += 1
        return "%s%d" % (s, self.k)

    def start(self, tag, attrs=()):
        self.toks.append(("start", tag, list(attrs)))

    def end(self, tag, optional=False):
        if optional and self.omit_end:
            return
        self.toks.append(("end", tag))

    def text(self, s):
        self.toks.append(("text", s))

    def tok(self, cls="body", extra=(), shape=0):
        s = self.ref.tok(cls, shape=shape, extra=extra)
        self.text(s)
        return s

    def block(self, tag, fill, optional_end=False, feat=None):
        ref = self.ref
        ref.sep("block-" + tag)
        if feat:
            ref.push(feat)
        self.start(tag)
        fill()
        self.end(tag, optional_end)
        if feat:
            ref.pop()
        ref.sep("block-" + tag)

    INLINE = ["text", "span", "a", "b-nested", "br", "img", "comment", "sym", "blank", "spaced", "entity-space"]

    def inline(self, kind):
        ctx, ref = self.ctx, self.ref
        if kind == "text":
            self.tok()
        elif kind in ("span", "a"):
            self.start(kind, [("href", "http://x/")] if kind == "a" else [("class", "c")])
            self.tok(extra=(kind,))
            self.end(kind)
        elif kind == "b-nested":
            self.start("b")
            self.tok()
            self.start("i")
            self.tok()
            self.end("i")
            self.end("b")
        elif kind == "br":
            self.start("br")
            ref.sep("br")
        elif kind == "img":
            self.start("img", [("src", "a.png"), ("alt", ref.tok("free", extra=("alt",)))])
        elif kind == "comment":
            self.toks.append(("comment", ref.tok("excl", extra=("comment",))))
        elif kind == "blank":
            self.text(" ")
        elif kind == "spaced":
            self.tok(shape=1)
        elif kind == "entity-space":
            self.text("\xa0")
        elif kind == "sym":
            lens = ctx.params.get("sym_lens", (1, 2, 3, 5, 6))
            t = _sym_local(ctx, self.nm("tag"), lens, 48, 122)
            if not ctx.concrete:
                for i, ch in enumerate(t.c):
                    ctx.assume(ch >= 97 if i == 0 else ((ch <= 57) | (ch >= 97)))
            else:
                for i, ch in enumerate(t):
                    ctx.assume(("a" <= ch <= "z") or (i > 0 and "0" <= ch <= "9"))
            cls, name = _classify(t, HTML_SPEC)
            # table parts outside a table / second html, head, body: contradictory markup, outside the claim
            ctx.assume(cls != "tablepart")
            ctx.assume(name not in ("html", "head", "body", "frameset"))
            ref.desc.append("<%s> (%s)" % (str(t), cls))
            if cls in ("void", "void-removed"):
                self.start(t)
            elif cls == "void-break":
                self.start(t)
                ref.sep("sym-" + name)
            elif cls == "removed":
                self.start(t)
                self.tok("excl", extra=("removed-" + name,))
                self.end(t)
            elif cls == "block":
                ref.sep("sym-block", name)
                self.start(t)
                self.tok(extra=("sym-" + name,))
                self.end(t)
                ref.sep("sym-block", name)
            elif cls == "inline":
                self.start(t)
                self.tok(extra=("sym-inline",))
                self.end(t)
            elif cls == "nodemand":
                self.start(t)
                self.tok("free")
                self.end(t)
            else:
                # unknown element: HTMLUnknownElement, rendered inline
                self.start(t)
                self.tok(extra=("sym-unknown",))
                self.end(t)

    def focus(self):
        ctx = self.ctx
        kinds = ctx.params.get("inline_kinds") or self.INLINE
        n = ctx.choice("n_inline", ctx.params.get("M", 2) + 1)
        self.tok()
        for i in range(n):
            self.inline(kinds[ctx.choice(self.nm("inline"), len(kinds))])
            self.tok()

    CELLS = ["text", "p-p", "br", "nested", "ul", "span-span", "focus"]

    def cell(self, variant):
        ref = self.ref
        if variant == "text":
            self.tok()
        elif variant == "p-p":
            self.block("p", self.tok)
            self.block("p", self.tok)
        elif variant == "br":
            self.tok()
            self.start("br")
            ref.sep("br", "br-in-cell")
            self.tok()
        elif variant == "nested":
            self.tok()
            self.table(1, 2, "text", depth=1)
            self.tok()
        elif variant == "ul":
            self.block("ul", lambda: (self.block("li", self.tok, True), self.block("li", self.tok, True)))
        elif variant == "span-span":
            self.start("span")
            self.tok()
            self.end("span")
            self.start("span")
            self.tok()
            self.end("span")
        elif variant == "focus":
            self.focus()

    def table(self, rows, cols, first_cell, depth=0, caption=False, sections=False, header=False):
        ref = self.ref
        ref.sep("table")
        ref.push("table" if depth == 0 else "nested-table")
        self.start("table")
        if caption:
            ref.sep("caption")
            self.start("caption")
            self.tok(extra=("caption",))
            self.end("caption")
            ref.sep("caption")
        if sections:
            self.start("tbody")
        for ri in range(rows):
            self.start("tr")
            for ci in range(cols):
                ct = "th" if (header and ri == 0) else "td"
                ref.sep("cell")
                ref.push("cell")
                self.start(ct)
                if ri == 0 and ci == 0:
                    self.cell(first_cell)
                else:
                    self.tok()
                self.end(ct, True)
                ref.pop()
                ref.sep("cell")
            self.end("tr", True)
        if sections:
            self.end("tbody", True)
        self.end("table")
        ref.pop()
        ref.sep("table")

    BLOCKS = ["p", "div-text", "div-p-p", "h2", "h2-br", "ul", "ul-nested", "ol-p", "table", "blockquote", "pre",
              "bare-text", "bare-br", "hr", "dl", "div-mixed"]

    def blockk(self, kind):
        ctx, ref = self.ctx, self.ref
        if kind == "p":
            self.block("p", self.tok, True)
        elif kind == "div-text":
            self.block("div", self.tok)
        elif kind == "div-p-p":
            self.block("div", lambda: (self.block("p", self.tok, True), self.block("p", self.tok, True)))
        elif kind == "div-mixed":
            # text, block child, tail text inside one div
            self.block("div", lambda: (self.tok(), self.block("p", self.tok), self.tok()))
        elif kind == "h2":
            self.block("h2", self.tok)
        elif kind == "h2-br":
            def f():
                self.tok()
                self.start("br")
                ref.sep("br", "br-in-heading")
                self.tok()
            self.block("h2", f)
        elif kind == "ul":
            self.block("ul", lambda: (self.block("li", self.tok, True), self.block("li", self.tok, True)))
        elif kind == "ul-nested":
            def inner():
                self.tok()
                self.block("ul", lambda: self.block("li", self.tok, True), feat="nested-list")
            self.block("ul", lambda: (self.block("li", inner, True), self.block("li", self.tok, True)))
        elif kind == "ol-p":
            self.block("ol", lambda: self.block("li", lambda: (self.block("p", self.tok), self.block("p", self.tok))))
        elif kind == "table":
            rows = 1 + ctx.choice(self.nm("rows"), 2)
            cols = 1 + ctx.choice(self.nm("cols"), 2)
            cells = ctx.params.get("cells") or self.CELLS[:6]
            v = cells[ctx.choice(self.nm("cell"), len(cells))]
            extra = ctx.choice(self.nm("table_extra"), 4)
            self.table(rows, cols, v, caption=(extra == 1), sections=(extra == 2), header=(extra == 3))
        elif kind == "blockquote":
            self.block("blockquote", lambda: self.block("p", self.tok))
        elif kind == "pre":
            self.block("pre", self.tok)
        elif kind == "bare-text":
            self.tok()
        elif kind == "bare-br":
            self.tok()
            self.start("br")
            ref.sep("br")
            self.tok()
        elif kind == "hr":
            self.start("hr")
            ref.sep("hr")
        elif kind == "dl":
            self.block("dl", lambda: (self.block("dt", self.tok, True), self.block("dd", self.tok, True)))
        elif kind in ("focus-p", "focus-li", "focus-h2", "focus-div"):
            tag = kind[6:]
            if tag == "li":
                self.block("ul", lambda: self.block("li", self.focus))
            else:
                self.block(tag, self.focus)
        elif kind == "focus-td":
            self.table(1, 2, "focus")


HTML_CDATA = ("script", "style")


def _html_lower(toks, h_start, h_end, h_data, h_comment):
    """token list -> html.parser.HTMLParser callbacks (tags lower-case, script/style content
    delivered as data until the matching end tag); validated at replay by rendering + feed()"""
    cdata = None
    for t in toks:
        kind = t[0]
        if cdata is not None:
            if kind == "end" and bool(t[1] == cdata):
                cdata = None
                h_end(t[1])
            elif kind == "text":
                h_data(t[1])
            continue
        if kind == "text":
            h_data(t[1])
        elif kind == "comment":
            h_comment(t[1])
        elif kind == "start":
            h_start(t[1], list(t[2]))
            name = t[1] if isinstance(t[1], str) else t[1].concrete()
            if name in HTML_CDATA:
                cdata = name
        elif kind == "end":
            h_end(t[1])


def _html_render(toks):
    out = []
    for t in toks:
        if t[0] == "text":
            out.append(t[1].replace("&", "&amp;").replace("<", "&lt;").replace("\xa0", "&nbsp;"))
        elif t[0] == "comment":
            out.append("<!--%s-->" % t[1])
        elif t[0] == "start":
            out.append("<%s%s>" % (str(t[1]), "".join(' %s="%s"' % a for a in t[2])))
        else:
            out.append("</%s>" % str(t[1]))
    return "".join(out)


def _epub_file(xhtml):
    bio = io.BytesIO()
    with zipfile.ZipFile(bio, "w", zipfile.ZIP_DEFLATED) as z:
        z.writestr("mimetype", "application/epub+zip")
        z.writestr("META-INF/container.xml", '<?xml version="1.0"?><container version="1.0" xmlns="urn:oasis:names:tc:'
                   'opendocument:xmlns:container"><rootfiles><rootfile full-path="OEBPS/content.opf" media-type='
                   '"application/oebps-package+xml"/></rootfiles></container>')
        z.writestr("OEBPS/content.opf", '<?xml version="1.0"?><package xmlns="http://www.idpf.org/2007/opf" version="3.0" '
                   'unique-identifier="id"><metadata xmlns:dc="http://purl.org/dc/elements/1.1/"><dc:title>T</dc:title>'
                   '<dc:identifier id="id">x</dc:identifier><dc:language>en</dc:language></metadata><manifest><item '
                   'id="c1" href="c1.xhtml" media-type="application/xhtml+xml"/></manifest><spine><itemref idref="c1"/>'
                   '</spine></package>')
        z.writestr("OEBPS/c1.xhtml", xhtml)
    bio.seek(0)
    return bio


def k3_html(ctx):
    h, e = _html_mods()
    target = ctx.params["target"]
    g = HtmlGen(ctx)
    ref = g.ref
    space = ctx.params["space"]
    g.omit_end = bool(ctx.params.get("omit_end"))
    g.start("html")
    g.start("body")
    if space == "inline":
        g.blockk("p")
        g.blockk(("focus-p", "focus-li", "focus-h2", "focus-div", "focus-td")[ctx.choice("container", 5)])
        g.blockk("p")
    else:
        n = 1 + ctx.choice("n_blocks", ctx.params.get("N", 2))
        first = ctx.params.get("first")
        for i in range(n):
            kinds = [first] if (first and i == 0) else g.BLOCKS
            g.blockk(kinds[ctx.choice(g.nm("block"), len(kinds))])
    g.end("body")
    g.end("html")
    toks = g.toks
    mod = h if target == "html" else e
    info = {"html": _html_render(toks)[:700], "target": target}
    tables = []
    try:
        if ctx.concrete:
            # replay: the REAL parser on the rendered document (validates the lowering)
            html = _html_render(toks)
            if target == "html":
                b = h._HtmlTreeBuilder()
                b.feed(html)
                ex = h._HtmlTextExtractor(b.get_tree())
                out = ex.extract()
            else:
                x = e._XhtmlTextExtractor()
                x.feed(html)
                out, tables = x.get_text(), x.get_tables()
        else:
            ctx.hash_universe = S.str_constants(mod) | set(HTML_SPEC)
            shadows = {"REMOVE_TAGS": S.SymSet(sorted(mod.REMOVE_TAGS)), "BLOCK_TAGS": S.SymSet(sorted(mod.BLOCK_TAGS))}
            for nm_ in ("_VOID_TAGS", "_VOID_REMOVE_TAGS"):
                if hasattr(mod, nm_):
                    shadows[nm_] = S.SymSet(sorted(getattr(mod, nm_)))
            with ctx.shadow(mod, **shadows):
                if target == "html":
                    b = h._HtmlTreeBuilder()
                    _html_lower(toks, b.handle_starttag, b.handle_endtag, b.handle_data, b.handle_comment)
                    out = h._HtmlTextExtractor(b.get_tree()).extract()
                else:
                    x = e._XhtmlTextExtractor()
                    _html_lower(toks, x.handle_starttag, x.handle_endtag, x.handle_data, x.handle_comment)
                    out, tables = x.get_text(), x.get_tables()
    except Exception as ex_:
        ctx.fail("extractor-raised", exc=type(ex_).__name__, msg=str(ex_)[:100], **info)
        return
    out = str(out)
    info["out"] = out[:300]
    channels = [("text", out)]
    if target == "epub":
        cells = [str(c) for t in tables for row in t for c in row]
        channels.append(("tables", "\n".join(cells)))
        info["cells"] = cells[:12]
    if ctx.concrete:
        import sharepoint2text
        if target == "html":
            doc = next(sharepoint2text.read_html(io.BytesIO(_html_render(toks).encode("utf-8")), "x.html"))
            ctx.require(doc.get_full_text() == out, "public-api-differs-from-kernel", public=doc.get_full_text()[:200], **info)
        else:
            doc = next(sharepoint2text.read_epub(_epub_file('<?xml version="1.0" encoding="utf-8"?>' +
                                                            _html_render(toks).replace("&nbsp;", "&#160;")), "x.epub"))
            pub_cells = [str(c) for t in doc.iterate_tables() for row in t.get_table() for c in row]
            ctx.require(doc.get_full_text().strip() == out.strip() and pub_cells == cells,
                        "public-api-differs-from-kernel", public=doc.get_full_text()[:200], **info)
    only = None
    if ctx.perturb == "comment_is_body":
        ex = ref.tokens("excl")
        ctx.assume(len(ex) > 0)
        i = ref.items.index(ex[0])
        ref.items[i] = ("tok", ex[0][1], "body", ex[0][3])
        only = ex[0][1]
    elif ctx.perturb == "inline_is_boundary":
        # twin: claim a boundary between the two tokens of <b>..<i>..</i></b>
        idx = [i for i, it in enumerate(ref.items) if it[0] == "tok"]
        ctx.assume(len(idx) >= 4)
        ref.items.insert(idx[2], ("sep", ("twin",)))
    _judge(ctx, "K3", ref, channels, deco_chars="-|", info=info, only_token=only)


def _k3_parts(tier):
    m = 2 if tier == "quick" else 3
    n = 2 if tier == "quick" else 3
    lens = (1, 2, 3, 5, 6) if tier == "quick" else (1, 2, 3, 4, 5, 6, 7, 8, 10)
    parts = []
    for target in ("html", "epub"):
        parts.append({"target": target, "space": "inline", "M": m, "sym_lens": lens})
        for first in HtmlGen.BLOCKS:
            parts.append({"target": target, "space": "blocks", "N": n, "first": first})
        parts.append({"target": target, "space": "blocks", "N": n, "first": "table", "omit_end": True})
        parts.append({"target": target, "space": "blocks", "N": n, "first": "ul", "omit_end": True})
    return parts


def _k3_targets():
    h, e = _html_mods()
    return [h._HtmlTreeBuilder.handle_starttag, h._HtmlTreeBuilder.handle_endtag, h._HtmlTreeBuilder.handle_data,
            h._HtmlTextExtractor._process_node, h._HtmlTextExtractor._extract_table, h._HtmlTextExtractor._get_node_text,
            h._HtmlTextExtractor._format_table_as_text, h._HtmlTextExtractor.extract,
            e._XhtmlTextExtractor.handle_starttag, e._XhtmlTextExtractor.handle_endtag,
            e._XhtmlTextExtractor.handle_data, e._XhtmlTextExtractor.get_text]


KERNELS = [
    Kernel("K1", "DOCX body walk on bounded abstract documents (symbolic run-child names): tokens once, in order, "
                 "boundaries kept, Fallback/deleted/field-code text absent",
           k1_docx, targets=_k1_targets, parts=_k1_parts,
           perturb=[("fallback_is_body", {"space": "inline", "M": 1, "sym_lens": (1,)}),
                    ("expect_merged_paragraphs", {"space": "inline", "M": 1, "sym_lens": (1,)})],
           symbolic=["local name of one run child per run-sym item (length 1,2,3,7; thorough +4,9,12,13): the walker's "
                     "own == / endswith tests split the names, the reference classifies them by ECMA-376 17.3.3"],
           choices=["number and kind of inline items of the focus paragraph (run, run+tab/br/cr, hyperlink, ins, del, "
                    "inline sdt, fldSimple, smartTag, DrawingML text box with VML fallback, VML text box, blank/empty "
                    "run, token with inner space, complex field, paragraph-level AlternateContent)",
                    "container of the focus paragraph (body, table cell, block-level sdt)",
                    "block sequence (paragraph, table r x c <= 2x2 with first-cell variants incl. nested table, "
                    "cell-level sdt, text box in cell, row-level sdt; block-level sdt around paragraph/table; customXml)"],
           assumptions=["documents are real xml.etree trees as the OOXML reader hands them over",
                        "reading order = XML document order; a text box is separated from its anchor paragraph by "
                        "a paragraph boundary"],
           outside=["more than 2 (3) inline items / block items, tables beyond 2x2, nesting deeper than one level",
                    "formulas (C19), footnotes/comments parts, headers/footers (separate parts, never in the body)"],
           timeout={"quick": 100, "thorough": 1100}),
    Kernel("K2", "ODF text: shared element_text walker (symbolic text:c, symbolic child names), ODT body walk, "
                 "ODG / ODP page walk against the reference stream",
           k2_odf, targets=_k2_targets, parts=_k2_parts,
           perturb=[("note_is_body", {"fmt": "odt", "space": "inline", "M": 1, "c_range": (0, 1), "sym_lens": (1,),
                                      "inline_kinds": ["note"]}),
                    ("one_more_space", {"fmt": "odt", "space": "inline", "M": 1, "c_range": (0, 2), "sym_lens": (1,),
                                        "inline_kinds": ["s-count", "s-default"]})],
           symbolic=["text:c of a text:s (integer in [-1,3], thorough [-2,8]) through int() / > 0 / ' ' * n of the walker",
                     "local name of one inline child and of one block child in the text: namespace (lengths 1,3,4,10 / "
                     "1,4,7): the walkers' own ==, `in (p, h)` and `in skip_tags` tests split the names"],
           choices=["inline children of the focus paragraph (span, a, s, tab, line-break, note, annotation, text box, "
                    "bookmark, change marks)", "container (body paragraph, heading, table cell, list item, text box)",
                    "ODT blocks: p, h, list variants (nested, heading item, list-header), table variants (nested, list, "
                    "heading, text box in cell, header rows), section, tracked-changes, page frame, table of content",
                    "ODG/ODP shapes per page: text frame, custom shape, group, annotation, list in frame, frame inside a "
                    "paragraph, speaker notes, table frame"],
           stubs=["odp._extract_slide is called with ctx=None (no image in the generated frames)"],
           assumptions=["text:c >= 0 means exactly that many spaces (ODF 1.2 6.1.3); negative / non-numeric counts "
                        "carry no demand beyond the neighbouring tokens",
                        "ODP: order across title/body/other groups is not demanded (documented text_combined)"],
           outside=["styles.xml (headers/footers), more than 2 (3) inline / block items"],
           timeout={"quick": 100, "thorough": 1100}),
    Kernel("K3", "HTML tree builder + text walk and EPUB XHTML walker on generated event streams (symbolic inline "
                 "tag name): visible structure kept",
           k3_html, targets=_k3_targets, parts=_k3_parts,
           perturb=[("comment_is_body", {"target": "html", "space": "inline", "M": 1, "inline_kinds": ["comment"]}),
                    ("inline_is_boundary", {"target": "epub", "space": "inline", "M": 1, "inline_kinds": ["b-nested"]})],
           symbolic=["name of one inline element (lower-case letters/digits, length 1,2,3,5,6; thorough up to 10): the "
                     "handlers' / walker's own set-membership and equality tests split the names; the reference "
                     "classifies them from the HTML Living Standard (void, removed, block, inline, not rendered)"],
           choices=["inline items of the focus element (text, span, a, nested b/i, br, img, comment, blank, nbsp)",
                    "container (p, li, h2, div, td)", "blocks: p, div, headings (with br), lists (nested, paragraphs in "
                    "item), table r x c with first-cell variants (two paragraphs, br, nested table, list), caption, "
                    "tbody, th row, blockquote, pre, bare text, hr, dl; optional end tags omitted (p, li, td, tr)"],
           assumptions=["lowering to callbacks follows html.parser of this Python; validated at replay by rendering the "
                        "document and running the real feed() and the public read_html / read_epub",
                        "symbolic names are not table parts or html/head/body (contradictory markup)",
                        "EPUB: a token inside a table cell may appear in the chapter text or in the extracted tables"],
           outside=["attribute values with markup, character references other than &amp; &lt; &nbsp;, documents whose "
                    "text ends in an unterminated '&' (read_html never calls close())",
                    "MHTML MIME unwrapping, EPUB spine/zip plumbing"],
           timeout={"quick": 100, "thorough": 1100}),
]

META = {
    "level_text": "",
    "level_note": "",
    "technique": "",
}
