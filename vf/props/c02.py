"""C02 - main-text fidelity: nothing lost, duplicated, merged or leaked.

Every kernel builds a bounded ABSTRACT DOCUMENT (structure chosen by solver-enumerated
choices, some element names / counts symbolic) simultaneously as
  (a) the data structure the repository walker consumes (real xml.etree Elements, parser
      callback sequences, RTF text, fake workbook objects ...) and
  (b) a REFERENCE STREAM written from the property text and the file-format specs:
      tokens (class body / excluded / free) in reading order with the boundaries
      (paragraph, cell, tab, line break) between them.
The real walker runs on (a); the oracle `_judge` compares its output with (b):
  body token exactly once - tokens in source order - tokens separated by a boundary are
  separated by whitespace - excluded tokens absent - nothing but tokens, whitespace and
  documented decoration in the output.
Symbolic element names (CharStr) flow into the walkers' own ``==`` / ``in`` / ``endswith``
tests, symbolic counts (text:c, repeat attributes) into their arithmetic; the reference
classifies the same names from spec tables in the harness.  In concrete replay the
document is serialised and additionally pushed through the public read_* entry points.
"""
import io
import zipfile
from xml.etree import ElementTree as ET

from vf.core import Kernel
from vf import symrun as S

# =======================================================================================
# reference stream + oracle (shared by all kernels)
# =======================================================================================

LABELS = ("body-text-lost", "body-text-duplicated", "body-text-reordered", "boundary-merged",
          "excluded-text-leaks", "space-count-wrong", "foreign-text-in-output")


class Ref:
    """reference stream of an abstract document.  items:
       ("tok", text, cls, feats)   cls in body | excl | free
       ("sep", feats)              paragraph / cell / tab / line-break boundary
       ("exact", string, feats)    the two neighbouring tokens are separated by exactly this"""

    def __init__(self):
        self.items = []
        self.n = 0
        self.stack = []
        self.desc = []          # human-readable structure (for counterexample info)

    def push(self, f):
        self.stack.append(f)

    def pop(self):
        self.stack.pop()

    def feats(self, extra=()):
        return tuple(self.stack) + tuple(extra)

    def tok(self, cls="body", shape=0, extra=()):
        self.n += 1
        lead = {"body": "Q", "excl": "X", "free": "F"}[cls]
        s = "%s%02dk" % (lead, self.n)
        if shape == 1:
            s = "%s%02dk j%02d%s" % (lead, self.n, self.n, lead)      # token with an inner space
        self.items.append(("tok", s, cls, self.feats(extra)))
        return s

    def sep(self, *extra):
        self.items.append(("sep", self.feats(extra)))

    def exact(self, s, *extra):
        self.items.append(("exact", s, self.feats(extra)))

    def tokens(self, cls=None):
        return [it for it in self.items if it[0] == "tok" and (cls is None or it[2] == cls)]


_KNOWN_CACHE = {}


def _known_entries(ctx):
    ids = tuple(ctx.params.get("known_active") or ())
    if not ids:
        return []
    if ids not in _KNOWN_CACHE:
        try:
            from vf.core import load_known
            _KNOWN_CACHE[ids] = [e for e in load_known("C02") if e.get("id") in ids]
        except Exception:
            _KNOWN_CACHE[ids] = []
    return _KNOWN_CACHE[ids]


_CLS_WHERE = __import__("re").compile(r"^info\.get\('cls'\) == '([^']+)'$")


def _is_known(ctx, kid, label, info, entries):
    """does a recorded known finding cover this failure?  (same predicate as vf.core._matches;
    the common form  info.get('cls') == '<class>'  is decided without eval)"""
    from vf.core import _matches
    params = None
    for e in entries:
        m = e.get("match", {})
        w = _CLS_WHERE.match(m.get("where") or "")
        if w and (not m.get("kernel") or m["kernel"] == kid) and (not m.get("label") or m["label"] == label):
            if info.get("cls") == w.group(1):
                return True
            continue
        if params is None:
            params = {a: b for a, b in ctx.params.items() if a != "known_active"}
        if _matches(e, kid, {"label": label, "inputs": {}, "info": info, "params": params}):
            return True
    return False


def _failure_class(rules, label, feats):
    """signature class of a failure: first rule (class id, labels, any-of features, all-of
    features) that applies; the class ids are what known_findings.json refers to"""
    fs = set(feats)
    for cid, labels, any_f, all_f in rules:
        if label in labels and (not any_f or fs & set(any_f)) and set(all_f) <= fs:
            return cid
    return label + ":" + "+".join(sorted(f for f in fs if not f.startswith("doc:")))


def _judge(ctx, kid, ref, channels, deco_strings=(), deco_chars="", info=None, only_token=None, rules=()):
    """channels: [(name, str)] - the observed text(s).  Collect every failure of the path and
    report the first one that is not covered by an active known finding (a known defect cannot
    mask another one on the same path)."""
    info = dict(info or {})
    fails = []
    doc_feats = set()
    for it in ref.items:
        if it[0] in ("tok", "sep", "exact") or (it[0] == "void" and len(it) > 1):
            doc_feats.update("doc:" + f for f in it[-1])

    def fail(label, feats, **kw):
        d = dict(info)
        d.update(kw)
        d["feats"] = sorted(set(feats))
        d["cls"] = _failure_class(rules, label, set(feats) | doc_feats)
        fails.append((label, d))

    texts = [t for _, t in channels]
    where = {}
    for it in ref.tokens():
        _, s, cls, feats = it
        n = sum(t.count(s) for t in texts)
        want = getattr(ref, "count", {}).get(s, 1)
        if only_token is not None and s != only_token:
            if cls == "body" and n == want:
                pass
            else:
                continue
        if cls == "body":
            if n < want:
                fail("body-text-lost", feats, token=s, count=n, expected=want)
            elif n > want:
                fail("body-text-duplicated", feats, token=s, count=n, expected=want)
            else:
                for ci, t in enumerate(texts):
                    p = t.find(s)
                    if p >= 0:
                        where[s] = (ci, p)
        elif cls == "excl":
            if n > 0:
                fail("excluded-text-leaks", feats, token=s, count=n)
    if only_token is None:
        # order and separation, per channel, between consecutive located body tokens
        for ci in range(len(texts)):
            prev = None
            between = []
            for it in ref.items:
                if it[0] != "tok":
                    if prev is not None:
                        between.append(it)
                    continue
                _, s, cls, feats = it
                if cls != "body" or s not in where or where[s][0] != ci:
                    if cls == "body" and s in where:
                        pass
                    # an intervening token of another class/channel voids "exact" demands
                    if prev is not None and cls in ("body", "free", "excl"):
                        between.append(("other",))
                    continue
                if prev is not None:
                    ps, pfe = prev
                    a, b = where[ps][1], where[s][1]
                    if b < a:
                        fail("body-text-reordered", set(pfe) | set(feats), token=s, before=ps)
                    else:
                        gap = texts[ci][a + len(ps):b]
                        seps = [x for x in between if x[0] == "sep"]
                        if seps and not any(ch.isspace() for ch in gap):
                            sf = set()
                            for x in seps:
                                sf |= set(x[1])
                            fail("boundary-merged", sf, left=ps, right=s, gap=gap)
                        ex = [x for x in between if x[0] == "exact"]
                        if ex and len(between) == len(ex):
                            want = "".join(x[1] for x in ex)
                            if gap != want:
                                fail("space-count-wrong", set(ex[0][2]), left=ps, right=s, gap=gap, want=want)
                prev = (s, feats)
                between = []
        # residual: nothing but tokens, whitespace, documented decoration
        for ci, t in enumerate(texts):
            r = t
            for it in sorted(ref.tokens(), key=lambda x: -len(x[1])):
                r = r.replace(it[1], "")
            for d in deco_strings:
                if d:
                    r = r.replace(d, "")
            r = "".join(ch for ch in r if not ch.isspace() and ch not in deco_chars)
            if r:
                fail("foreign-text-in-output", ref.feats(("residual",)), residual=r[:40], channel=channels[ci][0])
    ctx.require(True, "reached")
    if not fails:
        return
    # Known findings whose pinned witness still fails on this tree (params["known_active"], set by the
    # driver) are excluded here: a failure of a recorded class is waived, so that only a DIFFERENT
    # violation is reported (DESIGN section 2, known findings).  Witness replays and counterexample
    # replays run without known_active and therefore see every failure.
    entries = _known_entries(ctx)
    if entries:
        fresh = [f for f in fails if not _is_known(ctx, kid, f[0], f[1], entries)]
        if not fresh:
            ctx.note("failures of recorded known classes waived")
            return
        fails = fresh
    label, d = fails[0]
    ctx.fail(label, **d)


def _classify(loc, table):
    """spec class of a (possibly symbolic) local name: compares against the spec names of the
    same length (each comparison is a solver-decided fork in symbolic runs)"""
    for name, cls in table.items():
        if len(name) == len(loc) and (loc == name):
            return cls, name
    return "other", None


def _sym_local(ctx, name, lengths, alphabet="alpha"):
    """symbolic element name: first character a letter, the others from the alphabet
    (alpha: A-Za-z, lower-dash: a-z and '-', lower-digit: a-z0-9) - always a valid XML / HTML name"""
    n = lengths[ctx.choice(name + "_len", len(lengths))]
    lo, hi = {"alpha": (65, 122), "lower-dash": (45, 122), "lower-digit": (48, 122)}[alphabet]
    t = ctx.fresh_chars(name, n, lo, hi)
    for i in range(n):
        if ctx.concrete:
            ch = ord(t[i])
            low, up, dash, dig = 97 <= ch <= 122, 65 <= ch <= 90, ch == 45, 48 <= ch <= 57
        else:
            ch = t.c[i]
            low, up, dash, dig = (ch >= 97) & (ch <= 122), (ch >= 65) & (ch <= 90), ch == 45, (ch >= 48) & (ch <= 57)
        if alphabet == "alpha":
            ok = low | up
        elif i == 0:
            ok = low
        elif alphabet == "lower-dash":
            ok = low | dash
        else:
            ok = low | dig
        ctx.assume(ok)
    return t


def _tag(ctx, ns, loc):
    """'{ns}local' with a possibly symbolic local part"""
    if isinstance(loc, str):
        return ns + loc
    return S.CharStr(ns) + loc


def _xml(elem):
    """serialise a tree whose tags are concrete (replay)"""
    return ET.tostring(elem, encoding="unicode")


def _show(elem, depth=0):
    """compact structure rendering that tolerates symbolic tags"""
    t = str(elem.tag)
    t = t.rsplit("}", 1)[-1] if "}" in t else t
    kids = "".join(_show(c, depth + 1) for c in elem) if depth < 12 else "..."
    tx = (elem.text or "")
    tl = (elem.tail or "")
    return "<%s>%s%s</>%s" % (t, tx, kids, tl)


# =======================================================================================
# K1  DOCX body walk
# =======================================================================================

W = "{http://schemas.openxmlformats.org/wordprocessingml/2006/main}"
MC = "{http://schemas.openxmlformats.org/markup-compatibility/2006}"
WP = "{http://schemas.openxmlformats.org/drawingml/2006/wordprocessingDrawing}"
A = "{http://schemas.openxmlformats.org/drawingml/2006/main}"
WPS = "{http://schemas.microsoft.com/office/word/2010/wordprocessingShape}"
V = "{urn:schemas-microsoft-com:vml}"

# ECMA-376 part 1, 17.3.3 run content: what a child of w:r contributes to the visible text
RUN_CHILD_SPEC = {
    "t": "text", "tab": "sep", "br": "sep", "cr": "sep", "ptab": "sep",
    "delText": "deleted", "instrText": "code", "delInstrText": "code",
    "sym": "glyph", "noBreakHyphen": "glyph", "softHyphen": "glyph", "rPr": "props",
}


# failure classes (class id, labels, any-of features, all-of features); first match wins
K1_RULES = [
    ("docx-block-level-sdt-or-customxml-dropped", ("body-text-lost",), ("block-sdt", "block-customXml"), ()),
    ("docx-vml-textbox-without-alternatecontent-lost", ("body-text-lost",), ("vml-textbox",), ()),
    ("docx-nested-table-text-repeated", ("body-text-duplicated",), ("nested-table",), ()),
    ("docx-textbox-in-table-cell", ("body-text-duplicated", "body-text-reordered", "excluded-text-leaks"),
     ("textbox", "vml-textbox", "ac-fallback", "textbox-in-cell"), ("table",)),
    ("docx-run-tab-or-break-dropped", ("boundary-merged",), ("run-tab", "run-br", "run-cr", "run-ptab"), ()),
    ("docx-textbox-merged-into-anchor-paragraph", ("boundary-merged",), ("textbox-para",), ()),
]


def _docx():
    import sharepoint2text.parsing.extractors.ms_modern.docx_extractor as d
    return d


class DocxGen:
    def __init__(self, ctx):
        self.ctx = ctx
        self.ref = Ref()
        self.k = 0

    def nm(self, s):
        self.k += 1
        return "%s%d" % (s, self.k)

    # ---- leaves ---------------------------------------------------------------------
    def run(self, parent, text, rpr=True):
        r = ET.SubElement(parent, W + "r")
        if rpr:
            ET.SubElement(ET.SubElement(r, W + "rPr"), W + "b")
        t = ET.SubElement(r, W + "t")
        t.text = text
        return r

    def plain_par(self, parent, extra=()):
        ref = self.ref
        ref.sep("para")
        p = ET.SubElement(parent, W + "p")
        ET.SubElement(p, W + "pPr")
        self.run(p, ref.tok("body", extra=extra))
        ref.sep("para")
        return p

    def txbx_content(self, parent, cls, n_par, feat):
        ref = self.ref
        tc = ET.SubElement(parent, W + "txbxContent")
        ref.push(feat)
        for _ in range(n_par):
            ref.sep("para", "textbox-para")
            p = ET.SubElement(tc, W + "p")
            self.run(p, ref.tok(cls), rpr=False)
            ref.sep("para", "textbox-para")
        ref.pop()

    def textbox_ac(self, run, n_par):
        """w:r/mc:AlternateContent{Choice: DrawingML text box, Fallback: VML rendition}"""
        ac = ET.SubElement(run, MC + "AlternateContent")
        ch = ET.SubElement(ac, MC + "Choice")
        ch.set("Requires", "wps")
        node = ch
        for tag in (W + "drawing", WP + "anchor", A + "graphic", A + "graphicData", WPS + "wsp", WPS + "txbx"):
            node = ET.SubElement(node, tag)
        self.txbx_content(node, "body", n_par, "textbox")
        fb = ET.SubElement(ac, MC + "Fallback")
        node = fb
        for tag in (W + "pict", V + "shape", V + "textbox"):
            node = ET.SubElement(node, tag)
        self.txbx_content(node, "excl", n_par, "ac-fallback")

    # ---- inline items of the focus paragraph ----------------------------------------
    INLINE = ["run", "run-tab", "run-br", "run-cr", "run-sym", "hyperlink", "ins", "del", "sdt", "fldSimple",
              "smartTag", "textbox", "vml-textbox", "blank", "empty", "spaced", "field", "para-ac"]

    # ECMA-376 17.3.3.1 CT_Br (type, clear), 17.3.3.23 CT_PTab (alignment, ...); CT_Empty for tab and cr
    SEP_ATTRS = {"br": (None, "type", "clear"), "cr": (None,), "tab": (None,), "ptab": (None, "alignment")}

    def inline(self, p, kind):
        ctx, ref = self.ctx, self.ref
        if kind == "run":
            self.run(p, ref.tok())
        elif kind in ("run-tab", "run-br", "run-cr"):
            r = ET.SubElement(p, W + "r")
            ET.SubElement(r, W + "t").text = ref.tok()
            ET.SubElement(r, W + kind[4:])
            ref.sep(kind)
            ET.SubElement(r, W + "t").text = ref.tok()
        elif kind == "run-sep-attr":
            # a separator child of a run in its general form: element tab / br / cr / ptab, in the run of the text
            # around it or in a run of its own, with or without an attribute whose VALUE is symbolic (w:type -
            # ST_BrType page / column / textWrapping -, w:clear, w:alignment; any other value is covered as well).
            # ECMA-376 17.3.3.1: every w:br ends the current line whatever its type (a page / column break also
            # starts a new page / column), so the texts around it are separated in every case.
            elems = ctx.params.get("sep_elems") or ("br", "cr", "tab", "ptab")
            name = elems[ctx.choice(self.nm("sep_elem"), len(elems))]
            own_run = ctx.flag(self.nm("sep_own_run"))
            attrs = self.SEP_ATTRS[name]            # the attributes the schema gives the element
            attr = attrs[ctx.choice(self.nm("sep_attr"), len(attrs))]
            r = ET.SubElement(p, W + "r")
            ET.SubElement(r, W + "t").text = ref.tok()
            if own_run:
                r = ET.SubElement(p, W + "r")
            x = ET.SubElement(r, W + name)
            if attr:
                val = _sym_local(ctx, self.nm("sep_attr_value"), ctx.params.get("attr_lens", (4, 6, 12)))
                x.set(W + attr, val)
                ref.desc.append("w:%s w:%s=%s" % (name, attr, str(val)))
            ref.sep("run-" + name, "sep-attr-" + str(attr), "sep-own-run" if own_run else "sep-in-run")
            if own_run:
                r = ET.SubElement(p, W + "r")
            ET.SubElement(r, W + "t").text = ref.tok()
        elif kind == "run-sym":
            lens = ctx.params.get("sym_lens", (1, 2, 3, 7))
            loc = _sym_local(ctx, self.nm("runchild"), lens)
            cls, name = _classify(loc, RUN_CHILD_SPEC)
            r = ET.SubElement(p, W + "r")
            ET.SubElement(r, W + "t").text = ref.tok()
            x = ET.SubElement(r, _tag(ctx, W, loc))
            if cls == "text":
                x.text = ref.tok()
            elif cls == "sep":
                ref.sep("run-" + name)
            elif cls in ("deleted", "code"):
                x.text = ref.tok("excl", extra=("run-" + name,))
            elif cls == "other":
                x.text = ref.tok("free")
            ET.SubElement(r, W + "t").text = ref.tok()
            ref.desc.append("run child w:%s (%s)" % (str(loc), cls))
        elif kind in ("hyperlink", "ins", "fldSimple", "smartTag"):
            ref.push(kind)
            self.run(ET.SubElement(p, W + kind), ref.tok())
            ref.pop()
        elif kind == "del":
            d = ET.SubElement(p, W + "del")
            r = ET.SubElement(d, W + "r")
            ET.SubElement(r, W + "delText").text = ref.tok("excl", extra=("del",))
        elif kind == "sdt":
            sdt = ET.SubElement(p, W + "sdt")
            ET.SubElement(sdt, W + "sdtPr")
            ref.push("inline-sdt")
            self.run(ET.SubElement(sdt, W + "sdtContent"), ref.tok())
            ref.pop()
        elif kind == "textbox":
            r = ET.SubElement(p, W + "r")
            self.textbox_ac(r, 1 + ctx.choice(self.nm("txbx_pars"), 2))
        elif kind == "vml-textbox":
            r = ET.SubElement(p, W + "r")
            node = r
            for tag in (W + "pict", V + "shape", V + "textbox"):
                node = ET.SubElement(node, tag)
            self.txbx_content(node, "body", 1, "vml-textbox")
        elif kind == "blank":
            self.run(p, " ")
        elif kind == "empty":
            self.run(p, None if ctx.flag(self.nm("none")) else "")
        elif kind == "spaced":
            self.run(p, ref.tok(shape=1))
        elif kind == "field":
            # complex field: begin, code, separate, result, end
            for part in ("begin", "code", "separate", "result", "end"):
                r = ET.SubElement(p, W + "r")
                if part == "code":
                    ET.SubElement(r, W + "instrText").text = ref.tok("excl", extra=("field-code",))
                elif part == "result":
                    ET.SubElement(r, W + "t").text = ref.tok(extra=("field-result",))
                else:
                    ET.SubElement(r, W + "fldChar").set(W + "fldCharType", part)
        elif kind == "para-ac":
            ac = ET.SubElement(p, MC + "AlternateContent")
            ref.push("para-ac")
            self.run(ET.SubElement(ac, MC + "Choice"), ref.tok())
            fb = ET.SubElement(ac, MC + "Fallback")
            r = ET.SubElement(fb, W + "r")
            ET.SubElement(r, W + "t").text = ref.tok("excl", extra=("ac-fallback",))
            ref.pop()

    def focus_par(self, parent):
        ctx, ref = self.ctx, self.ref
        ref.sep("para")
        p = ET.SubElement(parent, W + "p")
        kinds = ctx.params.get("inline_kinds") or self.INLINE
        m = ctx.params.get("M", 2)
        first = ctx.params.get("first_inline")
        n = (1 + ctx.choice("n_more_inline", m)) if first else ctx.choice("n_inline", m + 1)
        for i in range(n):
            if first and i == 0:
                self.inline(p, first)
            else:
                self.inline(p, kinds[ctx.choice(self.nm("inline"), len(kinds))])
        ref.sep("para")
        return p

    # ---- blocks ---------------------------------------------------------------------
    def table(self, parent, rows, cols, first_cell, depth=0, row_sdt=False):
        ctx, ref = self.ctx, self.ref
        ref.sep("table")
        tbl = ET.SubElement(parent, W + "tbl")
        ET.SubElement(tbl, W + "tblPr")
        ref.push("table" if depth == 0 else "nested-table")
        for ri in range(rows):
            holder = tbl
            if row_sdt and ri == 0:
                sdt = ET.SubElement(tbl, W + "sdt")
                holder = ET.SubElement(sdt, W + "sdtContent")
            tr = ET.SubElement(holder, W + "tr")
            for ci in range(cols):
                ref.sep("cell")
                tc = ET.SubElement(tr, W + "tc")
                ET.SubElement(tc, W + "tcPr")
                if ri == 0 and ci == 0:
                    first_cell(tc)
                else:
                    self.plain_par(tc)
                ref.sep("cell")
        ref.pop()
        ref.sep("table")
        return tbl

    CELL_VARIANTS = ["p", "p-p", "p-nested", "nested-p", "sdt-p", "p-textbox", "focus"]

    def cell_content(self, variant):
        def fill(tc):
            ref = self.ref
            if variant == "p":
                self.plain_par(tc)
            elif variant == "p-p":
                self.plain_par(tc)
                self.plain_par(tc)
            elif variant == "p-nested":
                self.plain_par(tc)
                self.table(tc, 1, 1 + self.ctx.choice(self.nm("nested_cols"), 2), lambda c: self.plain_par(c), depth=1)
                ET.SubElement(tc, W + "p")      # a cell must end with a paragraph
            elif variant == "nested-p":
                self.table(tc, 1, 1, lambda c: self.plain_par(c), depth=1)
                self.plain_par(tc)
            elif variant == "sdt-p":
                sdt = ET.SubElement(tc, W + "sdt")
                ref.push("cell-sdt")
                self.plain_par(ET.SubElement(sdt, W + "sdtContent"))
                ref.pop()
            elif variant == "p-textbox":
                ref.sep("para")
                p = ET.SubElement(tc, W + "p")
                self.run(p, ref.tok())
                ref.push("textbox-in-cell")
                self.textbox_ac(ET.SubElement(p, W + "r"), 1)
                ref.pop()
                ref.sep("para")
            elif variant == "focus":
                self.focus_par(tc)
        return fill

    BLOCKS = ["p", "table", "sdt-p", "sdt-table", "customXml-p"]

    def block(self, body, kind, simple=False):
        ctx, ref = self.ctx, self.ref
        if kind == "p":
            self.plain_par(body)
        elif kind == "table" and simple:
            self.table(body, 1, 2, self.cell_content("p"))
        elif kind == "table":
            rows = 1 + ctx.choice(self.nm("rows"), 2)
            cols = 1 + ctx.choice(self.nm("cols"), 2)
            variants = ctx.params.get("cell_variants") or self.CELL_VARIANTS[:6]
            v = variants[ctx.choice(self.nm("cell"), len(variants))]
            row_sdt = ctx.flag(self.nm("row_sdt")) if ctx.params.get("row_sdt", True) else False
            self.table(body, rows, cols, self.cell_content(v), row_sdt=row_sdt)
        elif kind in ("sdt-p", "sdt-table"):
            sdt = ET.SubElement(body, W + "sdt")
            ET.SubElement(sdt, W + "sdtPr")
            c = ET.SubElement(sdt, W + "sdtContent")
            ref.push("block-sdt")
            if kind == "sdt-p":
                self.plain_par(c)
            else:
                self.table(c, 1, 1, self.cell_content("p"))
            ref.pop()
        elif kind == "customXml-p":
            cx = ET.SubElement(body, W + "customXml")
            cx.set(W + "element", "x")
            ref.push("block-customXml")
            self.plain_par(cx)
            ref.pop()
        elif kind == "focus":
            self.focus_par(body)
        elif kind == "focus-in-cell":
            self.table(body, 1, 2, self.cell_content("focus"))
        elif kind == "focus-in-sdt":
            sdt = ET.SubElement(body, W + "sdt")
            ref.push("block-sdt")
            self.focus_par(ET.SubElement(sdt, W + "sdtContent"))
            ref.pop()


def _docx_file(body_xml):
    doc = ('<?xml version="1.0" encoding="UTF-8" standalone="yes"?>'
           '<w:document xmlns:w="%s">%s</w:document>' % (W[1:-1], body_xml))
    ct = ('<?xml version="1.0" encoding="UTF-8"?><Types xmlns="http://schemas.openxmlformats.org/package/2006/'
          'content-types"><Default Extension="xml" ContentType="application/xml"/><Default Extension="rels" '
          'ContentType="application/vnd.openxmlformats-package.relationships+xml"/><Override PartName="/word/'
          'document.xml" ContentType="application/vnd.openxmlformats-officedocument.wordprocessingml.document.'
          'main+xml"/></Types>')
    rels = ('<?xml version="1.0" encoding="UTF-8"?><Relationships xmlns="http://schemas.openxmlformats.org/package/'
            '2006/relationships"><Relationship Id="rId1" Type="http://schemas.openxmlformats.org/officeDocument/2006/'
            'relationships/officeDocument" Target="word/document.xml"/></Relationships>')
    bio = io.BytesIO()
    with zipfile.ZipFile(bio, "w", zipfile.ZIP_DEFLATED) as z:
        z.writestr("[Content_Types].xml", ct)
        z.writestr("_rels/.rels", rels)
        z.writestr("word/document.xml", doc)
    bio.seek(0)
    return bio


def k1_docx(ctx):
    d = _docx()
    g = DocxGen(ctx)
    ref = g.ref
    body = ET.Element(W + "body")
    space = ctx.params["space"]
    if space == "inline":
        g.plain_par(body)
        holder = ("focus", "focus-in-cell", "focus-in-sdt")[ctx.choice("container", 3)]
        g.block(body, holder)
        g.plain_par(body)
    else:
        # [plain paragraph]? + first block (all its variants) + 0..N-1 following blocks (simple forms)
        if ctx.flag("lead_paragraph"):
            g.plain_par(body)
        g.block(body, ctx.params["first"])
        for i in range(ctx.choice("n_following", ctx.params.get("N", 2))):
            g.block(body, g.BLOCKS[ctx.choice(g.nm("block"), len(g.BLOCKS))], simple=True)
    ET.SubElement(body, W + "sectPr")
    info = {"doc": _show(body)[:600]}
    try:
        out = d._extract_full_text_from_body(body, include_formulas=True)
    except Exception as e:
        ctx.fail("extractor-raised", exc=type(e).__name__, msg=str(e)[:100], **info)
        return
    info["out"] = out[:300]
    if ctx.concrete:
        # the same document through the public entry point
        import sharepoint2text
        res = list(sharepoint2text.read_docx(_docx_file(_xml(body)), "x.docx"))
        pub = res[0].get_full_text()
        ctx.require(pub == out, "public-api-differs-from-kernel", public=pub[:200], **info)
    only = None
    if ctx.perturb == "fallback_is_body":
        ex = ref.tokens("excl")
        ctx.assume(len(ex) > 0)
        i = ref.items.index(ex[0])
        ref.items[i] = ("tok", ex[0][1], "body", ex[0][3])
        only = ex[0][1]
    elif ctx.perturb == "expect_merged_paragraphs":
        # twin: claim that no whitespace separates the first two paragraphs
        toks = ref.tokens("body")
        ctx.assume(len(toks) >= 2)
        a, b = toks[0][1], toks[1][1]
        ctx.require(not (a in out and b in out and out.find(a) < out.find(b) and
                         any(ch.isspace() for ch in out[out.find(a) + len(a):out.find(b)])), "twin")
        return
    elif ctx.perturb == "expect_merged_at_attributed_separator":
        # twin: claim that the two texts around the separator element of a run-sep-attr item (tokens 2 and 3 of
        # the document) are NOT separated by whitespace
        toks = ref.tokens("body")
        ctx.assume(len(toks) >= 3)
        a, b = toks[1][1], toks[2][1]
        ctx.require(not (a in out and b in out and out.find(a) < out.find(b) and
                         any(ch.isspace() for ch in out[out.find(a) + len(a):out.find(b)])), "twin")
        return
    _judge(ctx, "K1", ref, [("text", out)], info=info, only_token=only, rules=K1_RULES)


def _k1_parts(tier):
    m = 2 if tier == "quick" else 3
    lens = (1, 2, 3, 7) if tier == "quick" else (1, 2, 3, 4, 7, 9, 12, 13)
    if tier == "quick":
        parts = [{"space": "inline", "M": m, "sym_lens": lens}]
    else:
        # two items with every name length + three items with the short name lengths, split by the first item
        parts = [{"space": "inline", "M": 2, "sym_lens": lens, "first_inline": k} for k in DocxGen.INLINE]
        parts += [{"space": "inline", "M": 3, "sym_lens": (1, 3), "first_inline": k} for k in DocxGen.INLINE]
    # separator element of a run in its general form (element x own run x attribute with symbolic value) first,
    # any item after it
    for elems in (("br",), ("cr", "tab", "ptab")):
        if tier == "quick":
            parts.append({"space": "inline", "M": 2, "sym_lens": lens, "first_inline": "run-sep-attr",
                          "attr_lens": (4, 6, 12), "sep_elems": elems})
        else:
            wide = DocxGen.INLINE + ["run-sep-attr"]
            parts.append({"space": "inline", "M": 2, "sym_lens": lens, "first_inline": "run-sep-attr",
                          "attr_lens": (3, 4, 5, 6, 12, 13), "inline_kinds": wide, "sep_elems": elems})
            parts.append({"space": "inline", "M": 3, "sym_lens": (1, 3), "first_inline": "run-sep-attr",
                          "attr_lens": (4, 12), "sep_elems": elems})
    n = 2 if tier == "quick" else 3
    for first in DocxGen.BLOCKS:
        parts.append({"space": "blocks", "N": n, "first": first})
    return parts


def _k1_targets():
    d = _docx()
    return [d._extract_full_text_from_body, d._extract_table_text, d._extract_paragraph_content,
            d._process_text_element]



# =======================================================================================
# K2  ODF text (shared element_text walker, ODT body walk, ODG/ODP page walk)
# =======================================================================================

TEXT = "{urn:oasis:names:tc:opendocument:xmlns:text:1.0}"
OFFICE = "{urn:oasis:names:tc:opendocument:xmlns:office:1.0}"
TABLE = "{urn:oasis:names:tc:opendocument:xmlns:table:1.0}"
DRAW = "{urn:oasis:names:tc:opendocument:xmlns:drawing:1.0}"
DC = "{http://purl.org/dc/elements/1.1/}"
PRES = "{urn:oasis:names:tc:opendocument:xmlns:presentation:1.0}"
SVG = "{urn:oasis:names:tc:opendocument:xmlns:svg-compatible:1.0}"

# OpenDocument 1.2 part 1, 6.1 / 5.x: what a child of text:p contributes to the paragraph text
ODF_INLINE_SPEC = {
    "s": "space", "tab": "sep", "line-break": "sep", "span": "inline", "a": "inline",
    "note": "excluded", "p": "invalid", "h": "invalid", "meta": "inline", "ruby": "other",
}
# children of office:text / text:section / table cells
ODF_BLOCK_SPEC = {"p": "par", "h": "par", "list": "list", "section": "section"}


K2_RULES = {
    "odt": [
        ("odt-tracked-deletion-in-full-text", ("excluded-text-leaks",), ("tracked-deletion",), ()),
        ("odt-note-or-annotation-in-cell-or-list-leaks", ("excluded-text-leaks",), ("note", "annotation"), ()),
        ("odt-nested-list-repeated", ("body-text-duplicated",), ("nested-list",), ()),
        ("odt-nested-table-repeated", ("body-text-duplicated",), ("nested-table",), ()),
        ("odt-textbox-paragraph-repeated", ("body-text-duplicated",), ("textbox",), ()),
        ("odt-heading-in-list-or-cell-lost", ("body-text-lost",), ("heading-in-list", "heading-in-cell"), ()),
        ("odt-list-header-lost", ("body-text-lost",), ("list-header",), ()),
        ("odt-textbox-merged-into-anchor-paragraph", ("boundary-merged",), ("textbox-para",), ()),
    ],
    "odg": [
        ("odg-annotation-in-full-text", ("excluded-text-leaks",), ("annotation", "page-annotation"), ()),
    ],
    "odp": [
        ("odp-annotation-in-paragraph-leaks", ("excluded-text-leaks",), ("annotation",), ()),
        ("odp-text-outside-top-level-frames-lost", ("body-text-lost",), ("custom-shape", "group"), ()),
    ],
}


def _odf_mods():
    import sharepoint2text.parsing.extractors.open_office._shared as sh
    import sharepoint2text.parsing.extractors.open_office.odt_extractor as odt
    import sharepoint2text.parsing.extractors.open_office.odg_extractor as odg
    import sharepoint2text.parsing.extractors.open_office.odp_extractor as odp
    return sh, odt, odg, odp


class OdfGen:
    def __init__(self, ctx, fmt):
        self.ctx = ctx
        self.fmt = fmt
        self.ref = Ref()
        self.k = 0
        self.patch = []        # (index into ref.items, symbolic count, lo, hi, feats)

    def nm(self, s):
        self.k += 1
        return "%s%d" % (s, self.k)

    def par(self, parent, tag="p", extra=(), cls="body"):
        ref = self.ref
        ref.sep("para")
        p = ET.SubElement(parent, TEXT + tag)
        p.text = ref.tok(cls, extra=extra)
        ref.sep("para")
        return p

    def annotation(self, parent, feat="annotation"):
        ref = self.ref
        an = ET.SubElement(parent, OFFICE + "annotation")
        ET.SubElement(an, DC + "creator").text = ref.tok("excl", extra=(feat, "creator"))
        ET.SubElement(an, DC + "date").text = "2024-01-01T00:00:00"
        ET.SubElement(an, TEXT + "p").text = ref.tok("excl", extra=(feat,))
        return an

    def textbox(self, parent, n_par=1, feat="textbox"):
        ref = self.ref
        fr = ET.SubElement(parent, DRAW + "frame")
        tb = ET.SubElement(fr, DRAW + "text-box")
        ref.push(feat)
        for _ in range(n_par):
            ref.sep("para", "textbox-para")
            ET.SubElement(tb, TEXT + "p").text = ref.tok()
            ref.sep("para", "textbox-para")
        ref.pop()
        return fr

    INLINE = ["span", "a", "s-default", "s-count", "s-bad", "tab", "line-break", "note", "annotation", "textbox",
              "sym", "span-s", "bookmark", "change-marks", "blank-span"]

    def inline(self, p, kind):
        """append one child to the mixed content of p; returns the child (tail set by caller)"""
        ctx, ref = self.ctx, self.ref
        if kind in ("span", "a"):
            ref.push(kind)
            c = ET.SubElement(p, TEXT + kind)
            c.text = ref.tok()
            ref.pop()
        elif kind == "blank-span":
            c = ET.SubElement(p, TEXT + "span")
            c.text = " "
        elif kind == "s-default":
            c = ET.SubElement(p, TEXT + "s")
            ref.exact(" ", "text-s")
        elif kind == "s-count":
            lo, hi = ctx.params.get("c_range", (-1, 3))
            cnt = ctx.fresh_int(self.nm("text_c"), lo, hi)
            c = ET.SubElement(p, TEXT + "s")
            c.set(TEXT + "c", str(cnt) if ctx.concrete else cnt)
            ref.items.append(("void",))
            self.patch.append((len(ref.items) - 1, cnt, lo, hi, ref.feats(("text-s",))))
        elif kind == "s-bad":
            c = ET.SubElement(p, TEXT + "s")
            c.set(TEXT + "c", ("x", "", "1.5")[ctx.choice(self.nm("bad_c"), 3)])
            ref.items.append(("void",))
        elif kind in ("tab", "line-break"):
            c = ET.SubElement(p, TEXT + kind)
            ref.sep("inline-" + kind)
        elif kind == "note":
            c = ET.SubElement(p, TEXT + "note")
            c.set(TEXT + "note-class", "footnote")
            ET.SubElement(c, TEXT + "note-citation").text = ref.tok("excl", extra=("note", "citation"))
            nb = ET.SubElement(c, TEXT + "note-body")
            ET.SubElement(nb, TEXT + "p").text = ref.tok("excl", extra=("note",))
        elif kind == "annotation":
            c = self.annotation(p)
        elif kind == "textbox":
            ref.sep("para", "textbox-start")
            c = self.textbox(p, 1 + ctx.choice(self.nm("tb_pars"), 2))
            ref.sep("para", "textbox-end")
        elif kind == "span-s":
            c = ET.SubElement(p, TEXT + "span")
            c.text = ref.tok()
            ET.SubElement(c, TEXT + "s")
            ref.exact(" ", "text-s")
        elif kind == "bookmark":
            c = ET.SubElement(p, TEXT + "bookmark")
            c.set(TEXT + "name", "bm")
        elif kind == "change-marks":
            c = ET.SubElement(p, TEXT + "change-start")
            c.set(TEXT + "change-id", "ct1")
        elif kind == "sym":
            lens = ctx.params.get("sym_lens", (1, 3, 4, 10))
            loc = _sym_local(ctx, self.nm("inline_name"), lens, "lower-dash")
            cls, name = _classify(loc, ODF_INLINE_SPEC)
            if cls == "excluded" and self.fmt != "odt":
                cls = "other"           # footnotes exist in text documents only
            c = ET.SubElement(p, _tag(ctx, TEXT, loc))
            if cls == "space":
                ref.exact(" ", "text-s")
            elif cls == "sep":
                ref.sep("inline-" + name)
            elif cls == "inline":
                c.text = ref.tok(extra=(name,))
            elif cls == "excluded":
                c.text = ref.tok("excl", extra=(name,))
            else:
                c.text = ref.tok("free")
            ref.desc.append("text:%s (%s)" % (str(loc), cls))
        return c

    def focus_par(self, parent, tag="p"):
        ctx, ref = self.ctx, self.ref
        ref.sep("para")
        p = ET.SubElement(parent, TEXT + tag)
        p.text = ref.tok()
        kinds = ctx.params.get("inline_kinds") or [k for k in self.INLINE if k not in ("note", "textbox") or self.fmt == "odt"]
        first = ctx.params.get("first_inline")
        m = ctx.params.get("M", 2)
        n = (1 + ctx.choice("n_more_inline", m)) if first else ctx.choice("n_inline", m + 1)
        for i in range(n):
            kind = first if (first and i == 0) else kinds[ctx.choice(self.nm("inline"), len(kinds))]
            c = self.inline(p, kind)
            c.tail = ref.tok()
        ref.sep("para")
        return p

    # ---- ODT blocks -----------------------------------------------------------------
    def odt_list(self, parent, variant, depth=0):
        ref = self.ref
        ref.sep("list")
        lst = ET.SubElement(parent, TEXT + "list")
        ref.push("list" if depth == 0 else "nested-list")
        if variant == "item-p":
            self.par(ET.SubElement(lst, TEXT + "list-item"))
        elif variant == "two-items":
            self.par(ET.SubElement(lst, TEXT + "list-item"))
            self.par(ET.SubElement(lst, TEXT + "list-item"))
        elif variant == "item-p-p":
            it = ET.SubElement(lst, TEXT + "list-item")
            self.par(it)
            self.par(it)
        elif variant == "nested":
            it = ET.SubElement(lst, TEXT + "list-item")
            self.par(it)
            self.odt_list(it, "item-p", depth + 1)
            self.par(ET.SubElement(lst, TEXT + "list-item"))
        elif variant == "item-h":
            it = ET.SubElement(lst, TEXT + "list-item")
            self.par(it, "h", extra=("heading-in-list",))
        elif variant == "header-p":
            self.par(ET.SubElement(lst, TEXT + "list-header"), extra=("list-header",))
            self.par(ET.SubElement(lst, TEXT + "list-item"))
        elif variant == "item-focus":
            self.focus_par(ET.SubElement(lst, TEXT + "list-item"))
        ref.pop()
        ref.sep("list")

    LIST_VARIANTS = ["item-p", "two-items", "item-p-p", "nested", "item-h", "header-p"]

    def odt_table(self, parent, rows, cols, variant, depth=0):
        ref = self.ref
        ref.sep("table")
        tbl = ET.SubElement(parent, TABLE + "table")
        ET.SubElement(tbl, TABLE + "table-column")
        ref.push("table" if depth == 0 else "nested-table")
        for ri in range(rows):
            holder = tbl
            if variant == "header-rows" and ri == 0:
                holder = ET.SubElement(tbl, TABLE + "table-header-rows")
            tr = ET.SubElement(holder, TABLE + "table-row")
            for ci in range(cols):
                ref.sep("cell")
                tc = ET.SubElement(tr, TABLE + "table-cell")
                if ri == 0 and ci == 0:
                    if variant in ("p", "header-rows"):
                        self.par(tc)
                    elif variant == "p-p":
                        self.par(tc)
                        self.par(tc)
                    elif variant == "nested":
                        self.par(tc)
                        self.odt_table(tc, 1, 1, "p", depth + 1)
                    elif variant == "list":
                        self.odt_list(tc, "item-p")
                    elif variant == "h":
                        self.par(tc, "h", extra=("heading-in-cell",))
                    elif variant == "p-textbox":
                        ref.sep("para")
                        p = ET.SubElement(tc, TEXT + "p")
                        p.text = ref.tok()
                        ref.push("textbox-in-cell")
                        self.textbox(p)
                        ref.pop()
                        ref.sep("para")
                    elif variant == "focus":
                        self.focus_par(tc)
                else:
                    self.par(tc)
                ref.sep("cell")
        ref.pop()
        ref.sep("table")

    TABLE_VARIANTS = ["p", "p-p", "nested", "list", "h", "p-textbox", "header-rows"]
    ODT_BLOCKS = ["p", "h", "list", "table", "section", "tracked", "frame", "toc", "sym"]

    def odt_block(self, body, kind, simple=False):
        ctx, ref = self.ctx, self.ref
        if kind in ("p", "h"):
            self.par(body, kind)
        elif kind == "list" and simple:
            self.odt_list(body, "two-items")
        elif kind == "table" and simple:
            self.odt_table(body, 1, 2, "p")
        elif kind == "list":
            v = self.LIST_VARIANTS[ctx.choice(self.nm("list"), len(self.LIST_VARIANTS))]
            self.odt_list(body, v)
        elif kind == "table":
            rows = 1 + ctx.choice(self.nm("rows"), 2)
            cols = 1 + ctx.choice(self.nm("cols"), 2)
            v = self.TABLE_VARIANTS[ctx.choice(self.nm("cell"), len(self.TABLE_VARIANTS))]
            self.odt_table(body, rows, cols, v)
        elif kind == "section":
            sec = ET.SubElement(body, TEXT + "section")
            ref.push("section")
            self.par(sec)
            ref.pop()
        elif kind == "tracked":
            # ODF 1.2 5.5: deleted content is kept inside text:tracked-changes
            tc = ET.SubElement(body, TEXT + "tracked-changes")
            reg = ET.SubElement(tc, TEXT + "changed-region")
            dele = ET.SubElement(reg, TEXT + "deletion")
            ci = ET.SubElement(dele, OFFICE + "change-info")
            ET.SubElement(ci, DC + "creator").text = ref.tok("excl", extra=("tracked-deletion", "creator"))
            ET.SubElement(ci, DC + "date").text = "2024-01-01T00:00:00"
            ET.SubElement(dele, TEXT + "p").text = ref.tok("excl", extra=("tracked-deletion",))
        elif kind == "frame":
            ref.push("page-frame")
            self.textbox(body, 1)
            ref.pop()
        elif kind == "toc":
            toc = ET.SubElement(body, TEXT + "table-of-content")
            ib = ET.SubElement(toc, TEXT + "index-body")
            ref.push("toc")
            self.par(ET.SubElement(ib, TEXT + "index-title"))
            self.par(ib)
            ref.pop()
        elif kind == "sym":
            loc = _sym_local(ctx, self.nm("block_name"), ctx.params.get("block_lens", (1, 4, 7)), "lower-dash")
            cls, name = _classify(loc, ODF_BLOCK_SPEC)
            el = ET.SubElement(body, _tag(ctx, TEXT, loc))
            ref.desc.append("block text:%s (%s)" % (str(loc), cls))
            if cls == "par":
                ref.sep("para")
                el.text = ref.tok()
                ref.sep("para")
            elif cls == "list":
                ref.push("list")
                self.par(ET.SubElement(el, TEXT + "list-item"))
                ref.pop()
            elif cls == "section":
                self.par(el)
            else:
                ref.sep("para")
                ET.SubElement(el, TEXT + "p").text = ref.tok("free")
                ref.sep("para")
        elif kind == "focus":
            self.focus_par(body)
        elif kind == "focus-h":
            self.focus_par(body, "h")
        elif kind == "focus-in-cell":
            self.odt_table(body, 1, 2, "focus")
        elif kind == "focus-in-list":
            self.odt_list(body, "item-focus")

    # ---- ODG / ODP page -------------------------------------------------------------
    SHAPES = ["frame", "frame-2p", "custom-shape", "group", "annotation", "frame-list", "frame-nested", "frame-focus",
              "notes", "table-frame"]

    def shape(self, page, kind):
        ctx, ref = self.ctx, self.ref
        if kind == "frame":
            self.textbox(page, 1, "frame")
        elif kind == "frame-2p":
            self.textbox(page, 2, "frame")
        elif kind == "custom-shape":
            cs = ET.SubElement(page, DRAW + "custom-shape")
            ref.push("custom-shape")
            self.par(cs)
            ref.pop()
            ET.SubElement(cs, DRAW + "enhanced-geometry")
        elif kind == "group":
            g = ET.SubElement(page, DRAW + "g")
            ref.push("group")
            self.textbox(g, 1, "frame")
            ref.pop()
        elif kind == "annotation":
            self.annotation(page, "page-annotation")
        elif kind == "frame-list":
            fr = ET.SubElement(page, DRAW + "frame")
            tb = ET.SubElement(fr, DRAW + "text-box")
            lst = ET.SubElement(tb, TEXT + "list")
            ref.push("frame-list")
            it = ET.SubElement(lst, TEXT + "list-item")
            self.par(it)
            inner = ET.SubElement(it, TEXT + "list")
            self.par(ET.SubElement(inner, TEXT + "list-item"))
            ref.pop()
        elif kind == "frame-nested":
            fr = ET.SubElement(page, DRAW + "frame")
            tb = ET.SubElement(fr, DRAW + "text-box")
            ref.sep("para")
            p = ET.SubElement(tb, TEXT + "p")
            p.text = ref.tok()
            ref.push("frame-in-paragraph")
            ref.sep("para")
            inner = self.textbox(p, 1, "frame")
            ref.sep("para")
            ref.pop()
            inner.tail = ref.tok()
            ref.sep("para")
        elif kind == "frame-focus":
            fr = ET.SubElement(page, DRAW + "frame")
            self.focus_par(ET.SubElement(fr, DRAW + "text-box"))
        elif kind == "notes":
            # speaker notes (presentations): documented as not part of the default text
            notes = ET.SubElement(page, PRES + "notes")
            fr = ET.SubElement(notes, DRAW + "frame")
            tb = ET.SubElement(fr, DRAW + "text-box")
            ET.SubElement(tb, TEXT + "p").text = ref.tok("excl", extra=("speaker-notes",))
        elif kind == "table-frame":
            fr = ET.SubElement(page, DRAW + "frame")
            tbl = ET.SubElement(fr, TABLE + "table")
            ref.push("table")
            for ri in range(2):
                holder = tbl if ri else ET.SubElement(tbl, TABLE + "table-header-rows")
                tr = ET.SubElement(holder, TABLE + "table-row")
                for ci in range(2):
                    ref.sep("cell")
                    tc = ET.SubElement(tr, TABLE + "table-cell")
                    ET.SubElement(tc, TEXT + "p").text = ref.tok(extra=("cell",))
                    ref.sep("cell")
            ref.pop()


def _odf_file(fmt, body_elem):
    kind = {"odt": "text", "odg": "graphics", "odp": "presentation", "ods": "spreadsheet"}[fmt]
    root = ET.Element(OFFICE + "document-content")
    b = ET.SubElement(root, OFFICE + "body")
    b.append(body_elem)
    bio = io.BytesIO()
    with zipfile.ZipFile(bio, "w", zipfile.ZIP_DEFLATED) as z:
        z.writestr("mimetype", "application/vnd.oasis.opendocument." + kind)
        z.writestr("content.xml", '<?xml version="1.0" encoding="UTF-8"?>' + _xml(root))
        z.writestr("META-INF/manifest.xml", '<?xml version="1.0" encoding="UTF-8"?><manifest:manifest xmlns:manifest='
                   '"urn:oasis:names:tc:opendocument:xmlns:manifest:1.0"><manifest:file-entry manifest:full-path="/" '
                   'manifest:media-type="application/vnd.oasis.opendocument.%s"/></manifest:manifest>' % kind)
    bio.seek(0)
    return bio


def k2_odf(ctx):
    sh, odt, odg, odp = _odf_mods()
    fmt = ctx.params["fmt"]
    g = OdfGen(ctx, fmt)
    ref = g.ref
    space = ctx.params["space"]
    if fmt == "odt":
        body = ET.Element(OFFICE + "text")
        if space == "inline":
            g.par(body)
            g.odt_block(body, ("focus", "focus-h", "focus-in-cell", "focus-in-list")[ctx.choice("container", 4)])
            g.par(body)
        else:
            if ctx.params["first"] != "tracked" and ctx.flag("lead_paragraph"):
                g.par(body)
            g.odt_block(body, ctx.params["first"])
            follow = [b for b in g.ODT_BLOCKS if b not in ("tracked", "sym")]
            for i in range(ctx.choice("n_following", ctx.params.get("N", 2))):
                g.odt_block(body, follow[ctx.choice(g.nm("block"), len(follow))], simple=True)
        mod = odt
    else:
        body = ET.Element(OFFICE + ("drawing" if fmt == "odg" else "presentation"))
        pages = 1 + (ctx.choice("extra_page", 2) if (space == "shapes" and ctx.params.get("pages", 1) > 1) else 0)
        for pi in range(pages):
            ref.sep("page")
            page = ET.SubElement(body, DRAW + "page")
            if space == "inline":
                g.shape(page, "frame")
                g.shape(page, "frame-focus")
                g.shape(page, "frame")
            else:
                shapes = [s for s in g.SHAPES if s not in ("frame-focus", "frame-nested") and
                          (fmt == "odp" or s not in ("notes", "table-frame"))]
                n = 1 + ctx.choice(g.nm("n_shapes"), ctx.params.get("N", 2))
                for i in range(n):
                    g.shape(page, shapes[ctx.choice(g.nm("shape"), len(shapes))])
            ref.sep("page")
        mod = odg if fmt == "odg" else odp
    info = {"doc": _show(body)[:700], "fmt": fmt}
    if not ctx.concrete:
        ctx.hash_universe = S.str_constants(mod) | S.str_constants(sh)
    channels = None
    with ctx.shadow(sh, int=S.IntShadow):
        try:
            if fmt == "odt":
                out = odt._extract_full_text(body)
            elif fmt == "odg":
                out = odg._extract_full_text(body)
            else:
                slides = []
                for i, page in enumerate(body.findall(DRAW + "page"), start=1):
                    slide, _ = odp._extract_slide(None, page, i, 0)
                    slides.append(slide)
                content = odp.OdpContent(slides=slides)
                out = content.get_full_text()
                cells = [c for t in content.iterate_tables() for row in t.get_table() for c in row]
                channels = [("text", out), ("tables", "\n".join(cells))]
        except Exception as e:
            ctx.fail("extractor-raised", exc=type(e).__name__, msg=str(e)[:100], **info)
            return
    out = str(out)
    info["out"] = out[:300]
    if channels is None:
        channels = [("text", out)]
    # text:s counts: concretise after the walker has branched on the symbolic value
    for idx, cnt, lo, hi, feats in g.patch:
        n = ctx.conc(cnt, lo, hi)
        info["text_c"] = n
        if n >= 0:
            ref.items[idx] = ("exact", " " * n, feats)
    if ctx.concrete:
        import sharepoint2text
        reader = {"odt": sharepoint2text.read_odt, "odg": sharepoint2text.read_odg, "odp": sharepoint2text.read_odp}[fmt]
        res = list(reader(_odf_file(fmt, body), "x." + fmt))
        pub = res[0].get_full_text()
        want = out if fmt == "odt" else out.strip()
        ctx.require(pub == want, "public-api-differs-from-kernel", public=pub[:200], **info)
    only = None
    if ctx.perturb == "note_is_body":
        ex = [t for t in ref.tokens("excl")]
        ctx.assume(len(ex) > 0)
        i = ref.items.index(ex[-1])
        ref.items[i] = ("tok", ex[-1][1], "body", ex[-1][3])
        only = ex[-1][1]
    elif ctx.perturb == "one_more_space":
        ex = [i for i, it in enumerate(ref.items) if it[0] == "exact"]
        ctx.assume(len(ex) > 0)
        ref.items[ex[0]] = ("exact", ref.items[ex[0]][1] + " ", ref.items[ex[0]][2])
    _judge(ctx, "K2", ref, channels, info=info, only_token=only, rules=K2_RULES[fmt])


def _k2_parts(tier):
    m = 2 if tier == "quick" else 3
    n = 2 if tier == "quick" else 3
    cr = (-1, 3) if tier == "quick" else (-2, 5)
    lens = (1, 3, 4, 10) if tier == "quick" else (1, 2, 3, 4, 5, 10)
    parts = []
    plain = [k for k in OdfGen.INLINE if k != "sym"]
    for fmt in ("odt", "odg", "odp"):
        kinds = [k for k in plain if fmt == "odt" or k not in ("note", "textbox")]
        if tier == "quick" or fmt == "odp":
            parts.append({"fmt": fmt, "space": "inline", "M": m if fmt != "odp" else 1, "c_range": cr, "inline_kinds": kinds})
        else:
            for k in kinds:
                parts.append({"fmt": fmt, "space": "inline", "M": m, "c_range": cr, "inline_kinds": kinds, "first_inline": k})
        for ln in lens:
            parts.append({"fmt": fmt, "space": "inline", "M": 1, "sym_lens": (ln,), "inline_kinds": ["sym"]})
        if fmt != "odt":
            parts.append({"fmt": fmt, "space": "shapes", "N": n, "pages": 1})
            if tier != "quick":
                parts.append({"fmt": fmt, "space": "shapes", "N": 2, "pages": 2})
    for first in OdfGen.ODT_BLOCKS:
        parts.append({"fmt": "odt", "space": "blocks", "N": n, "first": first})
    return parts


def _k2_targets():
    sh, odt, odg, odp = _odf_mods()
    return [sh.element_text, sh._append_element_text, odt._append_full_text_from_element, odt._extract_full_text,
            odg._extract_full_text, odp._extract_slide, odp._extract_table]



# =======================================================================================
# K3  HTML tree builder + text walk, EPUB XHTML walker
# =======================================================================================

# HTML Living Standard: 13.1.2 void elements; 15.3 "flow content" rendered as blocks (only the
# elements an HTML writer uses for paragraphs, headings, lists, tables, quotes and line
# breaks - the boundaries the property names); elements whose content is not rendered.
HTML_VOID = ("area", "base", "br", "col", "embed", "hr", "img", "input", "link", "meta", "param", "source",
             "track", "wbr")
HTML_BLOCK = ("p", "div", "h1", "h2", "h3", "h4", "h5", "h6", "ul", "ol", "li", "blockquote", "pre", "dl", "dt",
              "dd", "section", "article", "header", "footer")
HTML_INLINE = ("a", "b", "i", "u", "s", "q", "em", "tt", "big", "bdi", "bdo", "del", "dfn", "ins", "kbd", "sub",
               "sup", "var", "abbr", "cite", "code", "font", "mark", "nobr", "samp", "span", "time", "small",
               "label", "strong", "strike", "acronym")
HTML_REMOVED = ("script", "style", "noscript", "iframe", "object", "embed", "applet")      # property text
HTML_TABLE_PARTS = ("table", "caption", "colgroup", "col", "thead", "tbody", "tfoot", "tr", "td", "th")
HTML_NOT_RENDERED = ("title", "template", "datalist", "head", "html", "body", "textarea", "select", "option",
                     "optgroup", "rp", "rt", "dialog", "details", "summary", "svg", "math", "audio", "video",
                     "canvas", "frameset", "frame", "noframes", "noembed", "xmp", "plaintext", "listing", "map",
                     "button", "legend", "fieldset", "form", "menu", "dir", "center", "address", "aside", "nav",
                     "main", "figure", "figcaption", "hgroup", "search", "picture", "ruby", "meter", "progress",
                     "output", "slot", "data", "image", "isindex", "keygen", "basefont", "bgsound", "marquee",
                     "blink", "spacer", "multicol", "nextid", "command", "menuitem", "rb", "rtc")


def _html_spec():
    t = {}
    for n in HTML_NOT_RENDERED:
        t[n] = "nodemand"
    for n in HTML_TABLE_PARTS:
        t[n] = "tablepart"
    for n in HTML_INLINE:
        t[n] = "inline"
    for n in HTML_BLOCK:
        t[n] = "block"
    for n in HTML_VOID:
        t[n] = "void"
    for n in HTML_REMOVED:
        t[n] = "removed"
    t["embed"] = "void-removed"
    t["br"] = "void-break"
    t["hr"] = "void-break"
    return t


HTML_SPEC = _html_spec()


K3_RULES = {
    "html": [
        ("html-table-caption-lost", ("body-text-lost",), ("caption",), ()),
        ("html-nested-table-repeated", ("body-text-duplicated",), ("nested-table",), ()),
        ("html-br-in-heading-merged", ("boundary-merged",), ("br", "sym-br"), ("heading",)),
        ("html-omitted-optional-end-tags", LABELS, ("omitted-end-tags",), ()),
        ("html-cell-content-flattened", ("boundary-merged",), (), ("cell",)),
    ],
    "epub": [
        ("epub-nested-table-loses-outer-cell-text", ("body-text-lost", "boundary-merged"), (), ("cell", "doc:nested-table")),
    ],
}


def _html_mods():
    import sharepoint2text.parsing.extractors.html_extractor as h
    import sharepoint2text.parsing.extractors.epub_extractor as e
    return h, e


class HtmlGen:
    def __init__(self, ctx):
        self.ctx = ctx
        self.ref = Ref()
        self.toks = []
        self.k = 0
        self.omit_end = False
        self.phrasing_only = False

    def nm(self, s):
        self.k += 1
        return "%s%d" % (s, self.k)

    def start(self, tag, attrs=()):
        self.toks.append(("start", tag, list(attrs)))

    def end(self, tag, optional=False):
        if optional and self.omit_end:
            self.toks.append(("end?", tag))         # resolved by finalize()
            return
        self.toks.append(("end", tag))

    # HTML Living Standard 13.1.2.4 optional tags: the end tag may be omitted if the element is
    # immediately followed by one of these start tags, or if there is no more content in the parent
    OMIT_BEFORE = {
        "p": ("address", "article", "aside", "blockquote", "details", "div", "dl", "fieldset", "figcaption", "figure",
              "footer", "form", "h1", "h2", "h3", "h4", "h5", "h6", "header", "hgroup", "hr", "main", "menu", "nav",
              "ol", "p", "pre", "search", "section", "table", "ul"),
        "li": ("li",), "td": ("td", "th"), "th": ("td", "th"), "tr": ("tr",), "dt": ("dt", "dd"), "dd": ("dd", "dt"),
        "tbody": ("tbody", "tfoot"),
    }

    def finalize(self):
        out = []
        toks = self.toks
        for i, t in enumerate(toks):
            if t[0] != "end?":
                out.append(t)
                continue
            nxt = toks[i + 1] if i + 1 < len(toks) else None
            omit = nxt is not None and (
                nxt[0] in ("end", "end?") or
                (nxt[0] == "start" and isinstance(nxt[1], str) and nxt[1] in self.OMIT_BEFORE.get(t[1], ())))
            if not omit:
                out.append(("end", t[1]))
        self.toks = out

    def text(self, s):
        self.toks.append(("text", s))

    def tok(self, cls="body", extra=(), shape=0):
        s = self.ref.tok(cls, shape=shape, extra=extra)
        self.text(s)
        return s

    def block(self, tag, fill, optional_end=False, feat=None):
        ref = self.ref
        ref.sep("block-" + tag)
        if feat:
            ref.push(feat)
        self.start(tag)
        fill()
        self.end(tag, optional_end)
        if feat:
            ref.pop()
        ref.sep("block-" + tag)

    INLINE = ["text", "span", "a", "b-nested", "br", "img", "comment", "sym", "blank", "spaced", "entity-space"]

    def inline(self, kind):
        ctx, ref = self.ctx, self.ref
        if kind == "text":
            self.tok()
        elif kind in ("span", "a"):
            self.start(kind, [("href", "http://x/")] if kind == "a" else [("class", "c")])
            self.tok(extra=(kind,))
            self.end(kind)
        elif kind == "b-nested":
            self.start("b")
            self.tok()
            self.start("i")
            self.tok()
            self.end("i")
            self.end("b")
        elif kind == "br":
            self.start("br")
            ref.sep("br")
        elif kind == "img":
            self.start("img", [("src", "a.png"), ("alt", ref.tok("free", extra=("alt",)))])
        elif kind == "comment":
            self.toks.append(("comment", ref.tok("excl", extra=("comment",))))
        elif kind == "blank":
            self.text(" ")
        elif kind == "spaced":
            self.tok(shape=1)
        elif kind == "entity-space":
            self.text("\xa0")
        elif kind == "sym":
            lens = ctx.params.get("sym_lens", (1, 2, 3, 5, 6))
            t = _sym_local(ctx, self.nm("tag"), lens, "lower-digit")
            cls, name = _classify(t, HTML_SPEC)
            # table parts outside a table / second html, head, body: contradictory markup, outside the claim
            ctx.assume(cls != "tablepart")
            ctx.assume(name not in ("html", "head", "body", "frameset"))
            if self.phrasing_only:
                # p and headings hold phrasing content only: no block children, no hr
                ctx.assume(cls != "block" and name != "hr")
            ref.desc.append("<%s> (%s)" % (str(t), cls))
            if cls in ("void", "void-removed"):
                self.start(t)
            elif cls == "void-break":
                self.start(t)
                ref.sep("sym-" + name)
            elif cls == "removed":
                self.start(t)
                self.tok("excl", extra=("removed-" + name,))
                self.end(t)
            elif cls == "block":
                ref.sep("sym-block", name)
                self.start(t)
                self.tok(extra=("sym-" + name,))
                self.end(t)
                ref.sep("sym-block", name)
            elif cls == "inline":
                self.start(t)
                self.tok(extra=("sym-inline",))
                self.end(t)
            elif cls == "nodemand":
                self.start(t)
                self.tok("free")
                self.end(t)
            else:
                # unknown element: HTMLUnknownElement, rendered inline
                self.start(t)
                self.tok(extra=("sym-unknown",))
                self.end(t)

    def focus(self):
        ctx = self.ctx
        kinds = ctx.params.get("inline_kinds") or self.INLINE
        n = ctx.choice("n_inline", ctx.params.get("M", 2) + 1)
        self.tok()
        for i in range(n):
            self.inline(kinds[ctx.choice(self.nm("inline"), len(kinds))])
            self.tok()

    CELLS = ["text", "p-p", "br", "nested", "ul", "span-span", "focus"]

    def cell(self, variant):
        ref = self.ref
        if variant == "text":
            self.tok()
        elif variant == "p-p":
            self.block("p", self.tok)
            self.block("p", self.tok)
        elif variant == "br":
            self.tok()
            self.start("br")
            ref.sep("br", "br-in-cell")
            self.tok()
        elif variant == "nested":
            self.tok()
            self.table(1, 2, "text", depth=1)
            self.tok()
        elif variant == "ul":
            self.block("ul", lambda: (self.block("li", self.tok, True), self.block("li", self.tok, True)))
        elif variant == "span-span":
            self.start("span")
            self.tok()
            self.end("span")
            self.start("span")
            self.tok()
            self.end("span")
        elif variant == "focus":
            self.focus()

    def table(self, rows, cols, first_cell, depth=0, caption=False, sections=False, header=False):
        ref = self.ref
        ref.sep("table")
        ref.push("table" if depth == 0 else "nested-table")
        self.start("table")
        if caption:
            ref.sep("caption")
            self.start("caption")
            self.tok(extra=("caption",))
            self.end("caption")
            ref.sep("caption")
        if sections:
            self.start("tbody")
        for ri in range(rows):
            self.start("tr")
            for ci in range(cols):
                ct = "th" if (header and ri == 0) else "td"
                ref.sep("cell")
                ref.push("cell")
                self.start(ct)
                if ri == 0 and ci == 0:
                    self.cell(first_cell)
                else:
                    self.tok()
                self.end(ct, True)
                ref.pop()
                ref.sep("cell")
            self.end("tr", True)
        if sections:
            self.end("tbody", True)
        self.end("table")
        ref.pop()
        ref.sep("table")

    BLOCKS = ["p", "div-text", "div-p-p", "h2", "h2-br", "ul", "ul-nested", "ol-p", "table", "blockquote", "pre",
              "bare-text", "bare-br", "hr", "dl", "div-mixed"]

    def blockk(self, kind, simple=False):
        ctx, ref = self.ctx, self.ref
        if kind == "table" and simple:
            self.table(1, 2, "text")
        elif kind == "p":
            self.block("p", self.tok, True)
        elif kind == "div-text":
            self.block("div", self.tok)
        elif kind == "div-p-p":
            self.block("div", lambda: (self.block("p", self.tok, True), self.block("p", self.tok, True)))
        elif kind == "div-mixed":
            # text, block child, tail text inside one div
            self.block("div", lambda: (self.tok(), self.block("p", self.tok), self.tok()))
        elif kind == "h2":
            self.block("h2", self.tok)
        elif kind == "h2-br":
            def f():
                self.tok()
                self.start("br")
                ref.sep("br")
                self.tok()
            self.block("h2", f, feat="heading")
        elif kind == "ul":
            self.block("ul", lambda: (self.block("li", self.tok, True), self.block("li", self.tok, True)))
        elif kind == "ul-nested":
            def inner():
                self.tok()
                self.block("ul", lambda: self.block("li", self.tok, True), feat="nested-list")
            self.block("ul", lambda: (self.block("li", inner, True), self.block("li", self.tok, True)))
        elif kind == "ol-p":
            self.block("ol", lambda: self.block("li", lambda: (self.block("p", self.tok), self.block("p", self.tok))))
        elif kind == "table":
            rows = 1 + ctx.choice(self.nm("rows"), 2)
            cols = 1 + ctx.choice(self.nm("cols"), 2)
            cells = ctx.params.get("cells") or self.CELLS[:6]
            v = cells[ctx.choice(self.nm("cell"), len(cells))]
            extra = ctx.choice(self.nm("table_extra"), 4)
            self.table(rows, cols, v, caption=(extra == 1), sections=(extra == 2), header=(extra == 3))
        elif kind == "blockquote":
            self.block("blockquote", lambda: self.block("p", self.tok))
        elif kind == "pre":
            self.block("pre", self.tok)
        elif kind == "bare-text":
            self.tok()
        elif kind == "bare-br":
            self.tok()
            self.start("br")
            ref.sep("br")
            self.tok()
        elif kind == "hr":
            self.start("hr")
            ref.sep("hr")
        elif kind == "dl":
            self.block("dl", lambda: (self.block("dt", self.tok, True), self.block("dd", self.tok, True)))
        elif kind in ("focus-p", "focus-li", "focus-h2", "focus-div"):
            tag = kind[6:]
            if tag == "li":
                self.block("ul", lambda: self.block("li", self.focus))
            else:
                self.phrasing_only = tag in ("p", "h2")
                self.block(tag, self.focus, feat="heading" if tag == "h2" else None)
                self.phrasing_only = False
        elif kind == "focus-td":
            self.table(1, 2, "focus")


HTML_CDATA = ("script", "style")


def _html_lower(toks, h_start, h_end, h_data, h_comment):
    """token list -> html.parser.HTMLParser callbacks (tags lower-case, script/style content
    delivered as data until the matching end tag); validated at replay by rendering + feed()"""
    cdata = None
    for t in toks:
        kind = t[0]
        if cdata is not None:
            if kind == "end" and bool(t[1] == cdata):
                cdata = None
                h_end(t[1])
            elif kind == "text":
                h_data(t[1])
            continue
        if kind == "text":
            h_data(t[1])
        elif kind == "comment":
            h_comment(t[1])
        elif kind == "start":
            h_start(t[1], list(t[2]))
            name = t[1] if isinstance(t[1], str) else t[1].concrete()
            if name in HTML_CDATA:
                cdata = name
        elif kind == "end":
            h_end(t[1])


def _html_render(toks):
    out = []
    for t in toks:
        if t[0] == "text":
            out.append(t[1].replace("&", "&amp;").replace("<", "&lt;").replace("\xa0", "&nbsp;"))
        elif t[0] == "comment":
            out.append("<!--%s-->" % t[1])
        elif t[0] == "start":
            out.append("<%s%s>" % (str(t[1]), "".join(' %s="%s"' % a for a in t[2])))
        else:
            out.append("</%s>" % str(t[1]))
    return "".join(out)


def _epub_file(xhtml):
    bio = io.BytesIO()
    with zipfile.ZipFile(bio, "w", zipfile.ZIP_DEFLATED) as z:
        z.writestr("mimetype", "application/epub+zip")
        z.writestr("META-INF/container.xml", '<?xml version="1.0"?><container version="1.0" xmlns="urn:oasis:names:tc:'
                   'opendocument:xmlns:container"><rootfiles><rootfile full-path="OEBPS/content.opf" media-type='
                   '"application/oebps-package+xml"/></rootfiles></container>')
        z.writestr("OEBPS/content.opf", '<?xml version="1.0"?><package xmlns="http://www.idpf.org/2007/opf" version="3.0" '
                   'unique-identifier="id"><metadata xmlns:dc="http://purl.org/dc/elements/1.1/"><dc:title>T</dc:title>'
                   '<dc:identifier id="id">x</dc:identifier><dc:language>en</dc:language></metadata><manifest><item '
                   'id="c1" href="c1.xhtml" media-type="application/xhtml+xml"/></manifest><spine><itemref idref="c1"/>'
                   '</spine></package>')
        z.writestr("OEBPS/c1.xhtml", xhtml)
    bio.seek(0)
    return bio


def k3_html(ctx):
    h, e = _html_mods()
    target = ctx.params["target"]
    g = HtmlGen(ctx)
    ref = g.ref
    space = ctx.params["space"]
    g.omit_end = bool(ctx.params.get("omit_end"))
    if g.omit_end:
        ref.push("omitted-end-tags")
    g.start("html")
    g.start("body")
    if space == "inline":
        g.blockk("p")
        g.blockk(("focus-p", "focus-li", "focus-h2", "focus-div", "focus-td")[ctx.choice("container", 5)])
        g.blockk("p")
    else:
        if ctx.flag("lead_paragraph"):
            g.blockk("p")
        g.blockk(ctx.params["first"])
        for i in range(ctx.choice("n_following", ctx.params.get("N", 2))):
            g.blockk(g.BLOCKS[ctx.choice(g.nm("block"), len(g.BLOCKS))], simple=True)
    g.end("body")
    g.end("html")
    g.finalize()
    toks = g.toks
    mod = h if target == "html" else e
    info = {"html": _html_render(toks)[:700], "target": target}
    tables = []
    try:
        if ctx.concrete:
            # replay: the REAL parser on the rendered document (validates the lowering)
            html = _html_render(toks)
            if target == "html":
                b = h._HtmlTreeBuilder()
                b.feed(html)
                ex = h._HtmlTextExtractor(b.get_tree())
                out = ex.extract()
            else:
                x = e._XhtmlTextExtractor()
                x.feed(html)
                out, tables = x.get_text(), x.get_tables()
        else:
            ctx.hash_universe = S.str_constants(mod)
            shadows = {"REMOVE_TAGS": S.SymSet(sorted(mod.REMOVE_TAGS)), "BLOCK_TAGS": S.SymSet(sorted(mod.BLOCK_TAGS)),
                       "int": S.IntShadow}
            for nm_ in ("_VOID_TAGS", "_VOID_REMOVE_TAGS"):
                if hasattr(mod, nm_):
                    shadows[nm_] = S.SymSet(sorted(getattr(mod, nm_)))
            with ctx.shadow(mod, **shadows):
                if target == "html":
                    b = h._HtmlTreeBuilder()
                    _html_lower(toks, b.handle_starttag, b.handle_endtag, b.handle_data, b.handle_comment)
                    out = h._HtmlTextExtractor(b.get_tree()).extract()
                else:
                    x = e._XhtmlTextExtractor()
                    _html_lower(toks, x.handle_starttag, x.handle_endtag, x.handle_data, x.handle_comment)
                    out, tables = x.get_text(), x.get_tables()
    except Exception as ex_:
        ctx.fail("extractor-raised", exc=type(ex_).__name__, msg=str(ex_)[:100], **info)
        return
    out = str(out)
    info["out"] = out[:300]
    channels = [("text", out)]
    if target == "epub":
        cells = [str(c) for t in tables for row in t for c in row]
        channels.append(("tables", "\n".join(cells)))
        info["cells"] = cells[:12]
    if ctx.concrete:
        import sharepoint2text
        if target == "html":
            doc = next(sharepoint2text.read_html(io.BytesIO(_html_render(toks).encode("utf-8")), "x.html"))
            ctx.require(doc.get_full_text() == out, "public-api-differs-from-kernel", public=doc.get_full_text()[:200], **info)
        else:
            doc = next(sharepoint2text.read_epub(_epub_file('<?xml version="1.0" encoding="utf-8"?>' +
                                                            _html_render(toks).replace("&nbsp;", "&#160;")), "x.epub"))
            pub_cells = [str(c) for t in doc.iterate_tables() for row in t.get_table() for c in row]
            ctx.require(doc.get_full_text().strip() == out.strip() and pub_cells == cells,
                        "public-api-differs-from-kernel", public=doc.get_full_text()[:200], **info)
    only = None
    if ctx.perturb == "comment_is_body":
        ex = ref.tokens("excl")
        ctx.assume(len(ex) > 0)
        i = ref.items.index(ex[0])
        ref.items[i] = ("tok", ex[0][1], "body", ex[0][3])
        only = ex[0][1]
    elif ctx.perturb == "inline_is_boundary":
        # twin: claim a boundary between the two tokens of <b>..<i>..</i></b>
        idx = [i for i, it in enumerate(ref.items) if it[0] == "tok"]
        ctx.assume(len(idx) >= 4)
        ref.items.insert(idx[2], ("sep", ("twin",)))
    _judge(ctx, "K3", ref, channels, deco_chars="-|", info=info, only_token=only, rules=K3_RULES[target])


def _k3_parts(tier):
    m = 2 if tier == "quick" else 3
    n = 2 if tier == "quick" else 3
    lens = (1, 2, 3, 5, 6) if tier == "quick" else (1, 2, 3, 4, 5, 6, 7, 8, 10)
    parts = []
    for target in ("html", "epub"):
        parts.append({"target": target, "space": "inline", "M": m, "inline_kinds": [k for k in HtmlGen.INLINE if k != "sym"]})
        for ln in lens:
            parts.append({"target": target, "space": "inline", "M": 1, "sym_lens": (ln,), "inline_kinds": ["sym"]})
        for first in HtmlGen.BLOCKS:
            parts.append({"target": target, "space": "blocks", "N": 2 if first == "table" else n, "first": first})
    # HTML syntax only (EPUB content documents are XHTML): optional end tags of p, li, td, tr omitted
    for first in ("table", "ul", "div-p-p", "dl"):
        parts.append({"target": "html", "space": "blocks", "N": 2 if first == "table" else n, "first": first, "omit_end": True})
    return parts


def _k3_targets():
    h, e = _html_mods()
    return [h._HtmlTreeBuilder.handle_starttag, h._HtmlTreeBuilder.handle_endtag, h._HtmlTreeBuilder.handle_data,
            h._HtmlTextExtractor._process_node, h._HtmlTextExtractor._extract_table, h._HtmlTextExtractor._get_node_text,
            h._HtmlTextExtractor._format_table_as_text, h._HtmlTextExtractor.extract,
            e._XhtmlTextExtractor.handle_starttag, e._XhtmlTextExtractor.handle_endtag,
            e._XhtmlTextExtractor.handle_data, e._XhtmlTextExtractor.get_text]


# =======================================================================================
# K4  RTF: real reader on documents assembled from a lexeme alphabet vs a reference reader
# =======================================================================================

K4_RULES = [
    ("rtf-cell-and-row-marks-dropped", ("boundary-merged",), ("cell-mark",), ()),
    ("rtf-deleted-revision-text-in-full-text", ("excluded-text-leaks",), ("deleted",), ()),
    ("rtf-control-words-starting-with-u-leak", ("foreign-text-in-output",), ("doc:u-word",), ()),
    ("rtf-unicode-fallback-not-skipped", ("foreign-text-in-output",), ("doc:u-fallback",), ()),
]

# RTF 1.9.1: lexeme -> (rtf source, reference semantics).  Semantics items:
#   ("tok", cls, feat) a unique token is placed at "%s";  ("sep", feat);  ("chars", feat) literal
#   characters that may appear (decoration);  ("nothing", feat)
RTF_LEXEMES = [
    ("text",        "%s",                              [("tok", "body", None)]),
    ("bold-group",  "{\\b %s}",                        [("tok", "body", "group")]),
    ("par",         "\\par ",                          [("sep", "par")]),
    ("par-nl",      "\\par\r\n",                       [("sep", "par")]),
    ("tab",         "\\tab ",                          [("sep", "tab")]),
    ("line",        "\\line ",                         [("sep", "line")]),
    ("cell",        "\\cell ",                         [("sep", "cell-mark")]),
    ("row",         "\\cell\\row ",                    [("sep", "cell-mark")]),
    # a hard page / section break is not among the boundaries the property lists (paragraph, cell,
    # line-break, tab): no separation is demanded for it (weaker reading, see DESIGN 7)
    ("page",        "\\page ",                         [("nothing", "page")]),
    ("sect",        "\\sect ",                         [("nothing", "sect")]),
    ("hex",         "\\'e9",                           [("chars", "hex")]),
    ("uni-q",       "\\u233?",                         [("chars", "unicode")]),
    ("uni-hex",     "\\u8364\\'80",                    [("chars", "u-fallback")]),
    ("uni-sp-hex",  "\\u8364 \\'80",                   [("chars", "u-fallback")]),
    ("uni-letter",  "\\u233e",                          [("chars", "u-fallback")]),
    ("uni-neg",     "\\u-3913?",                       [("chars", "unicode")]),
    ("star-dest",   "{\\*\\dest %s}",                  [("tok", "excl", "star-destination")]),
    ("fonttbl",     "{\\fonttbl{\\f0\\fswiss %s;}}",   [("tok", "excl", "fonttbl")]),
    ("info",        "{\\info{\\title %s}}",            [("tok", "excl", "info")]),
    ("header",      "{\\header \\pard %s\\par}",       [("tok", "excl", "header")]),
    ("footer",      "{\\footer \\pard %s\\par}",       [("tok", "excl", "footer")]),
    ("deleted",     "{\\deleted %s}",                  [("tok", "excl", "deleted")]),
    ("annotation",  "{\\*\\annotation %s}",            [("tok", "excl", "annotation")]),
    ("ul",          "{\\ul %s}",                       [("tok", "body", "u-word")]),
    ("ulnone",      "\\ulnone ",                       [("nothing", "u-word")]),
    ("uc1",         "\\uc1 ",                          [("nothing", "u-word")]),
    ("escaped",     "\\\\\\{\\}",                      [("chars", "escaped")]),
    ("space",       " ",                               [("nothing", "space")]),
    ("pard",        "\\pard\\plain\\fs24 ",            [("nothing", "format")]),
    ("nbsp",        "\\~",                             [("chars", "nbsp")]),
    ("field",       "{\\field{\\*\\fldinst HYPERLINK \"http://x/\"}{\\fldrslt %s}}", [("tok", "body", "field-result")]),
    ("nested",      "{\\i {\\b %s}}",                  [("tok", "body", "group")]),
    ("pict",        "{\\pict\\wmetafile8 0100090000}", [("nothing", "pict")]),
]
RTF_DECO = "\xe9\u20ac\\{}\xa0\xad\uf0b7"


def k4_rtf(ctx):
    import sharepoint2text
    ref = Ref()
    names = ctx.params.get("lexemes") or [l[0] for l in RTF_LEXEMES]
    table = {l[0]: l for l in RTF_LEXEMES}
    L = ctx.params.get("L", 2)
    n = 1 + ctx.choice("n_lexemes", L)
    src = []
    src.append(ref.tok())                    # leading body token
    used = []
    for i in range(n):
        if i == 0 and ctx.params.get("first"):
            name = ctx.params["first"]
        else:
            name = names[ctx.choice("lexeme%d" % i, len(names))]
        used.append(name)
        _, fmt, sem = table[name]
        arg = None
        for item in sem:
            if item[0] == "tok":
                arg = ref.tok(item[1], extra=(item[2],) if item[2] else ())
            elif item[0] == "sep":
                ref.sep(item[1])
            else:
                ref.items.append(("void", (item[1],)))
        src.append(fmt % arg if "%s" in fmt else fmt)
        # a body token between lexemes (always after the last one): boundaries become observable
        if i == n - 1 or ctx.flag("token_after%d" % i):
            src.append(ref.tok())
    rtf = "{\\rtf1\\ansi\\ansicpg1252\\deff0 " + "".join(src) + "}"
    info = {"rtf": rtf[:400], "lexemes": used}
    try:
        doc = next(sharepoint2text.read_rtf(io.BytesIO(rtf.encode("cp1252")), "x.rtf"))
        out = doc.get_full_text()
    except Exception as e:
        ctx.fail("extractor-raised", exc=type(e).__name__, msg=str(e)[:100], **info)
        return
    info["out"] = out[:300]
    only = None
    if ctx.perturb == "header_is_body":
        ex = ref.tokens("excl")
        ctx.assume(len(ex) > 0)
        i = ref.items.index(ex[0])
        ref.items[i] = ("tok", ex[0][1], "body", ex[0][3])
        only = ex[0][1]
    _judge(ctx, "K4", ref, [("text", out)], deco_chars=RTF_DECO, info=info, only_token=only, rules=K4_RULES)


def _k4_parts(tier):
    L = 2 if tier == "quick" else 3
    names = [l[0] for l in RTF_LEXEMES]
    if tier == "quick":
        return [{"L": L}]
    # thorough: partition by the first lexeme
    return [{"L": L, "first": nm} for nm in names]


def _k4_targets():
    from sharepoint2text.parsing.extractors.ms_legacy import rtf_extractor as rx
    return [rx._RtfParser._strip_rtf_full_with_pages, rx._RtfParser._extract_body_text, rx._RtfParser._is_skip_destination,
            rx._RtfParser.parse, rx.read_rtf]


# =======================================================================================
# K5  sheet-to-text: xlsx (_read_sheet_data/_format_sheet_as_text), xls (_read_content on a
#     fake xlrd book, symbolic cell type), ods (_extract_sheet, symbolic repeat attributes)
# =======================================================================================

K5_RULES = {
    "xlsx": [
        ("xlsx-unnamed-placeholder-in-sheet-text", ("foreign-text-in-output",), (), ()),
    ],
    "xls": [],
    "ods": [
        ("ods-cell-comment-in-sheet-text", ("excluded-text-leaks",), ("annotation",), ()),
        ("ods-rows-inside-row-group-or-header-rows-lost", ("body-text-lost",), ("row-group", "header-rows"), ()),
    ],
}

CELL_KINDS = ["tok", "empty", "estr", "blank", "spaced", "int", "float-int", "float", "bool", "two-par", "comment"]


class Grid:
    """abstract sheet: rows x cols of (kind, python value, display token or None)"""

    def __init__(self, ctx, ref, fmt):
        self.ctx, self.ref, self.fmt = ctx, ref, fmt
        self.num = 9100

    def cell(self, kind):
        """-> (kind, value, [display tokens])"""
        ref = self.ref
        if kind == "tok":
            s = ref.tok()
            return (kind, s, [s])
        if kind == "spaced":
            s = ref.tok(shape=1)
            return (kind, s, [s])
        if kind in ("int", "float-int", "float"):
            self.num += 1
            shown = str(self.num) + (".5" if kind == "float" else "")
            ref.n += 1
            ref.items.append(("tok", shown, "body", ref.feats((kind,))))
            val = self.num if kind == "int" else (float(self.num) if kind == "float-int" else self.num + 0.5)
            return (kind, val, [shown])
        if kind == "bool":
            return (kind, True, [])
        if kind == "two-par":
            a = ref.tok()
            ref.sep("cell-paragraph")
            b = ref.tok()
            return (kind, (a, b), [a, b])
        if kind == "comment":
            s = ref.tok()
            x = ref.tok("excl", extra=("annotation",))
            return (kind, (s, x), [s])
        return (kind, {"empty": None, "estr": "", "blank": " "}[kind], [])

    def build(self, focus_kinds):
        ctx, ref = self.ctx, self.ref
        R = 1 + ctx.choice("rows", ctx.params.get("R", 3))
        C = 1 + ctx.choice("cols", ctx.params.get("C", 2))
        fpos = [(0, 0), (R - 1, C - 1)][ctx.choice("focus_at", 2)] if R * C > 1 else (0, 0)
        rows = []
        for r in range(R):
            ref.sep("row")
            row = []
            for c in range(C):
                ref.sep("cell")
                if (r, c) == fpos:
                    ref.push("focus-cell")
                    row.append(self.cell(focus_kinds[ctx.choice("focus_kind", len(focus_kinds))]))
                    ref.pop()
                else:
                    row.append(self.cell("empty" if ctx.flag("empty_%d_%d" % (r, c)) else "tok"))
                ref.sep("cell")
            rows.append(row)
            ref.sep("row")
        self.fpos = fpos
        return rows


class _FakeWs:
    def __init__(self, rows):
        self._rows = rows

    def iter_rows(self, values_only=True):
        for r in self._rows:
            yield tuple(r)


class _FakeXlCell:
    def __init__(self, ctype, value):
        self.ctype, self.value = ctype, value


class _FakeXlSheet:
    def __init__(self, name, cells):
        self.name = name
        self._cells = cells
        self.nrows = len(cells)
        self.ncols = max((len(r) for r in cells), default=0)

    def cell(self, r, c):
        return self._cells[r][c]


class _FakeXlBook:
    datemode = 0

    def __init__(self, sheets):
        self._sheets = sheets

    def sheets(self):
        return self._sheets


# xlrd documentation: XL_CELL_EMPTY 0, TEXT 1, NUMBER 2, DATE 3, BOOLEAN 4, ERROR 5, BLANK 6
XL_TYPES = {0: "empty", 1: "text", 2: "number", 3: "date", 4: "boolean", 5: "error", 6: "blank"}


def k5_sheets(ctx):
    fmt = ctx.params["fmt"]
    ref = Ref()
    g = Grid(ctx, ref, fmt)
    name = "Sheetname"
    deco = [name, ".0"]
    info = {"fmt": fmt}
    if fmt == "xlsx":
        import sharepoint2text.parsing.extractors.ms_modern.xlsx_extractor as xm
        from sharepoint2text.parsing.extractors.data_types import XlsxContent
        kinds = [k for k in CELL_KINDS if k not in ("two-par", "comment")]
        rows = g.build(kinds)
        values = [[c[1] for c in row] for row in rows]
        info["grid"] = repr(values)[:300]
        try:
            if ctx.concrete:
                # replay: a real workbook written and re-read by openpyxl, through the public reader
                import openpyxl
                import sharepoint2text
                wb = openpyxl.Workbook()
                ws = wb.active
                ws.title = name
                for r, row in enumerate(values, start=1):
                    for c, v in enumerate(row, start=1):
                        if v is not None:
                            ws.cell(row=r, column=c, value=v)
                bio = io.BytesIO()
                wb.save(bio)
                bio.seek(0)
                doc = next(sharepoint2text.read_xlsx(bio, "x.xlsx"))
                out = doc.get_full_text()
            else:
                records, all_rows = xm._read_sheet_data(_FakeWs(values))
                text = xm._format_sheet_as_text(all_rows)
                sheets = [xm.XlsxSheet(name=name, data=all_rows, text=text, images=[])]
                out = XlsxContent(sheets=sheets).get_full_text()
        except Exception as e:
            ctx.fail("extractor-raised", exc=type(e).__name__, msg=str(e)[:100], **info)
            return
        deco.append("True")
    elif fmt == "xls":
        import sharepoint2text.parsing.extractors.ms_legacy.xls_extractor as xl
        from sharepoint2text.parsing.extractors.data_types import XlsContent
        # focus cell: SYMBOLIC xlrd cell type; the value is what xlrd stores for that type
        t = ctx.fresh_int("focus_ctype", 0, 6)
        tname = None
        for code, nm_ in XL_TYPES.items():
            if t == code:
                tname = nm_
                break
        kinds = {"empty": "empty", "blank": "estr", "text": "tok", "number": ("int", "float-int", "float"),
                 "boolean": "bool", "date": "date", "error": "error"}[tname]
        if isinstance(kinds, tuple):
            kinds = kinds[ctx.choice("number_form", 3)]
        if kinds in ("date", "error"):
            rows = g.build(["empty"])
        else:
            rows = g.build([kinds])
        cells = []
        for r, row in enumerate(rows):
            line = []
            for c, (kind, val, shown) in enumerate(row):
                if (r, c) == g.fpos:
                    if kinds == "date":
                        val = 45000.0
                        deco.append("2023-03-15")
                    elif kinds == "error":
                        val = 7
                        # the error cell's displayed text (xlrd error code 7 = #DIV/0!); the generic
                        # placeholder is accepted as well
                        deco.append("#ERROR")
                        deco.append("#DIV/0!")
                    elif kinds == "bool":
                        val = 1
                    elif kinds in ("int", "float-int"):
                        val = float(val)        # xlrd stores every number as float
                    elif val is None:
                        val = ""
                    line.append(_FakeXlCell(t, val))
                else:
                    line.append(_FakeXlCell(1 if kind == "tok" else 0, val if kind == "tok" else ""))
            cells.append(line)
        info["grid"] = repr([[(XL_TYPES.get(c.ctype) if isinstance(c.ctype, int) else tname, c.value) for c in row]
                             for row in cells])[:300]
        book = _FakeXlBook([_FakeXlSheet(name, cells)])
        try:
            with ctx.stub(xl.xlrd, open_workbook=lambda **kw: book):
                sheets = xl._read_content(io.BytesIO(b""))
            out = XlsContent(sheets=sheets, full_text="\n\n".join(s_.text for s_ in sheets)).get_full_text()
        except Exception as e:
            ctx.fail("extractor-raised", exc=type(e).__name__, msg=str(e)[:100], **info)
            return
        deco += ["True", "False"]
    else:
        import sharepoint2text.parsing.extractors.open_office.ods_extractor as od
        import sharepoint2text.parsing.extractors.open_office._shared as sh
        from sharepoint2text.parsing.extractors.data_types import OdsContent
        rows = g.build(CELL_KINDS)
        wrap = ("none", "header-rows", "row-group")[ctx.choice("first_row_wrapper", 3)]
        # repeat attribute of the focus cell (part "cell") or of its row (part "row"): symbolic index k,
        # value k+1 for k < rep_max, else 100 + (k - rep_max)  -> 1..rep_max, 100, 101
        rmax = ctx.params.get("rep_max", 3)
        fkind = rows[g.fpos[0]][g.fpos[1]][0]
        crep = rrep = 1
        kvar = None
        if fkind in ("tok", "empty", "comment"):
            kvar = ctx.fresh_int("repeat_index", 0, rmax + 1)
            if ctx.concrete:
                val = kvar + 1 if kvar < rmax else 100 + (kvar - rmax)
            else:
                import z3
                val = S.SymInt(z3.If(kvar.z < rmax, kvar.z + 1, 100 + (kvar.z - rmax)))
            if ctx.params.get("repeat", "cell") == "cell":
                crep = val
            else:
                rrep = val
        table = ET.Element(TABLE + "table")
        table.set(TABLE + "name", name)
        ET.SubElement(table, TABLE + "table-column")
        for r, row in enumerate(rows):
            holder = table
            if r == 0 and wrap != "none":
                holder = ET.SubElement(table, TABLE + ("table-header-rows" if wrap == "header-rows" else "table-row-group"))
            tr = ET.SubElement(holder, TABLE + "table-row")
            if r == g.fpos[0]:
                tr.set(TABLE + "number-rows-repeated", str(rrep) if isinstance(rrep, int) else rrep)
            for c, (kind, val, shown) in enumerate(row):
                tc = ET.SubElement(tr, TABLE + "table-cell")
                if (r, c) == g.fpos:
                    tc.set(TABLE + "number-columns-repeated", str(crep) if isinstance(crep, int) else crep)
                if kind in ("tok", "spaced", "estr", "blank"):
                    tc.set(OFFICE + "value-type", "string")
                    ET.SubElement(tc, TEXT + "p").text = val
                elif kind in ("int", "float-int", "float"):
                    tc.set(OFFICE + "value-type", "float")
                    tc.set(OFFICE + "value", shown[0])
                    ET.SubElement(tc, TEXT + "p").text = shown[0]
                elif kind == "bool":
                    tc.set(OFFICE + "value-type", "boolean")
                    tc.set(OFFICE + "boolean-value", "true")
                    ET.SubElement(tc, TEXT + "p").text = "TRUE"
                elif kind == "two-par":
                    tc.set(OFFICE + "value-type", "string")
                    ET.SubElement(tc, TEXT + "p").text = val[0]
                    ET.SubElement(tc, TEXT + "p").text = val[1]
                elif kind == "comment":
                    tc.set(OFFICE + "value-type", "string")
                    an = ET.SubElement(tc, OFFICE + "annotation")
                    ET.SubElement(an, DC + "date").text = "2024-01-01T00:00:00"
                    ET.SubElement(an, TEXT + "p").text = val[1]
                    ET.SubElement(tc, TEXT + "p").text = val[0]
        info["doc"] = _show(table)[:500]
        info["wrapper"] = wrap
        try:
            with ctx.shadow(od, int=S.IntShadow), ctx.shadow(sh, int=S.IntShadow):
                sheet, _ = od._extract_sheet(None, table, 1, 0)
            out = OdsContent(sheets=[sheet]).get_full_text()
        except Exception as e:
            ctx.fail("extractor-raised", exc=type(e).__name__, msg=str(e)[:100], **info)
            return
        nc = nr = 1
        if kvar is not None:
            kv = ctx.conc(kvar, 0, rmax + 1)
            n_ = kv + 1 if kv < rmax else 100 + (kv - rmax)
            if ctx.params.get("repeat", "cell") == "cell":
                nc = n_
            else:
                nr = n_
        info["cell_repeat"], info["row_repeat"] = nc, nr
        # expected multiplicities: the focus cell nc times, every cell of the focus row nr times
        frow = g.fpos[0]
        counts = {}
        for r, row in enumerate(rows):
            for c, (kind, val, shown) in enumerate(row):
                for s_ in shown:
                    counts[s_] = (nr if r == frow else 1) * (nc if (r, c) == g.fpos else 1)
        ref.count = counts
        if wrap != "none":
            first_row_tokens = {s_ for (kind, val, shown) in rows[0] for s_ in shown}
            ref.items = [(it[0], it[1], it[2], tuple(it[3]) + (wrap,)) if (it[0] == "tok" and it[1] in first_row_tokens)
                         else it for it in ref.items]
        deco += ["TRUE", "true"]
        if ctx.concrete:
            import sharepoint2text
            body = ET.Element(OFFICE + "spreadsheet")
            body.append(table)
            doc = next(sharepoint2text.read_ods(_odf_file("ods", body), "x.ods"))
            ctx.require(doc.get_full_text() == out, "public-api-differs-from-kernel", public=doc.get_full_text()[:200], **info)
    out = str(out)
    info["out"] = out[:300]
    only = None
    if ctx.perturb == "expect_cell_twice":
        toks = ref.tokens("body")
        ctx.assume(len(toks) > 0)
        cnt = dict(getattr(ref, "count", {}))
        cnt[toks[0][1]] = cnt.get(toks[0][1], 1) + 1
        ref.count = cnt
        only = toks[0][1]
    _judge(ctx, "K5", ref, [("text", out)], deco_strings=deco, info=info, only_token=only, rules=K5_RULES[fmt])


def _k5_parts(tier):
    R, C = (3, 2) if tier == "quick" else (3, 3)
    ods = {"fmt": "ods", "R": 2 if tier == "quick" else 3, "C": 2, "rep_max": 2 if tier == "quick" else 3}
    return [{"fmt": "xlsx", "R": R, "C": C}, {"fmt": "xls", "R": R, "C": C},
            dict(ods, repeat="cell"), dict(ods, repeat="row")]


def _k5_targets():
    import sharepoint2text.parsing.extractors.ms_modern.xlsx_extractor as xm
    import sharepoint2text.parsing.extractors.ms_legacy.xls_extractor as xl
    import sharepoint2text.parsing.extractors.open_office.ods_extractor as od
    return [xm._read_sheet_data, xm._format_sheet_as_text, xm._format_value_for_display, xl._read_content,
            xl._get_cell_values, xl._get_cell_value, xl._format_sheet_as_text, od._extract_sheet, od._extract_cell_value]


# =======================================================================================
# K6  presentation text plumbing: PPT text blocks (symbolic text type) and the PPTX slide walk
#     (symbolic shape positions y/x incl. equal ones, shapes without xfrm, symbolic paragraph-child name)
# =======================================================================================

PML = "{http://schemas.openxmlformats.org/presentationml/2006/main}"
REL = "{http://schemas.openxmlformats.org/officeDocument/2006/relationships}"

K6_RULES = {
    "ppt": [
        ("ppt-paragraph-and-line-breaks-deleted", ("boundary-merged",), ("block-paragraph",), ()),
    ],
    "pptx": [
        ("pptx-alternatecontent-fallback-shape-in-text", ("excluded-text-leaks",), ("ac-fallback",), ()),
        # a p:graphicFrame (table) and a p:sp that FOLLOWS it in the slide part share a position (equal a:off or
        # both without xfrm) and the text of the p:sp is emitted first
        ("pptx-table-frame-tied-with-later-shape-read-after-it", ("body-text-reordered",), (),
         ("tied-frame-before-sp", "tied-sp-after-frame")),
    ],
}

# [MS-PPT] 2.13.33 TextTypeEnum
PPT_TEXT_TYPES = {0: "title", 1: "body", 2: "notes", 4: "other", 5: "body", 6: "title", 7: "body", 8: "body"}
# ECMA-376 21.1.2: children of a:p
DML_PAR_CHILD_SPEC = {"r": "run", "br": "sep", "fld": "run", "pPr": "props", "endParaRPr": "props", "t": "invalid"}


class _FakePptxCtx:
    def __init__(self, root, comments):
        self.root, self.comments = root, comments

    def get_slide_relationships(self, path):
        return {}

    def get_slide_root(self, path):
        return self.root

    def get_comment_root(self, n):
        return self.comments

    def get_image_data(self, path):
        return None


def _pptx_file(slide_root, comment_root):
    ns = 'xmlns:p="%s" xmlns:r="%s"' % (PML[1:-1], REL[1:-1])
    pres = ('<?xml version="1.0" encoding="UTF-8"?><p:presentation %s><p:sldIdLst><p:sldId id="256" r:id="rId1"/>'
            '</p:sldIdLst></p:presentation>' % ns)
    rels = ('<?xml version="1.0" encoding="UTF-8"?><Relationships xmlns="http://schemas.openxmlformats.org/package/2006/'
            'relationships"><Relationship Id="rId1" Type="http://schemas.openxmlformats.org/officeDocument/2006/'
            'relationships/slide" Target="slides/slide1.xml"/></Relationships>')
    bio = io.BytesIO()
    with zipfile.ZipFile(bio, "w", zipfile.ZIP_DEFLATED) as z:
        z.writestr("[Content_Types].xml", '<?xml version="1.0"?><Types xmlns="http://schemas.openxmlformats.org/package/'
                   '2006/content-types"><Default Extension="xml" ContentType="application/xml"/></Types>')
        z.writestr("ppt/presentation.xml", pres)
        z.writestr("ppt/_rels/presentation.xml.rels", rels)
        z.writestr("ppt/slides/slide1.xml", '<?xml version="1.0" encoding="UTF-8"?>' + _xml(slide_root))
        if comment_root is not None:
            z.writestr("ppt/comments/comment1.xml", '<?xml version="1.0" encoding="UTF-8"?>' + _xml(comment_root))
    bio.seek(0)
    return bio


class PptxGen:
    def __init__(self, ctx):
        self.ctx = ctx
        self.ref = Ref()
        self.k = 0
        self.shapes = []       # (xml index, y SymInt/int, list of ref items)

    def nm(self, s):
        self.k += 1
        return "%s%d" % (s, self.k)

    @staticmethod
    def _coord(v):
        return str(v) if isinstance(v, int) else v

    def sp(self, parent, ph=None, y=None, fill=None, idx=None, x=100):
        sp = ET.SubElement(parent, PML + "sp")
        nv = ET.SubElement(sp, PML + "nvSpPr")
        ET.SubElement(nv, PML + "cNvPr").set("id", "2")
        ET.SubElement(nv, PML + "cNvSpPr")
        nvpr = ET.SubElement(nv, PML + "nvPr")
        if ph is not None:
            e = ET.SubElement(nvpr, PML + "ph")
            if ph:
                e.set("type", ph)
            if idx is not None:
                e.set("idx", idx)
        sppr = ET.SubElement(sp, PML + "spPr")
        if y is not None:
            xf = ET.SubElement(sppr, A + "xfrm")
            off = ET.SubElement(xf, A + "off")
            off.set("x", self._coord(x))
            off.set("y", self._coord(y))
        tb = ET.SubElement(sp, PML + "txBody")
        ET.SubElement(tb, A + "bodyPr")
        fill(tb)
        return sp

    def par(self, tb, cls="body", extra=()):
        ref = self.ref
        ref.sep("para")
        p = ET.SubElement(tb, A + "p")
        r = ET.SubElement(p, A + "r")
        ET.SubElement(r, A + "rPr")
        ET.SubElement(r, A + "t").text = ref.tok(cls, extra=extra)
        ET.SubElement(p, A + "endParaRPr")
        ref.sep("para")

    PAR_KINDS = ["r", "r-br-r", "fld", "sym", "r-r", "empty-r"]

    def focus_par(self, tb):
        ctx, ref = self.ctx, self.ref
        ref.sep("para")
        p = ET.SubElement(tb, A + "p")
        kinds = ctx.params.get("par_kinds") or self.PAR_KINDS
        self.n_focus = getattr(self, "n_focus", 0) + 1
        pinned = ctx.params.get("first_par_kind") if self.n_focus == 1 else None      # part split
        kind = pinned or kinds[ctx.choice("par_kind", len(kinds))]

        def run(text):
            r = ET.SubElement(p, A + "r")
            ET.SubElement(r, A + "t").text = text
        run(ref.tok())
        if kind == "r-br-r":
            ET.SubElement(p, A + "br")
            ref.sep("a-br")
            run(ref.tok())
        elif kind == "fld":
            f = ET.SubElement(p, A + "fld")
            f.set("type", "datetime1")
            ET.SubElement(f, A + "t").text = ref.tok(extra=("field",))
        elif kind == "r-r":
            run(ref.tok())
        elif kind == "empty-r":
            run(None)
            run(ref.tok())
        elif kind == "sym":
            loc = _sym_local(ctx, "par_child", ctx.params.get("sym_lens", (1, 2, 3)), "alpha")
            cls, name = _classify(loc, DML_PAR_CHILD_SPEC)
            x = ET.SubElement(p, _tag(ctx, A, loc))
            if cls == "run":
                ET.SubElement(x, A + "t").text = ref.tok(extra=("sym-" + name,))
            elif cls == "sep":
                ref.sep("a-" + name)
            elif cls == "props":
                pass
            else:
                ET.SubElement(x, A + "t").text = ref.tok("free")
                x.text = ref.tok("free")
            run(ref.tok())
        ref.sep("para")

    SHAPES = ["title", "body-2p", "textbox", "footer", "sldnum", "date", "group", "table", "ac-shape", "focus"]

    # inheritance class of a shape WITHOUT a:xfrm: its place comes from the slide layout (outside the
    # model); only shapes of the same class - which inherit the same place - are comparable
    NOPOS_CLASS = {"title": "ph:title", "body-2p": "ph:body:1", "footer": "ph:ftr:11", "sldnum": "ph:sldNum:12",
                   "date": "ph:dt:10"}

    def shape(self, tree, kind, y, x=100):
        """y None: the shape carries no a:xfrm / p:xfrm at all"""
        ctx, ref = self.ctx, self.ref
        start = len(ref.items)
        ref.sep("shape")
        if kind == "title":
            self.sp(tree, "title", y, lambda tb: self.par(tb, extra=("title",)), x=x)
        elif kind == "body-2p":
            self.sp(tree, "body", y, lambda tb: (self.par(tb), self.par(tb)), idx="1", x=x)
        elif kind == "textbox":
            self.sp(tree, None, y, lambda tb: self.par(tb), x=x)
        elif kind == "focus":
            self.sp(tree, None, y, lambda tb: self.focus_par(tb), x=x)
        elif kind == "footer":
            # slide footer placeholder: headers/footers are not part of the default text
            self.sp(tree, "ftr", y, lambda tb: self.par(tb, "excl", extra=("footer",)), idx="11", x=x)
        elif kind == "sldnum":
            self.sp(tree, "sldNum", y, lambda tb: self.par(tb, "free", extra=("slide-number",)), idx="12", x=x)
        elif kind == "date":
            self.sp(tree, "dt", y, lambda tb: self.par(tb, "free", extra=("date",)), idx="10", x=x)
        elif kind == "group":
            grp = ET.SubElement(tree, PML + "grpSp")
            ET.SubElement(grp, PML + "nvGrpSpPr")
            gp = ET.SubElement(grp, PML + "grpSpPr")
            ref.push("group")
            self.sp(grp, None, y, lambda tb: self.par(tb), x=x)
            ref.pop()
        elif kind == "table":
            fr = ET.SubElement(tree, PML + "graphicFrame")
            ET.SubElement(fr, PML + "nvGraphicFramePr")
            if y is not None:
                xf = ET.SubElement(fr, PML + "xfrm")
                off = ET.SubElement(xf, A + "off")
                off.set("x", self._coord(x))
                off.set("y", self._coord(y))
            gd = ET.SubElement(ET.SubElement(fr, A + "graphic"), A + "graphicData")
            gd.set("uri", "http://schemas.openxmlformats.org/drawingml/2006/table")
            tbl = ET.SubElement(gd, A + "tbl")
            ref.push("table")
            for ri in range(2):
                tr = ET.SubElement(tbl, A + "tr")
                for ci in range(2):
                    ref.sep("cell")
                    tc = ET.SubElement(tr, A + "tc")
                    tb = ET.SubElement(tc, A + "txBody")
                    self.par(tb)
                    if ri == 0 and ci == 0:
                        self.par(tb)
                    ref.sep("cell")
            ref.pop()
        elif kind == "ac-shape":
            # shape using a newer feature with a fallback rendition of the same content
            ac = ET.SubElement(tree, MC + "AlternateContent")
            ch = ET.SubElement(ac, MC + "Choice")
            ch.set("Requires", "a14")
            self.sp(ch, None, y, lambda tb: self.par(tb, extra=("ac-choice",)), x=x)
            fb = ET.SubElement(ac, MC + "Fallback")
            self.sp(fb, None, y, lambda tb: self.par(tb, "excl", extra=("ac-fallback",)), x=x)
        ref.sep("shape")
        self.shapes.append((y, start, len(ref.items)))


def _reading_order(n, before, seen_at):
    """a linear extension of the partial order `before` (before(i, j): the source DEFINES that shape i is
    read before shape j) over the shapes 0..n-1.  Pairs the source does not order are placed the way the
    output shows them (seen_at[i]: offset of the shape's first located body token, None if it has none), so
    nothing is demanded for them; if the output contradicts a defined pair, the returned order has the pair
    in the defined order and the order check of the oracle reports it.  Shapes without a located token
    cannot be compared and go last."""
    todo = [i for i in range(n) if seen_at[i] is not None]
    out = []
    while todo:
        minimal = [i for i in todo if not any(before(j, i) for j in todo if j != i)]
        pick = min(minimal or todo, key=lambda i: (seen_at[i], i))
        out.append(pick)
        todo.remove(pick)
    return out + [i for i in range(n) if seen_at[i] is None]


def k6_slides(ctx):
    fmt = ctx.params["fmt"]
    if fmt == "ppt":
        import sharepoint2text.parsing.extractors.ms_legacy.ppt_extractor as pp
        from sharepoint2text.parsing.extractors.data_types import PptContent
        ref = Ref()
        n_slides = 1 + (ctx.choice("extra_slide", 2) if ctx.params.get("slides", 1) > 1 else 0)
        RAW = ["%s", "%s\r%s", "%s\x0b%s", " %s \x00", "%s\r\r%s", "%s\t%s"]
        # blocks in SOURCE order, each with a symbolic text type; the reference is ordered afterwards
        plan = []
        slides_texts = []
        info = {}
        try:
            for si in range(n_slides):
                nb = 1 + ctx.choice("blocks_on_slide%d" % si, ctx.params.get("B", 3))
                blocks, blist = [], []
                for bi in range(nb):
                    if si == 0 and bi == 0:
                        # focus block: symbolic text type (or no TextHeaderAtom at all), raw text forms
                        t = ctx.fresh_int("text_type", 0, 8) if ctx.flag("has_text_header") else None
                        raw = RAW[ctx.choice("raw_text", len(RAW))]
                    else:
                        t = (0, 1, 2, 4)[ctx.choice("text_type%d_%d" % (si, bi), 4)]
                        raw = "%s"
                    start = len(ref.items)
                    ref.sep("block")
                    toks = []
                    for j in range(raw.count("%s")):
                        if j:
                            ref.sep("tab" if "\t" in raw else "block-paragraph")
                        toks.append(ref.tok())
                    ref.sep("block")
                    blocks.append((t, start, len(ref.items)))
                    blist.append(pp._make_text_block(pp._clean_text(raw % tuple(toks)), t))
                plan.append(blocks)
                slides_texts.append(blist)
            content = PptContent()
            pp._build_slides_from_text_blocks(content, slides_texts)
            out = content.get_full_text()
        except Exception as e:
            ctx.fail("extractor-raised", exc=type(e).__name__, msg=str(e)[:100], **info)
            return
        # documented order per slide: first title, bodies, others (further titles count as other); notes excluded
        items = []
        shown = []
        for blocks in plan:
            order = []
            seen_title = False
            for i, (t, a_, b_) in enumerate(blocks):
                cls = "other"
                if t is not None:
                    cls = PPT_TEXT_TYPES.get(t if isinstance(t, int) else ctx.conc(t, 0, 8), "other")
                grp = cls
                if cls == "title":
                    grp = "other" if seen_title else "title"
                    seen_title = True
                order.append(({"title": 0, "body": 1, "other": 2, "notes": 3}[grp], i, cls))
            shown.append([c for _, _, c in order])
            items.append(("sep", ("slide",)))
            for rank, i, cls in sorted(order):
                for it in ref.items[blocks[i][1]:blocks[i][2]]:
                    if it[0] == "tok":
                        it = ("tok", it[1], "excl" if cls == "notes" else "body", tuple(it[3]) + (cls,))
                    items.append(it)
            items.append(("sep", ("slide",)))
        ref.items = items
        info["blocks"] = shown
        info["out"] = out[:300]
        only = None
        if ctx.perturb == "notes_are_body":
            ex = ref.tokens("excl")
            ctx.assume(len(ex) > 0)
            i = ref.items.index(ex[0])
            ref.items[i] = ("tok", ex[0][1], "body", ex[0][3])
            only = ex[0][1]
        _judge(ctx, "K6", ref, [("text", out)], info=info, only_token=only, rules=K6_RULES["ppt"])
        return
    # ---- pptx slide walk
    import sharepoint2text.parsing.extractors.ms_modern.pptx_extractor as px
    from sharepoint2text.parsing.extractors.data_types import PptxContent
    g = PptxGen(ctx)
    ref = g.ref
    root = ET.Element(PML + "sld")
    tree = ET.SubElement(ET.SubElement(root, PML + "cSld"), PML + "spTree")
    ET.SubElement(tree, PML + "nvGrpSpPr")
    ET.SubElement(tree, PML + "grpSpPr")
    n = 1 + ctx.choice("n_shapes", ctx.params.get("N", 2))
    # Shape positions.  Every shape either carries an offset (a:off y in 0..3, x in 0..1, x 1000, both symbolic
    # and NOT assumed distinct: the extractor's own comparisons split equal / smaller / larger) or no xfrm
    # at all.  Token numbers rise or fall with the document order of the shapes (a flag), so an order taken
    # from the text of the items is distinguishable from the document order either way.
    nopos = ctx.params.get("nopos", True)
    desc = ctx.params.get("tok_desc")
    if desc is None:
        desc = ctx.flag("tokens_descending") if n > 1 else False
    pos = []
    kinds = []
    for i in range(n):
        first = ctx.params.get("first")
        kind = first if (first and i == 0) else g.SHAPES[ctx.choice(g.nm("shape"), len(g.SHAPES))]
        kinds.append(kind)
        ref.n = 10 * ((n - 1 - i) if desc else i)
        if nopos and ctx.flag("no_xfrm%d" % i):
            pos.append(None)
            g.shape(tree, kind, None)
            continue
        y = ctx.fresh_int("y%d" % i, 0, 3)
        x = ctx.fresh_int("x%d" % i, 0, 1)
        pos.append((y, x))
        g.shape(tree, kind, *[v * 1000 if isinstance(v, int) else S.SymInt(v.z * 1000) for v in (y, x)])
    ref.n = 10 * n
    comments = None
    if not ctx.params.get("no_comment") and ctx.flag("has_comment"):
        comments = ET.Element(PML + "cmLst")
        cm = ET.SubElement(comments, PML + "cm")
        cm.set("authorId", "0")
        cm.set("dt", "2024-01-01T00:00:00")
        ET.SubElement(cm, PML + "text").text = ref.tok("excl", extra=("comment",))
    info = {"doc": _show(tree)[:700], "shapes": kinds}
    try:
        with ctx.shadow(px, int=S.IntShadow):
            slide = px._process_slide_from_context(_FakePptxCtx(root, comments), "ppt/slides/slide1.xml", 1)
        out = PptxContent(slides=[slide]).get_full_text()
    except Exception as e:
        ctx.fail("extractor-raised", exc=type(e).__name__, msg=str(e)[:100], **info)
        return
    out = str(out)
    # Reading order (reference).  Documented: shapes are read top-to-bottom, then left-to-right, i.e. by
    # (y, x) of a:off.  Shapes with EQUAL offsets are not ordered by position; the only order the source
    # gives them is the order of the slide part (the z-order), and "same relative order as in the source"
    # demands that one - whatever the kind or the text of the shapes.  A shape without xfrm has no position
    # in the slide part (layout inheritance is outside the model): it is comparable only with shapes of the
    # same inheritance class (plain shapes among themselves, placeholders of the same type and idx), again
    # by the order of the slide part; nothing is demanded between it and any other shape.
    rel = {}
    reverse_ties = ctx.perturb == "ties_in_reverse"

    def tie(i, j):
        return (i > j) if reverse_ties else (i < j)

    tied = set()
    for i in range(n):
        for j in range(n):
            if i == j:
                continue
            a_, b_ = pos[i], pos[j]
            if a_ is None and b_ is None:
                same = PptxGen.NOPOS_CLASS.get(kinds[i], "plain") == PptxGen.NOPOS_CLASS.get(kinds[j], "plain")
                rel[i, j] = same and tie(i, j)
                if same:
                    tied.add((i, j))
            elif a_ is None or b_ is None:
                rel[i, j] = False
            elif a_[0] < b_[0]:
                rel[i, j] = True
            elif a_[0] == b_[0] and a_[1] < b_[1]:
                rel[i, j] = True
            elif a_[0] == b_[0] and a_[1] == b_[1]:
                rel[i, j] = tie(i, j)
                tied.add((i, j))
            else:
                rel[i, j] = False
    seen_at = []
    for (_, a_, b_) in g.shapes:
        at = [out.find(it[1]) for it in ref.items[a_:b_] if it[0] == "tok" and it[2] == "body"]
        at = [v for v in at if v >= 0]
        seen_at.append(at[0] if at else None)
    order = _reading_order(n, lambda i, j: rel[i, j], seen_at)
    info["pos"] = [None if q is None else ([int(q[0]), int(q[1])] if ctx.concrete else "sym") for q in pos]
    info["tied"] = sorted(list(q) for q in tied if q[0] < q[1])
    info["out"] = out[:300]
    tail = ref.items[g.shapes[-1][2]:] if g.shapes else []
    head = ref.items[:g.shapes[0][1]] if g.shapes else []
    items = list(head)
    for si in order:
        seg = ref.items[g.shapes[si][1]:g.shapes[si][2]]
        extra = ()
        if any((si, j) in tied for j in range(n)):
            extra += ("tied-position",)
        # element kinds of tied shapes (for the failure class): a graphic frame followed by a tied p:sp
        if any(kinds[si] == "table" and kinds[j] != "table" and (si, j) in tied for j in range(si + 1, n)):
            extra += ("tied-frame-before-sp",)
        if any(kinds[j] == "table" and kinds[si] != "table" and (j, si) in tied for j in range(si)):
            extra += ("tied-sp-after-frame",)
        if extra:
            seg = [("tok", it[1], it[2], tuple(it[3]) + extra) if it[0] == "tok" else it for it in seg]
        items += seg
    ref.items = items + list(tail)
    if ctx.concrete:
        import sharepoint2text
        doc = next(sharepoint2text.read_pptx(_pptx_file(root, comments), "x.pptx"))
        ctx.require(doc.get_full_text() == out, "public-api-differs-from-kernel", public=doc.get_full_text()[:200], **info)
    only = None
    if ctx.perturb == "footer_is_body":
        ex = ref.tokens("excl")
        ctx.assume(len(ex) > 0)
        i = ref.items.index(ex[0])
        ref.items[i] = ("tok", ex[0][1], "body", ex[0][3])
        only = ex[0][1]
    _judge(ctx, "K6", ref, [("text", out)], info=info, only_token=only, rules=K6_RULES["pptx"])


def _k6_parts(tier):
    parts = [{"fmt": "ppt", "B": 2, "slides": 1 if tier == "quick" else 2}]
    lens = (1, 2, 3) if tier == "quick" else (1, 2, 3, 10)
    plain = [k for k in PptxGen.PAR_KINDS if k != "sym"]
    for first in PptxGen.SHAPES:
        if first == "focus":
            # the largest part: split by the kind of the first focus paragraph
            parts += [{"fmt": "pptx", "N": 2, "first": first, "par_kinds": plain, "first_par_kind": k} for k in plain]
        else:
            parts.append({"fmt": "pptx", "N": 2, "first": first, "par_kinds": plain})
    if tier != "quick":
        # three shapes (tie groups of three, a tied pair around / beside a third shape)
        for first in PptxGen.SHAPES:
            if first != "focus":
                parts.append({"fmt": "pptx", "N": 3, "first": first, "par_kinds": ["r"], "no_comment": True})
    for ln in lens:
        parts.append({"fmt": "pptx", "N": 1 if tier == "quick" else 2, "first": "focus", "par_kinds": ["sym"], "sym_lens": (ln,)})
    return parts


def _k6_targets():
    import sharepoint2text.parsing.extractors.ms_legacy.ppt_extractor as pp
    import sharepoint2text.parsing.extractors.ms_modern.pptx_extractor as px
    from sharepoint2text.parsing.extractors import data_types as dt
    return [pp._build_slides_from_text_blocks, pp._clean_text, pp._make_text_block, dt.PptContent.get_full_text,
            px._process_slide_from_context, px._extract_text_from_paragraphs, px._extract_table_from_graphic_frame,
            px._get_shape_position, dt.PptxSlide.get_text, dt.PptxContent.get_full_text]


KERNELS = [
    Kernel("K1", "DOCX body walk on bounded abstract documents (symbolic run-child names): tokens once, in order, "
                 "boundaries kept, Fallback/deleted/field-code text absent",
           k1_docx, targets=_k1_targets, parts=_k1_parts,
           perturb=[("fallback_is_body", {"space": "inline", "M": 1, "sym_lens": (1,), "first_inline": None,
                                          "inline_kinds": ["para-ac"]}),
                    ("expect_merged_paragraphs", {"space": "inline", "M": 1, "sym_lens": (1,), "first_inline": None,
                                                  "inline_kinds": ["run"]}),
                    ("expect_merged_at_attributed_separator", {"space": "inline", "M": 1, "sym_lens": (1,),
                                                               "first_inline": "run-sep-attr", "attr_lens": (4,)})],
           symbolic=["local name of one run child per run-sym item (length 1,2,3,7; thorough +4,9,12,13): the walker's "
                     "own == / endswith tests split the names, the reference classifies them by ECMA-376 17.3.3",
                     "value of the attribute of a separator element (letters, length 4,6,12; thorough +3,5,13 - page, "
                     "column, textWrapping, all, left ... and every other value): whatever test the walker applies to "
                     "it splits the values; the reference (17.3.3.1: every break separates) does not depend on it"],
           choices=["separator child of a run in general form: element br / cr / tab / ptab x in the run of the surrounding "
                    "text or in a run of its own x no attribute / the schema's attributes (br: w:type, w:clear; ptab: w:alignment) (dedicated parts, any item "
                    "after it, all three containers)",
                    "number and kind of inline items of the focus paragraph (run, run+tab/br/cr, hyperlink, ins, del, "
                    "inline sdt, fldSimple, smartTag, DrawingML text box with VML fallback, VML text box, blank/empty "
                    "run, token with inner space, complex field, paragraph-level AlternateContent)",
                    "container of the focus paragraph (body, table cell, block-level sdt)",
                    "block sequence (paragraph, table r x c <= 2x2 with first-cell variants incl. nested table, "
                    "cell-level sdt, text box in cell, row-level sdt; block-level sdt around paragraph/table; customXml)"],
           assumptions=["documents are real xml.etree trees as the OOXML reader hands them over",
                        "reading order = XML document order; a text box is separated from its anchor paragraph by "
                        "a paragraph boundary"],
           outside=["more than 2 (3) inline items / block items, tables beyond 2x2, nesting deeper than one level",
                    "formulas (C19), footnotes/comments parts, headers/footers (separate parts, never in the body)"],
           timeout={"quick": 100, "thorough": 1100}),
    Kernel("K2", "ODF text: shared element_text walker (symbolic text:c, symbolic child names), ODT body walk, "
                 "ODG / ODP page walk against the reference stream",
           k2_odf, targets=_k2_targets, parts=_k2_parts,
           perturb=[("note_is_body", {"fmt": "odt", "space": "inline", "M": 1, "c_range": (0, 1), "sym_lens": (1,),
                                      "inline_kinds": ["note"], "first_inline": None}),
                    ("one_more_space", {"fmt": "odt", "space": "inline", "M": 1, "c_range": (0, 2), "sym_lens": (1,),
                                        "inline_kinds": ["s-count", "s-default"], "first_inline": None})],
           symbolic=["text:c of a text:s (integer in [-1,3], thorough [-2,8]) through int() / > 0 / ' ' * n of the walker",
                     "local name of one inline child and of one block child in the text: namespace (lengths 1,3,4,10 / "
                     "1,4,7): the walkers' own ==, `in (p, h)` and `in skip_tags` tests split the names"],
           choices=["inline children of the focus paragraph (span, a, s, tab, line-break, note, annotation, text box, "
                    "bookmark, change marks)", "container (body paragraph, heading, table cell, list item, text box)",
                    "ODT blocks: p, h, list variants (nested, heading item, list-header), table variants (nested, list, "
                    "heading, text box in cell, header rows), section, tracked-changes, page frame, table of content",
                    "ODG/ODP shapes per page: text frame, custom shape, group, annotation, list in frame, frame inside a "
                    "paragraph, speaker notes, table frame"],
           stubs=["odp._extract_slide is called with ctx=None (no image in the generated frames)"],
           assumptions=["text:c >= 0 means exactly that many spaces (ODF 1.2 6.1.3); negative / non-numeric counts "
                        "carry no demand beyond the neighbouring tokens",
                        "ODP: order across title/body/other groups is not demanded (documented text_combined)"],
           outside=["styles.xml (headers/footers), more than 2 (3) inline / block items"],
           timeout={"quick": 100, "thorough": 1100}),
    Kernel("K3", "HTML tree builder + text walk and EPUB XHTML walker on generated event streams (symbolic inline "
                 "tag name): visible structure kept",
           k3_html, targets=_k3_targets, parts=_k3_parts,
           perturb=[("comment_is_body", {"target": "html", "space": "inline", "M": 1, "inline_kinds": ["comment"],
                                         "omit_end": False}),
                    ("inline_is_boundary", {"target": "epub", "space": "inline", "M": 1, "inline_kinds": ["b-nested"],
                                            "omit_end": False})],
           symbolic=["name of one inline element (lower-case letters/digits, length 1,2,3,5,6; thorough up to 10): the "
                     "handlers' / walker's own set-membership and equality tests split the names; the reference "
                     "classifies them from the HTML Living Standard (void, removed, block, inline, not rendered)"],
           choices=["inline items of the focus element (text, span, a, nested b/i, br, img, comment, blank, nbsp)",
                    "container (p, li, h2, div, td)", "blocks: p, div, headings (with br), lists (nested, paragraphs in "
                    "item), table r x c with first-cell variants (two paragraphs, br, nested table, list), caption, "
                    "tbody, th row, blockquote, pre, bare text, hr, dl; optional end tags omitted (p, li, td, tr)"],
           assumptions=["lowering to callbacks follows html.parser of this Python; validated at replay by rendering the "
                        "document and running the real feed() and the public read_html / read_epub",
                        "symbolic names are not table parts or html/head/body (contradictory markup)",
                        "EPUB: a token inside a table cell may appear in the chapter text or in the extracted tables"],
           outside=["attribute values with markup, character references other than &amp; &lt; &nbsp;, documents whose "
                    "text ends in an unterminated '&' (read_html never calls close())",
                    "MHTML MIME unwrapping, EPUB spine/zip plumbing"],
           timeout={"quick": 100, "thorough": 1100}),
    Kernel("K4", "RTF: the real reader (read_rtf -> _extract_body_text -> _strip_rtf_full_with_pages) on documents "
                 "assembled from a lexeme alphabet against a reference RTF reader",
           k4_rtf, targets=_k4_targets, parts=_k4_parts, strength="structure",
           perturb=[("header_is_body", {"L": 1, "lexemes": ["header"], "first": "header"})],
           choices=["1..L lexemes (L=2, thorough 3) from: text, groups, \\par \\tab \\line \\cell \\row \\page \\sect, "
                    "\\'hh, \\uN with ? / hex fallback, negative \\uN, \\* destination, fonttbl, info, header, footer, "
                    "\\deleted, annotation, \\ul \\ulnone \\uc1, escaped specials, pard/plain, \\~, field with result, "
                    "nested groups, picture", "a body token between two lexemes or not"],
           assumptions=["reference semantics from the RTF 1.9.1 specification: destinations marked \\* and fonttbl / info / "
                        "header / footer / pict are not body text; \\uN is followed by \\uc (default 1) fallback "
                        "characters that are skipped; \\cell / \\row / \\par / \\line / \\tab / \\page / \\sect are "
                        "boundaries; text marked \\deleted is a tracked deletion"],
           outside=["code pages other than 1252, \\bin data, tables' \\trowd geometry, more than L lexemes"],
           timeout={"quick": 100, "thorough": 1100}),
    Kernel("K5", "sheet-to-text of xlsx / xls / ods on abstract grids: every displayed cell once, row-major order, "
                 "cells separated, comments absent, nothing but cell text, sheet name and padding",
           k5_sheets, targets=_k5_targets, parts=_k5_parts,
           perturb=[("expect_cell_twice", {"fmt": "ods", "R": 1, "C": 2, "rep_max": 2, "repeat": "cell"})],
           symbolic=["ods: table:number-columns-repeated of the focus cell and table:number-rows-repeated of its row "
                     "(1..rep_max or 100..101) through int(), > 100 and list * n of the real _extract_sheet",
                     "xls: xlrd cell type of the focus cell (0..6): the extractor's own ctype tests split it, the "
                     "reference classifies it from the xlrd documentation"],
           choices=["grid rows x cols (<= 3 x 2, thorough 3 x 3), every other cell token or empty, focus cell at the first "
                    "or last position with kind from: token, None, '', ' ', inner space, int, integral float, float, bool, "
                    "two paragraphs (ods), cell with comment (ods)", "ods: first row inside table-header-rows / "
                    "table-row-group", "xls: number form"],
           stubs=["xlsx symbolic runs: worksheet stand-in with iter_rows(values_only=True) (replay: real workbook written "
                  "by openpyxl and read through read_xlsx)", "xls: xlrd.open_workbook -> fake book/sheet/cell objects",
                  "ods: _extract_sheet called with ctx=None (no images in the generated table)"],
           assumptions=["display text of an int n / integral float is str(n) (an added '.0' is accepted), of a float its repr",
                        "a cell repeated n times shows its text n times; booleans, dates and error cells carry no demand"],
           outside=["number formats (dates, currency, percentages), merged/covered cells, formulas' cached values, "
                    "xlrd's own BIFF parsing, openpyxl's XML parsing"],
           timeout={"quick": 100, "thorough": 1100}),
    Kernel("K6", "presentation text plumbing: PPT text blocks with symbolic text type through _clean_text / "
                 "_make_text_block / _build_slides_from_text_blocks / get_full_text; PPTX slide walk with symbolic shape "
                 "offsets (ties included), shapes without offsets and symbolic paragraph-child name",
           k6_slides, targets=_k6_targets, parts=_k6_parts,
           perturb=[("notes_are_body", {"fmt": "ppt", "B": 2, "slides": 1}),
                    ("footer_is_body", {"fmt": "pptx", "N": 1, "first": "footer", "sym_lens": (1,), "par_kinds": ["r"]}),
                    ("ties_in_reverse", {"fmt": "pptx", "N": 2, "first": "textbox", "sym_lens": (1,), "par_kinds": ["r"],
                                         "no_comment": True})],
           symbolic=["ppt: TextHeaderAtom text type of every block (0..8): the extractor's own set-membership tests "
                     "split it, the reference classifies it from [MS-PPT] TextTypeEnum",
                     "pptx: a:off y (0..3 x 1000) and x (0..1 x 1000) of every shape, NOT assumed distinct, through int() "
                     "and the extractor's two position sorts (tuple ==/< decide smaller / equal / larger per pair)",
                     "pptx: local name of one child of a:p (length 1,2,3; thorough +10)"],
           choices=["ppt: 1-2 slides, 1-B blocks, raw block text with \\r / \\x0b / \\t / NUL, block without TextHeaderAtom",
                    "pptx: 1-N shapes from title, body with two paragraphs, text box, footer / slide number / date "
                    "placeholders, group, table 2x2, AlternateContent shape with fallback, focus paragraph (run, br, "
                    "fld, empty run); slide comment",
                    "pptx: per shape offset present / no xfrm at all (empty p:spPr, frame without p:xfrm)",
                    "pptx: token numbers rising or falling with the order of the shapes in the slide part (an order "
                    "derived from item text or kind instead of the slide part shows either way)"],
           stubs=["pptx: _PptxContext stand-in handing over the generated slide / comment trees (replay: a real .pptx "
                  "through read_pptx)"],
           assumptions=["ppt: documented order title, body, other per slide; notes excluded",
                        "pptx: reading order = shape offsets top-to-bottom, then left-to-right (documented); shapes with "
                        "equal offsets keep the order of the slide part; a shape without xfrm is ordered only against "
                        "shapes of the same inheritance class (plain shapes / placeholders of equal type and idx), by "
                        "the order of the slide part - nothing is demanded between it and other shapes"],
           outside=["PPT record walk (_iter_records / SlideListWithText) on bytes, pptx slide order / relationships / "
                    "zip plumbing, the place a shape without offsets inherits from its layout, child offsets of groups"],
           timeout={"quick": 100, "thorough": 1100}),
    # "content of removed markup never appears in the full text" is the subject of C17; its kernel
    # (same harness function) is run here as well so that C02 sees breaks of that clause
    Kernel("K7", "removed HTML markup: content never appears, nothing else is lost (shared with C17/K1)",
           lambda ctx: __import__("vf.props.c17", fromlist=["x"]).k1(ctx),
           targets=lambda: __import__("vf.props.c17", fromlist=["x"])._targets(),
           parts=lambda tier: __import__("vf.props.c17", fromlist=["x"])._parts(tier),
           symbolic=["tag name of every inner start/end/self-closing tag of the removed element"],
           choices=["removable element", "inner items", "stray end tags"], core=False,
           timeout={"quick": 280, "thorough": 2400}),
]

META = {
    "level_text": "Six walkers that turn parsed documents into get_full_text() are executed on every abstract document of a "
                  "bounded grammar (DOCX body, ODF text/drawing/presentation pages, HTML/XHTML event streams, RTF lexeme "
                  "strings, xlsx/xls/ods grids, PPT text blocks / PPTX slide trees); structure is enumerated by solver "
                  "choices, element names, cell types, text:s counts, repeat attributes and shape offsets are symbolic so "
                  "that the walkers' own comparisons, int() conversions and sorts split the cases; on every feasible path "
                  "the output is compared with a reference stream written from the format specifications: each body token "
                  "exactly once, in reading order, boundary-separated tokens separated by whitespace, excluded text absent, "
                  "nothing foreign. 33 defect classes found this way are recorded as known findings with replayable witnesses.",
    "level_note": "Bounded-exhaustive over the stated grammars (<= 2-3 inline/block items, tables <= 2x2, one nesting level, "
                  "names up to 10-13 characters); trusted: xml.etree, html.parser lowering (validated at replay through the "
                  "real feed()), openpyxl/xlrd/zipfile hand-over; every counterexample and sampled passing path is re-run "
                  "on plain values and through the public read_* entry points on a generated file. Outside: PDF, DOC, "
                  "e-mail bodies, MHTML unwrapping, PPT/XLS byte-level record parsing, number formats.",
    "technique": "symbolic execution of the extractors' tree/text walkers on real ElementTree / parser-callback / fake "
                 "workbook inputs with symbolic names and integers (symrun proxies, per-fork z3 feasibility), reference "
                 "renderer oracle, failure-class signatures for known findings",
}
