"""C02 - main-text fidelity: nothing lost, duplicated, merged or leaked.

Every kernel builds a bounded ABSTRACT DOCUMENT (structure chosen by solver-enumerated
choices, some element names / counts symbolic) simultaneously as
  (a) the data structure the repository walker consumes (real xml.etree Elements, parser
      callback sequences, RTF text, fake workbook objects ...) and
  (b) a REFERENCE STREAM written from the property text and the file-format specs:
      tokens (class body / excluded / free) in reading order with the boundaries
      (paragraph, cell, tab, line break) between them.
The real walker runs on (a); the oracle `_judge` compares its output with (b):
  body token exactly once - tokens in source order - tokens separated by a boundary are
  separated by whitespace - excluded tokens absent - nothing but tokens, whitespace and
  documented decoration in the output.
Symbolic element names (CharStr) flow into the walkers' own ``==`` / ``in`` / ``endswith``
tests, symbolic counts (text:c, repeat attributes) into their arithmetic; the reference
classifies the same names from spec tables in the harness.  In concrete replay the
document is serialised and additionally pushed through the public read_* entry points.
"""
import io
import zipfile
from xml.etree import ElementTree as ET

from vf.core import Kernel
from vf import symrun as S

# =======================================================================================
# reference stream + oracle (shared by all kernels)
# =======================================================================================

LABELS = ("body-text-lost", "body-text-duplicated", "body-text-reordered", "boundary-merged",
          "excluded-text-leaks", "space-count-wrong", "foreign-text-in-output")


class Ref:
    """reference stream of an abstract document.  items:
       ("tok", text, cls, feats)   cls in body | excl | free
       ("sep", feats)              paragraph / cell / tab / line-break boundary
       ("exact", string, feats)    the two neighbouring tokens are separated by exactly this"""

    def __init__(self):
        self.items = []
        self.n = 0
        self.stack = []
        self.desc = []          # human-readable structure (for counterexample info)

    def push(self, f):
        self.stack.append(f)

    def pop(self):
        self.stack.pop()

    def feats(self, extra=()):
        return tuple(self.stack) + tuple(extra)

    def tok(self, cls="body", shape=0, extra=()):
        self.n += 1
        lead = {"body": "Q", "excl": "X", "free": "F"}[cls]
        s = "%s%02dk" % (lead, self.n)
        if shape == 1:
            s = "%s%02dk j%02d%s" % (lead, self.n, self.n, lead)      # token with an inner space
        self.items.append(("tok", s, cls, self.feats(extra)))
        return s

    def sep(self, *extra):
        self.items.append(("sep", self.feats(extra)))

    def exact(self, s, *extra):
        self.items.append(("exact", s, self.feats(extra)))

    def tokens(self, cls=None):
        return [it for it in self.items if it[0] == "tok" and (cls is None or it[2] == cls)]


def _known_entries(ctx):
    ids = ctx.params.get("known_active") or []
    if not ids:
        return []
    try:
        from vf.core import load_known
        return [e for e in load_known("C02") if e.get("id") in ids]
    except Exception:
        return []


def _is_known(ctx, kid, label, info, entries):
    from vf.core import _matches
    params = {a: b for a, b in ctx.params.items() if a != "known_active"}
    cex = {"label": label, "inputs": {}, "info": info, "params": params}
    return any(_matches(e, kid, cex) for e in entries)


def _judge(ctx, kid, ref, channels, deco_strings=(), deco_chars="", info=None, only_token=None):
    """channels: [(name, str)] - the observed text(s).  Collect every failure, report one
    that is not a recorded known finding first (so a known defect cannot mask another)."""
    info = dict(info or {})
    fails = []

    def fail(label, feats, **kw):
        d = dict(info)
        d.update(kw)
        d["feats"] = sorted(set(feats))
        fails.append((label, d))

    texts = [t for _, t in channels]
    where = {}
    for it in ref.tokens():
        _, s, cls, feats = it
        n = sum(t.count(s) for t in texts)
        if only_token is not None and s != only_token:
            if cls == "body" and n == 1:
                pass
            else:
                continue
        if cls == "body":
            if n == 0:
                fail("body-text-lost", feats, token=s)
            elif n > 1:
                fail("body-text-duplicated", feats, token=s, count=n)
            else:
                for ci, t in enumerate(texts):
                    p = t.find(s)
                    if p >= 0:
                        where[s] = (ci, p)
        elif cls == "excl":
            if n > 0:
                fail("excluded-text-leaks", feats, token=s, count=n)
    if only_token is None:
        # order and separation, per channel, between consecutive located body tokens
        for ci in range(len(texts)):
            prev = None
            between = []
            for it in ref.items:
                if it[0] != "tok":
                    if prev is not None:
                        between.append(it)
                    continue
                _, s, cls, feats = it
                if cls != "body" or s not in where or where[s][0] != ci:
                    if cls == "body" and s in where:
                        pass
                    # an intervening token of another class/channel voids "exact" demands
                    if prev is not None and cls in ("body", "free", "excl"):
                        between.append(("other",))
                    continue
                if prev is not None:
                    ps, pfe = prev
                    a, b = where[ps][1], where[s][1]
                    if b < a:
                        fail("body-text-reordered", set(pfe) | set(feats), token=s, before=ps)
                    else:
                        gap = texts[ci][a + len(ps):b]
                        seps = [x for x in between if x[0] == "sep"]
                        if seps and not any(ch.isspace() for ch in gap):
                            sf = set()
                            for x in seps:
                                sf |= set(x[1])
                            fail("boundary-merged", sf, left=ps, right=s, gap=gap)
                        ex = [x for x in between if x[0] == "exact"]
                        if ex and len(between) == len(ex):
                            want = "".join(x[1] for x in ex)
                            if gap != want:
                                fail("space-count-wrong", set(ex[0][2]), left=ps, right=s, gap=gap, want=want)
                prev = (s, feats)
                between = []
        # residual: nothing but tokens, whitespace, documented decoration
        for ci, t in enumerate(texts):
            r = t
            for it in sorted(ref.tokens(), key=lambda x: -len(x[1])):
                r = r.replace(it[1], "")
            for d in deco_strings:
                if d:
                    r = r.replace(d, "")
            r = "".join(ch for ch in r if not ch.isspace() and ch not in deco_chars)
            if r:
                fail("foreign-text-in-output", ref.feats(("residual",)), residual=r[:40], channel=channels[ci][0])
    ctx.require(True, "reached")
    if not fails:
        return
    entries = _known_entries(ctx)
    if entries:
        fresh = [f for f in fails if not _is_known(ctx, kid, f[0], f[1], entries)]
        if fresh:
            fails = fresh
    label, d = fails[0]
    ctx.fail(label, **d)


def _classify(loc, table):
    """spec class of a (possibly symbolic) local name: compares against the spec names of the
    same length (each comparison is a solver-decided fork in symbolic runs)"""
    for name, cls in table.items():
        if len(name) == len(loc) and (loc == name):
            return cls, name
    return "other", None


def _sym_local(ctx, name, lengths, lo=65, hi=122):
    n = lengths[ctx.choice(name + "_len", len(lengths))]
    return ctx.fresh_chars(name, n, lo, hi)


def _tag(ctx, ns, loc):
    """'{ns}local' with a possibly symbolic local part"""
    if isinstance(loc, str):
        return ns + loc
    return S.CharStr(ns) + loc


def _xml(elem):
    """serialise a tree whose tags are concrete (replay)"""
    return ET.tostring(elem, encoding="unicode")


def _show(elem, depth=0):
    """compact structure rendering that tolerates symbolic tags"""
    t = str(elem.tag)
    t = t.rsplit("}", 1)[-1] if "}" in t else t
    kids = "".join(_show(c, depth + 1) for c in elem) if depth < 12 else "..."
    tx = (elem.text or "")
    tl = (elem.tail or "")
    return "<%s>%s%s</>%s" % (t, tx, kids, tl)


# =======================================================================================
# K1  DOCX body walk
# =======================================================================================

W = "{http://schemas.openxmlformats.org/wordprocessingml/2006/main}"
MC = "{http://schemas.openxmlformats.org/markup-compatibility/2006}"
WP = "{http://schemas.openxmlformats.org/drawingml/2006/wordprocessingDrawing}"
A = "{http://schemas.openxmlformats.org/drawingml/2006/main}"
WPS = "{http://schemas.microsoft.com/office/word/2010/wordprocessingShape}"
V = "{urn:schemas-microsoft-com:vml}"

# ECMA-376 part 1, 17.3.3 run content: what a child of w:r contributes to the visible text
RUN_CHILD_SPEC = {
    "t": "text", "tab": "sep", "br": "sep", "cr": "sep", "ptab": "sep",
    "delText": "deleted", "instrText": "code", "delInstrText": "code",
    "sym": "glyph", "noBreakHyphen": "glyph", "softHyphen": "glyph", "rPr": "props",
}


def _docx():
    import sharepoint2text.parsing.extractors.ms_modern.docx_extractor as d
    return d


class DocxGen:
    def __init__(self, ctx):
        self.ctx = ctx
        self.ref = Ref()
        self.k = 0

    def nm(self, s):
        self.k += 1
        return "%s%d" % (s, self.k)

    # ---- leaves ---------------------------------------------------------------------
    def run(self, parent, text, rpr=True):
        r = ET.SubElement(parent, W + "r")
        if rpr:
            ET.SubElement(ET.SubElement(r, W + "rPr"), W + "b")
        t = ET.SubElement(r, W + "t")
        t.text = text
        return r

    def plain_par(self, parent, extra=()):
        ref = self.ref
        ref.sep("para")
        p = ET.SubElement(parent, W + "p")
        ET.SubElement(p, W + "pPr")
        self.run(p, ref.tok("body", extra=extra))
        ref.sep("para")
        return p

    def txbx_content(self, parent, cls, n_par, feat):
        ref = self.ref
        tc = ET.SubElement(parent, W + "txbxContent")
        ref.push(feat)
        for _ in range(n_par):
            ref.sep("para", "textbox-para")
            p = ET.SubElement(tc, W + "p")
            self.run(p, ref.tok(cls), rpr=False)
            ref.sep("para", "textbox-para")
        ref.pop()

    def textbox_ac(self, run, n_par):
        """w:r/mc:AlternateContent{Choice: DrawingML text box, Fallback: VML rendition}"""
        ac = ET.SubElement(run, MC + "AlternateContent")
        ch = ET.SubElement(ac, MC + "Choice")
        ch.set("Requires", "wps")
        node = ch
        for tag in (W + "drawing", WP + "anchor", A + "graphic", A + "graphicData", WPS + "wsp", WPS + "txbx"):
            node = ET.SubElement(node, tag)
        self.txbx_content(node, "body", n_par, "textbox")
        fb = ET.SubElement(ac, MC + "Fallback")
        node = fb
        for tag in (W + "pict", V + "shape", V + "textbox"):
            node = ET.SubElement(node, tag)
        self.txbx_content(node, "excl", n_par, "ac-fallback")

    # ---- inline items of the focus paragraph ----------------------------------------
    INLINE = ["run", "run-tab", "run-br", "run-cr", "run-sym", "hyperlink", "ins", "del", "sdt", "fldSimple",
              "smartTag", "textbox", "vml-textbox", "blank", "empty", "spaced", "field", "para-ac"]

    def inline(self, p, kind):
        ctx, ref = self.ctx, self.ref
        if kind == "run":
            self.run(p, ref.tok())
        elif kind in ("run-tab", "run-br", "run-cr"):
            r = ET.SubElement(p, W + "r")
            ET.SubElement(r, W + "t").text = ref.tok()
            ET.SubElement(r, W + kind[4:])
            ref.sep(kind)
            ET.SubElement(r, W + "t").text = ref.tok()
        elif kind == "run-sym":
            lens = ctx.params.get("sym_lens", (1, 2, 3, 7))
            loc = _sym_local(ctx, self.nm("runchild"), lens)
            cls, name = _classify(loc, RUN_CHILD_SPEC)
            r = ET.SubElement(p, W + "r")
            ET.SubElement(r, W + "t").text = ref.tok()
            x = ET.SubElement(r, _tag(ctx, W, loc))
            if cls == "text":
                x.text = ref.tok()
            elif cls == "sep":
                ref.sep("run-" + name)
            elif cls in ("deleted", "code"):
                x.text = ref.tok("excl", extra=("run-" + name,))
            elif cls == "other":
                x.text = ref.tok("free")
            ET.SubElement(r, W + "t").text = ref.tok()
            ref.desc.append("run child w:%s (%s)" % (str(loc), cls))
        elif kind in ("hyperlink", "ins", "fldSimple", "smartTag"):
            ref.push(kind)
            self.run(ET.SubElement(p, W + kind), ref.tok())
            ref.pop()
        elif kind == "del":
            d = ET.SubElement(p, W + "del")
            r = ET.SubElement(d, W + "r")
            ET.SubElement(r, W + "delText").text = ref.tok("excl", extra=("del",))
        elif kind == "sdt":
            sdt = ET.SubElement(p, W + "sdt")
            ET.SubElement(sdt, W + "sdtPr")
            ref.push("inline-sdt")
            self.run(ET.SubElement(sdt, W + "sdtContent"), ref.tok())
            ref.pop()
        elif kind == "textbox":
            r = ET.SubElement(p, W + "r")
            self.textbox_ac(r, 1 + ctx.choice(self.nm("txbx_pars"), 2))
        elif kind == "vml-textbox":
            r = ET.SubElement(p, W + "r")
            node = r
            for tag in (W + "pict", V + "shape", V + "textbox"):
                node = ET.SubElement(node, tag)
            self.txbx_content(node, "body", 1, "vml-textbox")
        elif kind == "blank":
            self.run(p, " ")
        elif kind == "empty":
            self.run(p, None if ctx.flag(self.nm("none")) else "")
        elif kind == "spaced":
            self.run(p, ref.tok(shape=1))
        elif kind == "field":
            # complex field: begin, code, separate, result, end
            for part in ("begin", "code", "separate", "result", "end"):
                r = ET.SubElement(p, W + "r")
                if part == "code":
                    ET.SubElement(r, W + "instrText").text = ref.tok("excl", extra=("field-code",))
                elif part == "result":
                    ET.SubElement(r, W + "t").text = ref.tok(extra=("field-result",))
                else:
                    ET.SubElement(r, W + "fldChar").set(W + "fldCharType", part)
        elif kind == "para-ac":
            ac = ET.SubElement(p, MC + "AlternateContent")
            ref.push("para-ac")
            self.run(ET.SubElement(ac, MC + "Choice"), ref.tok())
            fb = ET.SubElement(ac, MC + "Fallback")
            r = ET.SubElement(fb, W + "r")
            ET.SubElement(r, W + "t").text = ref.tok("excl", extra=("ac-fallback",))
            ref.pop()

    def focus_par(self, parent):
        ctx, ref = self.ctx, self.ref
        ref.sep("para")
        p = ET.SubElement(parent, W + "p")
        kinds = ctx.params.get("inline_kinds") or self.INLINE
        m = ctx.params.get("M", 2)
        n = ctx.choice("n_inline", m + 1)
        for i in range(n):
            self.inline(p, kinds[ctx.choice(self.nm("inline"), len(kinds))])
        ref.sep("para")
        return p

    # ---- blocks ---------------------------------------------------------------------
    def table(self, parent, rows, cols, first_cell, depth=0, row_sdt=False):
        ctx, ref = self.ctx, self.ref
        ref.sep("table")
        tbl = ET.SubElement(parent, W + "tbl")
        ET.SubElement(tbl, W + "tblPr")
        ref.push("table" if depth == 0 else "nested-table")
        for ri in range(rows):
            holder = tbl
            if row_sdt and ri == 0:
                sdt = ET.SubElement(tbl, W + "sdt")
                holder = ET.SubElement(sdt, W + "sdtContent")
            tr = ET.SubElement(holder, W + "tr")
            for ci in range(cols):
                ref.sep("cell")
                tc = ET.SubElement(tr, W + "tc")
                ET.SubElement(tc, W + "tcPr")
                if ri == 0 and ci == 0:
                    first_cell(tc)
                else:
                    self.plain_par(tc)
                ref.sep("cell")
        ref.pop()
        ref.sep("table")
        return tbl

    CELL_VARIANTS = ["p", "p-p", "p-nested", "nested-p", "sdt-p", "p-textbox", "focus"]

    def cell_content(self, variant):
        def fill(tc):
            ref = self.ref
            if variant == "p":
                self.plain_par(tc)
            elif variant == "p-p":
                self.plain_par(tc)
                self.plain_par(tc)
            elif variant == "p-nested":
                self.plain_par(tc)
                self.table(tc, 1, 1 + self.ctx.choice(self.nm("nested_cols"), 2), lambda c: self.plain_par(c), depth=1)
                ET.SubElement(tc, W + "p")      # a cell must end with a paragraph
            elif variant == "nested-p":
                self.table(tc, 1, 1, lambda c: self.plain_par(c), depth=1)
                self.plain_par(tc)
            elif variant == "sdt-p":
                sdt = ET.SubElement(tc, W + "sdt")
                ref.push("cell-sdt")
                self.plain_par(ET.SubElement(sdt, W + "sdtContent"))
                ref.pop()
            elif variant == "p-textbox":
                ref.sep("para")
                p = ET.SubElement(tc, W + "p")
                self.run(p, ref.tok())
                ref.push("textbox-in-cell")
                self.textbox_ac(ET.SubElement(p, W + "r"), 1)
                ref.pop()
                ref.sep("para")
            elif variant == "focus":
                self.focus_par(tc)
        return fill

    BLOCKS = ["p", "table", "sdt-p", "sdt-table", "customXml-p"]

    def block(self, body, kind):
        ctx, ref = self.ctx, self.ref
        if kind == "p":
            self.plain_par(body)
        elif kind == "table":
            rows = 1 + ctx.choice(self.nm("rows"), 2)
            cols = 1 + ctx.choice(self.nm("cols"), 2)
            variants = ctx.params.get("cell_variants") or self.CELL_VARIANTS[:6]
            v = variants[ctx.choice(self.nm("cell"), len(variants))]
            row_sdt = ctx.flag(self.nm("row_sdt")) if ctx.params.get("row_sdt", True) else False
            self.table(body, rows, cols, self.cell_content(v), row_sdt=row_sdt)
        elif kind in ("sdt-p", "sdt-table"):
            sdt = ET.SubElement(body, W + "sdt")
            ET.SubElement(sdt, W + "sdtPr")
            c = ET.SubElement(sdt, W + "sdtContent")
            ref.push("block-sdt")
            if kind == "sdt-p":
                self.plain_par(c)
            else:
                self.table(c, 1, 1, self.cell_content("p"))
            ref.pop()
        elif kind == "customXml-p":
            cx = ET.SubElement(body, W + "customXml")
            cx.set(W + "element", "x")
            ref.push("block-customXml")
            self.plain_par(cx)
            ref.pop()
        elif kind == "focus":
            self.focus_par(body)
        elif kind == "focus-in-cell":
            self.table(body, 1, 2, self.cell_content("focus"))
        elif kind == "focus-in-sdt":
            sdt = ET.SubElement(body, W + "sdt")
            ref.push("block-sdt")
            self.focus_par(ET.SubElement(sdt, W + "sdtContent"))
            ref.pop()


def _docx_file(body_xml):
    doc = ('<?xml version="1.0" encoding="UTF-8" standalone="yes"?>'
           '<w:document xmlns:w="%s">%s</w:document>' % (W[1:-1], body_xml))
    ct = ('<?xml version="1.0" encoding="UTF-8"?><Types xmlns="http://schemas.openxmlformats.org/package/2006/'
          'content-types"><Default Extension="xml" ContentType="application/xml"/><Default Extension="rels" '
          'ContentType="application/vnd.openxmlformats-package.relationships+xml"/><Override PartName="/word/'
          'document.xml" ContentType="application/vnd.openxmlformats-officedocument.wordprocessingml.document.'
          'main+xml"/></Types>')
    rels = ('<?xml version="1.0" encoding="UTF-8"?><Relationships xmlns="http://schemas.openxmlformats.org/package/'
            '2006/relationships"><Relationship Id="rId1" Type="http://schemas.openxmlformats.org/officeDocument/2006/'
            'relationships/officeDocument" Target="word/document.xml"/></Relationships>')
    bio = io.BytesIO()
    with zipfile.ZipFile(bio, "w", zipfile.ZIP_DEFLATED) as z:
        z.writestr("[Content_Types].xml", ct)
        z.writestr("_rels/.rels", rels)
        z.writestr("word/document.xml", doc)
    bio.seek(0)
    return bio


def k1_docx(ctx):
    d = _docx()
    g = DocxGen(ctx)
    ref = g.ref
    body = ET.Element(W + "body")
    space = ctx.params["space"]
    if space == "inline":
        g.plain_par(body)
        holder = ("focus", "focus-in-cell", "focus-in-sdt")[ctx.choice("container", 3)]
        g.block(body, holder)
        g.plain_par(body)
    else:
        n = 1 + ctx.choice("n_blocks", ctx.params.get("N", 2))
        first = ctx.params.get("first")
        for i in range(n):
            kinds = [first] if (first and i == 0) else g.BLOCKS
            g.block(body, kinds[ctx.choice(g.nm("block"), len(kinds))])
    ET.SubElement(body, W + "sectPr")
    info = {"doc": _show(body)[:600]}
    try:
        out = d._extract_full_text_from_body(body, include_formulas=True)
    except Exception as e:
        ctx.fail("extractor-raised", exc=type(e).__name__, msg=str(e)[:100], **info)
        return
    info["out"] = out[:300]
    if ctx.concrete:
        # the same document through the public entry point
        import sharepoint2text
        res = list(sharepoint2text.read_docx(_docx_file(_xml(body)), "x.docx"))
        pub = res[0].get_full_text()
        ctx.require(pub == out, "public-api-differs-from-kernel", public=pub[:200], **info)
    only = None
    if ctx.perturb == "fallback_is_body":
        ex = ref.tokens("excl")
        ctx.assume(len(ex) > 0)
        i = ref.items.index(ex[0])
        ref.items[i] = ("tok", ex[0][1], "body", ex[0][3])
        only = ex[0][1]
    elif ctx.perturb == "expect_merged_paragraphs":
        # twin: claim that no whitespace separates the first two paragraphs
        toks = ref.tokens("body")
        ctx.assume(len(toks) >= 2)
        a, b = toks[0][1], toks[1][1]
        ctx.require(not (a in out and b in out and out.find(a) < out.find(b) and
                         any(ch.isspace() for ch in out[out.find(a) + len(a):out.find(b)])), "twin")
        return
    _judge(ctx, "K1", ref, [("text", out)], info=info, only_token=only)


def _k1_parts(tier):
    m = 2 if tier == "quick" else 3
    lens = (1, 2, 3, 7) if tier == "quick" else (1, 2, 3, 4, 7, 9, 12, 13)
    parts = [{"space": "inline", "M": m, "sym_lens": lens}]
    n = 2 if tier == "quick" else 3
    for first in DocxGen.BLOCKS:
        parts.append({"space": "blocks", "N": n, "first": first})
    return parts


def _k1_targets():
    d = _docx()
    return [d._extract_full_text_from_body, d._extract_table_text, d._extract_paragraph_content,
            d._process_text_element]


KERNELS = [
    Kernel("K1", "DOCX body walk on bounded abstract documents (symbolic run-child names): tokens once, in order, "
                 "boundaries kept, Fallback/deleted/field-code text absent",
           k1_docx, targets=_k1_targets, parts=_k1_parts,
           perturb=[("fallback_is_body", {"space": "inline", "M": 1, "sym_lens": (1,)}),
                    ("expect_merged_paragraphs", {"space": "inline", "M": 1, "sym_lens": (1,)})],
           symbolic=["local name of one run child per run-sym item (length 1,2,3,7; thorough +4,9,12,13): the walker's "
                     "own == / endswith tests split the names, the reference classifies them by ECMA-376 17.3.3"],
           choices=["number and kind of inline items of the focus paragraph (run, run+tab/br/cr, hyperlink, ins, del, "
                    "inline sdt, fldSimple, smartTag, DrawingML text box with VML fallback, VML text box, blank/empty "
                    "run, token with inner space, complex field, paragraph-level AlternateContent)",
                    "container of the focus paragraph (body, table cell, block-level sdt)",
                    "block sequence (paragraph, table r x c <= 2x2 with first-cell variants incl. nested table, "
                    "cell-level sdt, text box in cell, row-level sdt; block-level sdt around paragraph/table; customXml)"],
           assumptions=["documents are real xml.etree trees as the OOXML reader hands them over",
                        "reading order = XML document order; a text box is separated from its anchor paragraph by "
                        "a paragraph boundary"],
           outside=["more than 2 (3) inline items / block items, tables beyond 2x2, nesting deeper than one level",
                    "formulas (C19), footnotes/comments parts, headers/footers (separate parts, never in the body)"],
           timeout={"quick": 100, "thorough": 1100}),
]

META = {
    "level_text": "",
    "level_note": "",
    "technique": "",
}
