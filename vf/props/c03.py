"""C03 - units mirror pages / slides / sheets / chapters / messages.

K1  unit algebra of every content type of data_types on arbitrary state
K2  heading-section units of DocxContent / OdtContent / DocContent (styles, levels, flags symbolic)
K3  legacy PPT slide construction (record types / text types symbolic; helper-level fault model)
K4  mbox split arithmetic on symbolic separator positions
K5  PPTX slide order from presentation.xml + relationships (OPC target resolution)
K6  EPUB spine items -> chapters
K7  mailbox -> messages -> units with the live separator pattern (symbolic envelope sender / year)
K8  PDF page loop of read_pdf on generated PDFs (blank / image-only pages)
K9  RTF body -> explicit pages -> units of read_rtf on generated bodies (escaped characters, blank pages)
"""
import io
import re as _real_re
import struct

import z3

from vf.core import Kernel
from vf import symrun as S


def _dt():
    import sharepoint2text.parsing.extractors.data_types as dt
    return dt


# ---------------------------------------------------------------------------------------
# small helpers that work on proxies and on plain values alike
# ---------------------------------------------------------------------------------------

def _cs(x):
    return x if isinstance(x, S.CharStr) else S.CharStr(x)


def _b(x):
    """truth value; on a proxy this is a fork decided by the solver.  A condition that was
    already decided on this path (same z3 term) is answered from a per-path memo instead of
    two more feasibility checks (the model code and the oracle ask the same questions as the
    code under test asked before them)."""
    if not isinstance(x, S.SymBool):
        return bool(x)
    ctx = S.cur()
    memo = ctx.__dict__.setdefault("_c03_memo", {})
    c = z3.simplify(x.z)
    hit = memo.get(c.get_id())
    if hit is not None:
        return hit[1]
    r = bool(S.SymBool(c))
    memo[c.get_id()] = (c, r)          # the term is kept alive so that its id stays unique
    n = z3.simplify(z3.Not(c))
    memo[n.get_id()] = (n, not r)
    return r


def _digits_value(codes):
    """decimal value of a list of digit codes (python int, or SymInt when a code is symbolic)"""
    if all(isinstance(c, int) for c in codes):
        return int("".join(chr(c) for c in codes))
    v = 0
    for c in codes:
        v = v * 10 + (c - 48)
    return v


def _zint(v):
    return v.z if isinstance(v, S.SymInt) else z3.IntVal(int(v))


def _num(u):
    return u.get_metadata().unit_number


class _KnownClass(Exception):
    """ends the judgement of a path whose violation belongs to an ACTIVE known finding"""


def _require_unless_known(ctx, cond, label, finding, **info):
    """ctx.require, except that a failure belonging to the class of a known finding which the
    driver found still reproducing (params['known_active']) is not reported again: the class is
    excluded from the search (DESIGN 2, known findings), the path counts as judged, and the number
    of excluded paths is kept in the notes.  Witness replays run without known_active, so the
    finding itself is re-established on every run."""
    if cond is True:
        ctx.require(True, label)
        return
    if finding in (ctx.params.get("known_active") or ()) and not ctx.perturb:
        ctx.note("path-in-class-of-known-finding:" + finding)
        raise _KnownClass(finding)
    ctx.require(cond, label, **info)


def _judged(fn):
    def harness(ctx):
        try:
            return fn(ctx)
        except _KnownClass:
            ctx.require(True, "excluded-known-class")
    harness.__name__ = fn.__name__
    harness.__doc__ = fn.__doc__
    return harness


# =======================================================================================
# K1  unit algebra of every content type
# =======================================================================================
_ALPHA = ["", " ", "A%d", "B%d\n", "\n C%d"]          # empty, blank, token, token + newline, padded token
JOIN_FORMATS = {"PdfContent", "PptxContent", "OdpContent", "XlsxContent", "OdsContent", "EpubContent",
                "HtmlContent", "PlainTextContent", "EmailContent", "OdgContent", "OdfContent"}


def _content_types():
    """every dataclass of the serialisation registry that offers iterate_units + get_full_text"""
    from sharepoint2text.parsing.extractors import serialization as ser
    reg = ser._get_type_registry()
    return {n: c for n, c in sorted(reg.items())
            if callable(getattr(c, "iterate_units", None)) and callable(getattr(c, "get_full_text", None))
            and not n.endswith("Interface")}


def _pick(ctx, name, i, size=None):
    k = ctx.choice(name, size or len(_ALPHA))
    t = _ALPHA[k]
    return (t % i if "%d" in t else t), (("ABC"[k - 2] + str(i)) if k >= 2 else None)


def _text_chars(ctx, name, n):
    """symbolic text: TAB LF VT FF CR and printable ASCII (the separators FS..US, which python
    also strips, are left out - CharStr.strip does not model them)"""
    t = ctx.fresh_chars(name, n, 9, 126)
    if not ctx.concrete:
        _assume_all(ctx, [z3.Or(c.z <= 13, c.z >= 32) for c in t.c])
    return t


def _stored_numbers(ctx, n, name):
    """stored slide / chapter numbers: symbolic, strictly increasing, >= 1 (the documented shape)"""
    nums, pre = [], []
    for k in range(n):
        v = ctx.fresh_int(f"{name}{k}", 1, 50)
        pre.append(v > (nums[-1] if nums else 0))
        nums.append(v)
    _assume_all(ctx, pre)
    return nums


def _build(ctx, dt, tname, n):
    """-> (content, expected unit numbers, [(exact unit text or None, token or None)], exact?)"""
    src = []
    if tname == "PdfContent":
        pages = []
        for i in range(n):
            t, tok = _pick(ctx, f"text{i}", i)
            pages.append(dt.PdfPage(text=t, images=[dt.PdfImage(index=1)] if t == "" and ctx.flag(f"img{i}") else []))
            src.append((t, tok))
        return dt.PdfContent(pages=pages), list(range(1, n + 1)), src
    if tname == "PptxContent":
        nums = _stored_numbers(ctx, n, "slide_number")
        slides = []
        for i in range(n):
            t, tok = _pick(ctx, f"text{i}", i)
            fm = ([dt.PptxFormula(latex=f"F{i}", is_display=ctx.flag(f"disp{i}"))]
                  if i == 0 and ctx.flag(f"formula{i}") else [])
            slides.append(dt.PptxSlide(slide_number=nums[i], base_text=t, text=t, formulas=fm))
            src.append((None if fm else t.strip(), tok))
        return dt.PptxContent(slides=slides), nums, src
    if tname in ("OdpContent", "PptContent"):
        nums = _stored_numbers(ctx, n, "slide_number")
        slides = []
        for i in range(n):
            title, tok = _pick(ctx, f"title{i}", i, 3)
            body = [f"D{i}"] if ctx.flag(f"body{i}") else []
            if tname == "OdpContent":
                slides.append(dt.OdpSlide(slide_number=nums[i], title=title, body_text=body))
            else:
                slides.append(dt.PptSlideContent(slide_number=nums[i], title=title or None, body_text=body))
            src.append(("\n".join(([title] if title else []) + body), tok))
        cls = dt.OdpContent if tname == "OdpContent" else dt.PptContent
        return cls(slides=slides), nums, src
    if tname in ("XlsContent", "XlsxContent", "OdsContent"):
        sheets = []
        for i in range(n):
            t, tok = _pick(ctx, f"text{i}", i)
            name = f"S{i}" if ctx.flag(f"named{i}") else ""
            if tname == "XlsContent":
                sheets.append(dt.XlsSheet(name=name, text=t, data=[{"h": 1}] if t == "" and ctx.flag(f"data{i}") else []))
                src.append((t.strip(), tok))
            elif tname == "XlsxContent":
                sheets.append(dt.XlsxSheet(name=name, text=t))
                src.append((None, tok))
            else:
                sheets.append(dt.OdsSheet(name=name, text=t))
                src.append((None, tok))
        if tname == "XlsContent":
            return dt.XlsContent(sheets=sheets, full_text="\n".join(x.text for x in sheets)), list(range(1, n + 1)), src
        cls = dt.XlsxContent if tname == "XlsxContent" else dt.OdsContent
        return cls(sheets=sheets), list(range(1, n + 1)), src
    if tname == "EpubContent":
        nums = _stored_numbers(ctx, n, "chapter_number")
        chapters = []
        for i in range(n):
            t, tok = _pick(ctx, f"text{i}", i)
            chapters.append(dt.EpubChapter(chapter_number=nums[i], href=f"c{i}.xhtml", text=t))
            src.append((t, tok))
        return dt.EpubContent(chapters=chapters), nums, src
    # ---- single-unit formats: exactly one unit numbered 1 whatever the state
    t, tok = _pick(ctx, "text", 0)
    one = [(t.strip(), tok)]
    if tname == "HtmlContent":
        return dt.HtmlContent(content=t), [1], one
    if tname == "PlainTextContent":
        return dt.PlainTextContent(content=t), [1], one
    if tname == "OdgContent":
        return dt.OdgContent(full_text=t), [1], one
    if tname == "OdfContent":
        return dt.OdfContent(full_text=t), [1], one
    if tname == "EmailContent":
        h, htok = _pick(ctx, "html", 1)
        c = dt.EmailContent(from_email=dt.EmailAddress(), body_plain=t, body_html=h)
        # documented: plain body if there is one, else the HTML body, else an empty unit
        exp = (t.strip(), tok) if t.strip() else ((None, htok) if h else ("", None))
        return c, [1], [exp]
    if tname == "DocxContent":
        return dt.DocxContent(full_text=t), [1], [(None, tok)]
    if tname == "OdtContent":
        return dt.OdtContent(full_text=t), [1], [(None, tok)]
    if tname == "DocContent":
        return dt.DocContent(main_text=t), [1], [(None, tok)]
    return None


def k1_algebra(ctx):
    dt = _dt()
    tname = ctx.params["type"]
    types = _content_types()
    if tname == "<registry>":
        known = MULTI | SINGLE | {"RtfContent"}
        ctx.require(set(types) == known, "content-type-without-unit-model",
                    unmodelled=sorted(set(types) - known), vanished=sorted(known - set(types)))
        return
    N = ctx.params["N"]
    n = ctx.choice("n", N + 1) if tname in MULTI else 1
    built = _build(ctx, dt, tname, n)
    content, exp_nums, src = built
    try:
        units = list(content.iterate_units())
        full = content.get_full_text()
    except Exception as e:
        units = None
        ctx.fail("unit-accessors-raised", exc=type(e).__name__, msg=str(e)[:100])
    m = len(units)
    ctx.require(m == len(src), "unit-count-differs-from-source-elements", units=m, elements=len(src))
    if ctx.perturb == "expect_zero_based":
        exp_nums = [x - 1 for x in exp_nums]
    for k, u in enumerate(units):
        ctx.require(_num(u) == exp_nums[k], "unit-number-is-not-the-source-position", unit=k)
    for k, u in enumerate(units):
        exact, tok = src[k]
        txt = u.get_text()
        if exact is not None:
            ctx.require(txt == exact, "unit-text-differs-from-source-element", unit=k, got=txt, expected=exact)
        for j, (_, tk) in enumerate(src):
            if tk is None:
                continue
            if j == k:
                ctx.require(txt.count(tk) == 1, "unit-text-lost-or-duplicated", unit=k, token=tk, got=txt)
            else:
                ctx.require(tk not in txt, "text-of-another-element-in-unit", unit=k, token=tk, got=txt)
    if tname in JOIN_FORMATS:
        ref = "\n".join(u.get_text() for u in units).strip()
        if ctx.perturb == "expect_untrimmed_join":
            ref = "\n".join(u.get_text() for u in units)
        ctx.require(full == ref, "full-text-is-not-the-trimmed-join-of-units", got=full, expected=ref)
    else:
        # formats that keep their own full text: every token of every element still shows up, in order
        pos = -1
        for _, tk in src:
            if tk is not None:
                ctx.require(full.find(tk) > pos, "full-text-misses-or-reorders-unit-text", token=tk, got=full)
                pos = full.find(tk)


MULTI = {"PdfContent", "PptxContent", "OdpContent", "PptContent", "XlsContent", "XlsxContent", "OdsContent",
         "EpubContent"}
SINGLE = {"HtmlContent", "PlainTextContent", "OdgContent", "OdfContent", "EmailContent", "DocxContent",
          "OdtContent", "DocContent"}


def k1_rtf(ctx):
    """RtfContent: page texts are SYMBOLIC strings; the code's own strip()/truth tests decide which
    pages count as blank.  Reading checked (DESIGN): every non-blank page yields exactly one unit
    numbered by the page's 1-based position, blank pages may be skipped, nothing else appears."""
    dt = _dt()
    n = ctx.params["n"]
    L = ctx.params.get("page_len", 2)
    mode = ctx.params.get("mode", "pages")
    if mode == "pages":
        pages = [_text_chars(ctx, f"page{i}", L) for i in range(n)]
        content = dt.RtfContent(pages=pages, full_text="ignored" if n and ctx.flag("has_full_text") else "")
        try:
            units = list(content.iterate_units())
        except Exception as e:
            units = None
            ctx.fail("unit-accessors-raised", exc=type(e).__name__, msg=str(e)[:100])
        k = 0
        last = 0
        for i, pg in enumerate(pages):
            # my reading of blank: nothing but white space (checked character by character)
            blank = True
            for ch in _cs(pg).c:
                if not _b(S.CharStr._disj([_mk(ch == w) for w in (32, 9, 10, 11, 12, 13)])):
                    blank = False
                    break
            if ctx.perturb == "expect_blank_pages_kept":
                blank = False
            if blank:
                continue
            ctx.require(k < len(units), "non-blank-page-has-no-unit", page=i + 1)
            num = _num(units[k])
            ctx.require(num == i + 1, "unit-number-is-not-the-source-position", page=i + 1, got=num)
            ctx.require(num > last, "unit-numbers-repeat-or-decrease", got=num)
            last = num
            txt = units[k].get_text()
            ctx.require(txt is pg or txt == pg, "unit-text-differs-from-source-element", page=i + 1)
            k += 1
        ctx.require(k == len(units), "unit-without-a-page", units=len(units), non_blank=k)
        return
    # no page list: the whole text (or, without it, the non-blank paragraphs) is one unit numbered 1
    t, tok = _pick(ctx, "text", 0)
    picked = [_pick(ctx, f"para{i}", i + 1) for i in range(n)]
    content = dt.RtfContent(full_text=t, paragraphs=[dt.RtfParagraph(text=x) for x, _ in picked])
    units = list(content.iterate_units())
    full = content.get_full_text()
    ctx.require(len(units) <= 1, "flowing-text-without-pages-is-not-one-unit", units=len(units))
    toks = [tok] if t else [tk for _, tk in picked]
    toks = [x for x in toks if x]
    if toks:
        ctx.require(len(units) == 1 and _num(units[0]) == 1, "text-without-unit", tokens=toks)
        for tk in toks:
            ctx.require(units[0].get_text().count(tk) == 1, "unit-text-lost-or-duplicated", token=tk)
            ctx.require(tk in full, "full-text-misses-or-reorders-unit-text", token=tk)


def k1_email(ctx):
    """EmailContent with SYMBOLIC bodies: the strip in __post_init__ and the truth tests of
    iterate_units decide; always exactly one unit numbered 1 (plain body, else HTML body, else empty)"""
    dt = _dt()
    L = ctx.params.get("body_len", 2)
    plain = _text_chars(ctx, "plain", ctx.params.get("plain_len", L))
    html = _text_chars(ctx, "html", ctx.params.get("html_len", L))
    content = dt.EmailContent(from_email=dt.EmailAddress(), body_plain=plain, body_html=html)
    units = list(content.iterate_units())
    ctx.require(len(units) == 1, "unit-count-differs-from-source-elements", units=len(units))
    ctx.require(_num(units[0]) == 1, "unit-number-is-not-the-source-position")
    txt = _cs(units[0].get_text())
    p = _cs(plain).strip()
    if ctx.perturb == "expect_html_preferred" and len(html):
        p = _cs("")
    if len(p):
        ctx.require(len(txt) == len(p) and _b(txt == p), "unit-text-differs-from-source-element", which="plain")
    elif len(html):
        ctx.require(len(txt) == len(html) and _b(txt == _cs(html)), "unit-text-differs-from-source-element", which="html")
    else:
        ctx.require(len(txt) == 0, "unit-text-differs-from-source-element", which="empty")


def _k1(ctx):
    t = ctx.params["type"]
    if t == "RtfContent":
        return k1_rtf(ctx)
    if t == "EmailContent*":
        return k1_email(ctx)
    return k1_algebra(ctx)


def _k1_parts(tier):
    N = 3 if tier == "quick" else 4
    parts = [{"type": "<registry>"}]
    for t in sorted(MULTI):
        parts.append({"type": t, "N": N})
    for t in sorted(SINGLE):
        parts.append({"type": t, "N": 1})
    for n in range(0, (3 if tier == "quick" else 4) + 1):
        parts.append({"type": "RtfContent", "n": n, "page_len": 2 if tier == "quick" or n > 3 else 3, "mode": "pages"})
    parts.append({"type": "RtfContent", "n": 2, "mode": "flow"})
    for a, b in ((0, 0), (0, 2), (2, 0), (2, 2), (3, 1)) + (((4, 2),) if tier == "thorough" else ()):
        parts.append({"type": "EmailContent*", "plain_len": a, "html_len": b})
    return parts


def _k1_targets():
    dt = _dt()
    out = [dt._join_unit_text]
    for n, c in _content_types().items():
        out += [c.iterate_units, c.get_full_text]
    out += [dt.PptxSlide.get_text, dt.OdpSlide.text_combined.fget, dt.PptSlideContent.text_combined.fget,
            dt.EmailContent.__post_init__]
    return out


# =======================================================================================
# K2  heading-section units
# =======================================================================================

_HEADING_PATTERN = r"^heading\s*(\d+)\b"
_REAL_HEADING_RE = _real_re.compile(_HEADING_PATTERN, flags=_real_re.IGNORECASE)


class _HeadingMatch:
    def __init__(self, digits):
        self._d = digits

    def group(self, k=0):
        if k != 1:
            S._unsupported("heading_re.match(...).group(%r)" % (k,))
        return self._d


class _HeadingRe:
    """model of re.compile(r"^heading\\s*(\\d+)\\b", IGNORECASE).match on a CharStr of printable
    ASCII (32..126): only ' ' is \\s, only 0-9 is \\d, \\w is [A-Za-z0-9_].  \\d+ is greedy and
    a shorter digit run never ends at a word boundary, so no backtracking case exists.
    Differentially validated at every replay (concrete runs use the real ``re``)."""

    def match(self, s):
        if isinstance(s, str):
            return _REAL_HEADING_RE.match(s)
        c = s.c
        n = len(c)
        cache = S.cur().__dict__.setdefault("_c03_match", {})
        key = tuple(id(x) for x in c)
        if key in cache:
            return cache[key][1]
        r = self._match(s, c, n)
        cache[key] = (c, r)
        return r

    def _match(self, s, c, n):
        if n < 8:
            return None
        if not _b(s[:7].lower() == "heading"):
            return None
        i = 7
        while i < n and _b(c[i] == 32):
            i += 1
        j = i
        while j < n and _b(_is_digit(c[j])):
            j += 1
        if j == i:
            return None
        if j < n:
            ch = c[j]
            word = S.CharStr._disj([
                S.CharStr._conj([_mk(ch >= 48), _mk(ch <= 57)]),
                S.CharStr._conj([_mk(ch >= 65), _mk(ch <= 90)]),
                S.CharStr._conj([_mk(ch >= 97), _mk(ch <= 122)]),
                _mk(ch == 95)])
            if _b(word):
                return None
        return _HeadingMatch(S.CharStr(c[i:j]))


def _is_digit(ch):
    return S.CharStr._conj([_mk(ch >= 48), _mk(ch <= 57)])


def _mk(x):
    """SymBool/bool -> what CharStr._conj/_disj expect (z3 term or python bool)"""
    if isinstance(x, S.SymBool):
        return x.z
    return bool(x)


class _ReShadow:
    """the name ``re`` as seen from data_types during symbolic runs"""
    IGNORECASE = _real_re.IGNORECASE

    @staticmethod
    def compile(pattern, flags=0):
        if pattern == _HEADING_PATTERN and flags == _real_re.IGNORECASE:
            return _HeadingRe()
        S._unsupported("re.compile(%r) has no symbolic model (source changed?)" % (pattern,))


def _sym_int(x=0, *a):
    if isinstance(x, S.CharStr):
        return _digits_value(x.c)
    return S.sym_int(x, *a)


def _docx_style_class(style, trimmed=False):
    """My reading of WordprocessingML paragraph styles: the built-in heading styles are named
    'heading N' (UI: 'Heading N').  Whole-string reading, written independently of the regex:
      ('heading', N)   the trimmed name is 'heading', optional blanks, a decimal number - nothing else
      ('body', None)   no style, or the trimmed name does not begin with 'heading' (any case)
      ('ambiguous',)   anything else ('Heading 1 Char', 'heading1x', 'Headings') - not judged"""
    if style is None:
        return ("body", None)
    s = _cs(style)
    if not trimmed:
        s = s.strip()
    if not _b(s[:7].lower() == "heading"):
        return ("body", None)
    rest = s.c[7:]
    k = 0
    while k < len(rest) and _b(rest[k] == 32):
        k += 1
    digits = rest[k:]
    if not digits:
        return ("ambiguous", None)
    for d in digits:
        if not _b(_is_digit(d)):
            return ("ambiguous", None)
    return ("heading", _digits_value(digits))


def _assume_all(ctx, conds):
    """one assume for a list of bool / SymBool / z3 conditions"""
    zs = []
    for c in conds:
        if isinstance(c, S.SymBool):
            zs.append(c.z)
        elif z3.is_expr(c):
            zs.append(c)
        elif not c:
            ctx.assume(False)
    if zs:
        ctx.assume(z3.And(*zs) if len(zs) > 1 else zs[0])


def _unambiguous_style(ctx, style):
    """precondition as one formula (no forks): the style name is certainly a heading style or
    certainly not one under _docx_style_class (the later classification then follows the case
    splits the code under test made itself).  In replay the classification itself rejects."""
    if ctx.concrete or len(style.c) < 7:
        return True
    c = [S._as_int_term(x) for x in style.c]
    low = [z3.If(z3.And(x >= 65, x <= 90), x + 32, x) for x in c[:7]]
    is_h = z3.And(*[a == ord(b) for a, b in zip(low, "heading")])
    rest = c[7:]
    dig = [z3.And(x >= 48, x <= 57) for x in rest]
    shapes = [z3.And(*([x == 32 for x in rest[:k]] + dig[k:])) for k in range(len(rest))]
    return z3.Or(z3.Not(is_h), z3.And(is_h, z3.Or(*shapes)) if shapes else z3.BoolVal(False))


def _unambiguous_odt_style(ctx, style):
    """one formula: a table-cell style (begins with 'Table_20_') or a name without 'Table' in it"""
    if ctx.concrete:
        return True
    c = [S._as_int_term(x) for x in style.c]

    def at(pos, word):
        if pos + len(word) > len(c):
            return z3.BoolVal(False)
        return z3.And(*[c[pos + k] == ord(ch) for k, ch in enumerate(word)])
    return z3.Or(at(0, "Table_20_"), z3.Not(z3.Or(*[at(p, "Table") for p in range(len(c))])))


def _text_from_kind(kind, tok):
    return ["", tok, " ", " " + tok + " \n"][kind]


def _chain(heads, h):
    """outline rule: the parent of a heading is the nearest preceding heading of a strictly
    smaller level; returns the list of ancestor headings ending in h (level comparisons fork)"""
    out = [h]
    cur = h
    for g in reversed([x for x in heads if x["i"] < h["i"]]):
        if _b(g["level"] < cur["level"]):
            out.append(g)
            cur = g
    return out[::-1]


def _section_oracle(ctx, items, units, allow_heading_like_in_body=False, extra_info=None, heading_coverage=False):
    """items: source paragraphs {'i','kind' heading|body|skip,'level','tok' (None = blank),'pb'}
    units: [(number, text, heading_path)] as observed.  Written from the property text:
      numbers 1..m; without headings one unit holding everything; with headings every non-blank
      body paragraph in exactly one unit, in source order, that unit being the one of its own
      section (last heading-path entry = nearest preceding heading, no foreign heading in the
      path); heading text never in a unit body, and present in some unit's heading path."""
    perturb = ctx.perturb
    nums = [u[0] for u in units]
    m = len(units)
    ctx.require(nums == list(range(1, m + 1)), "unit-numbers-not-1..m", numbers=nums)
    heads = [it for it in items if it["kind"] == "heading"]
    bodies = [it for it in items if it["kind"] == "body" and it["tok"]]
    texts = [u[1] for u in units]
    paths = [list(u[2]) for u in units]
    if not heads:
        ctx.require(m == 1, "flowing-text-without-headings-is-not-one-unit", units=m)
        pos = -1
        for it in bodies:
            c = texts[0].count(it["tok"])
            ctx.require(c == 1, "body-text-lost" if c == 0 else "body-text-duplicated",
                        cls="fallback", para=it["i"], count=c)
            ctx.require(texts[0].find(it["tok"]) > pos, "body-text-out-of-source-order", para=it["i"])
            pos = texts[0].find(it["tok"])
        return
    for h in heads:
        if h["tok"] and not allow_heading_like_in_body:
            ctx.require(all(h["tok"] not in t for t in texts), "heading-text-in-unit-body", para=h["i"])
    where = {}
    lost = []
    for it in bodies:
        total = sum(t.count(it["tok"]) for t in texts)
        if total == 0:
            lost.append(it)
            continue
        ctx.require(total == 1, "body-text-duplicated", para=it["i"], count=total)
        k = [j for j, t in enumerate(texts) if it["tok"] in t][0]
        where[it["i"]] = (k, texts[k].find(it["tok"]))
    seq = [where[it["i"]] for it in bodies if it["i"] in where]
    ctx.require(seq == sorted(seq), "body-text-out-of-source-order", placement=[list(x) for x in seq])

    def section_of(it):
        prev = [h for h in heads if h["i"] < it["i"]]
        return prev[-1] if prev else None

    for it in bodies:
        if it["i"] not in where:
            continue
        k = where[it["i"]][0]
        sec = section_of(it)
        got = paths[k]
        if sec is None:
            ctx.require(got == [], "text-before-first-heading-filed-under-a-heading", para=it["i"], got=got)
            continue
        chain = _chain(heads, sec)
        anc = [g["tok"] for g in chain if g["tok"]]
        if perturb == "expect_flat_heading_path":
            anc = anc[-1:]
        if sec["tok"]:
            ctx.require(got[-1:] == [sec["tok"]], "unit-is-not-the-paragraph's-own-section",
                        para=it["i"], section=sec["tok"], got=got)
        ctx.require(all(g in anc for g in got), "foreign-heading-in-heading-path",
                    para=it["i"], ancestors=anc, got=got)
    # units follow the source order of their sections (a unit is filed under the last entry of its path;
    # a heading without text leaves its ancestor there, so only documents whose headings all have text)
    if all(h["tok"] for h in heads):
        head_by_tok = {h["tok"]: h["i"] for h in heads}
        filed = [head_by_tok[p[-1]] for p in paths if p and p[-1] in head_by_tok]
        ctx.require(filed == sorted(filed), "units-not-in-source-order-of-their-sections", sections=filed,
                    paths=paths)
    if heading_coverage:
        # "heading text counts as covered by the heading path of its section unit": a heading section may
        # be folded into a sub-section (whose path then names it), it may not vanish.  Demanded for the
        # formats whose documentation does not define units as paragraph runs (DOCX); see the note below.
        for h in heads:
            if not h["tok"]:
                continue
            covered = any(h["tok"] in p for p in paths)
            if perturb == "expect_own_unit_for_every_heading":
                covered = any(p[-1:] == [h["tok"]] for p in paths)
            ctx.require(covered, "heading-text-in-no-heading-path", para=h["i"], heading=h["tok"],
                        level=h["level"], units=[[u[0], u[1], list(u[2])] for u in units], **(extra_info or {}))
    # lost body text, most specific classes last (so that an unknown cause is reported first)
    classed = []
    for it in lost:
        sec = section_of(it)
        if sec is None:
            classed.append((2, "before-first-heading", it))
        elif not [g for g in _chain(heads, sec) if g["tok"]]:
            classed.append((1, "under-heading-without-text", it))
        else:
            classed.append((0, "section", it))
    for _, cls, it in sorted(classed, key=lambda x: (x[0], x[2]["i"])):
        pbv = None
        if cls == "section" and it.get("pb") is not None:
            pbv = _b(it["pb"])
        fid = None
        if ctx.params.get("fmt") == "docx":
            fid = {"before-first-heading": "C03-docx-text-before-first-heading-lost",
                   "under-heading-without-text": "C03-docx-text-under-heading-without-text-lost",
                   "section": "C03-docx-page-break-paragraph-text-lost" if pbv is True else None}[cls]
        _require_unless_known(ctx, False, "body-text-lost", fid, cls=cls, para=it["i"], page_break=pbv,
                              units=[[u[0], u[1], list(u[2])] for u in units], **(extra_info or {}))

    # A heading whose section has no body produces no unit in ODT/DOC: OdtContent documents its units as
    # "paragraph runs separated by headings" (no run, no unit), DocContent follows it.  The property counts
    # heading text as "covered by the heading path of its section unit"; whether a body-less section must
    # have a unit at all is open to two readings - for ODT/DOC the weaker one is taken and nothing is
    # demanded for such headings (see DESIGN 7).  DOCX has no such documentation: there the clause is
    # checked as written (heading_coverage) - every heading text is in the heading path of some unit.

def k2_docx(ctx):
    dt = _dt()
    n = ctx.params["n"]
    L = ctx.params.get("style_len", 9)
    nt = ctx.params.get("texts", 2)
    anchor = ctx.params.get("anchor", "none")
    paras, raw, pre = [], [], []
    for i in range(n):
        style = None
        mask = ctx.params.get("styled_mask")
        if (mask[i] == "1") if mask else ctx.flag(f"styled{i}"):
            style = ctx.fresh_chars(f"style{i}", L, 32, 126)
            if not ctx.params.get("style_ws"):
                pre.append(style[0:1] != " ")
                pre.append(style[L - 1:L] != " ")
                pre.append(_unambiguous_style(ctx, style))
        tk = ctx.choice(f"text{i}", nt)
        tok = f"p{i}q"
        text = _text_from_kind(tk, tok)
        pb = ctx.fresh_bool(f"pb{i}")
        paras.append(dt.DocxParagraph(text=text, style=style, has_page_break=pb))
        raw.append((style, tok if tk in (1, 3) else None, pb))
    _assume_all(ctx, pre)
    tables, tanch, images = [], [], []
    if anchor != "none" and n:
        a = ctx.params["anchor_para"] if "anchor_para" in ctx.params else ctx.choice("anchor_para", n)
        if anchor == "table":
            tables, tanch = [[["c"]]], [a]
        else:
            images = [dt.DocxImage(rel_id="r1", image_index=1, anchor_paragraph_indices=[a])]
    content = dt.DocxContent(paragraphs=paras, tables=tables, table_anchor_paragraph_indices=tanch,
                             images=images, full_text="\n".join(p.text for p in paras))
    with ctx.shadow(dt, re=_ReShadow, int=_sym_int):
        try:
            units = list(content.iterate_units())
        except Exception as e:
            units = None
            ctx.fail("iterate_units-raised", exc=type(e).__name__, msg=str(e)[:100])
    # oracle (after the run, so that the case splits on the styles are the code's own)
    items = []
    for i, (style, tok, pb) in enumerate(raw):
        cls, lev = _docx_style_class(style, trimmed=not ctx.params.get("style_ws"))
        if cls == "ambiguous":
            ctx.assume(False)
        items.append({"i": i, "kind": cls, "level": lev, "tok": tok, "pb": pb})
    obs = [(_num(u), u.get_text(), u.get_metadata().heading_path) for u in units]
    extra_info = {}
    if ctx.concrete and anchor == "none":
        extra_info["read_docx_units"] = _docx_public(raw)
    _section_oracle(ctx, items, obs, extra_info=extra_info, heading_coverage=True)


def _docx_public(raw):
    """replay only (information for the replay record): the same paragraphs as a real .docx through
    sharepoint2text.read_docx"""
    import zipfile
    from xml.sax.saxutils import escape, quoteattr
    try:
        import sharepoint2text
        w = "http://schemas.openxmlformats.org/wordprocessingml/2006/main"
        body = ""
        for i, (style, tok, pb) in enumerate(raw):
            ppr = f"<w:pPr><w:pStyle w:val={quoteattr(style)}/></w:pPr>" if style is not None else ""
            brk = "<w:r><w:lastRenderedPageBreak/></w:r>" if pb else ""
            run = f"<w:r><w:t>{escape(tok)}</w:t></w:r>" if tok else ""
            body += f"<w:p>{ppr}{brk}{run}</w:p>"
        buf = io.BytesIO()
        with zipfile.ZipFile(buf, "w") as z:
            z.writestr("[Content_Types].xml", '<?xml version="1.0"?><Types xmlns="http://schemas.openxmlformats.org/'
                       'package/2006/content-types"><Default Extension="xml" ContentType="application/xml"/><Default '
                       'Extension="rels" ContentType="application/vnd.openxmlformats-package.relationships+xml"/></Types>')
            z.writestr("_rels/.rels", f'<?xml version="1.0"?><Relationships xmlns="{_PKG_REL_NS}"><Relationship Id="rId1" '
                       f'Type="{_REL_PREFIX}officeDocument" Target="word/document.xml"/></Relationships>')
            z.writestr("word/document.xml", f'<?xml version="1.0"?><w:document xmlns:w="{w}"><w:body>{body}</w:body></w:document>')
        buf.seek(0)
        doc = next(sharepoint2text.read_docx(buf, "x.docx"))
        return [[_num(u), u.get_text(), list(u.get_metadata().heading_path)] for u in doc.iterate_units()]
    except Exception as e:
        return "not available: %s: %s" % (type(e).__name__, str(e)[:80])


def k2_odt(ctx):
    dt = _dt()
    n = ctx.params["n"]
    L = ctx.params.get("style_len", 10)
    nt = ctx.params.get("texts", 2)
    extra = ctx.params.get("extra", "none")
    paras, raw, pre = [], [], []
    for i in range(n):
        kind = ctx.choice(f"kind{i}", 3)   # 0 text:p without style, 1 text:p with a style, 2 text:h
        style, level = None, None
        if kind == 1:
            style = ctx.fresh_chars(f"style{i}", L, 33, 126)
            pre.append(_unambiguous_odt_style(ctx, style))
        elif kind == 2:
            level = ctx.fresh_int(f"level{i}", 1, 10)
        tk = ctx.choice(f"text{i}", nt)
        tok = f"p{i}q"
        paras.append(dt.OdtParagraph(text=_text_from_kind(tk, tok), style_name=style, outline_level=level))
        raw.append((kind, style, level, tok if tk in (1, 3) else None))
    _assume_all(ctx, pre)
    tables, images = [], []
    if extra == "table":
        tables = [dt.OdtTable(data=[["c"]])]
    elif extra == "image":
        images = [dt.OpenDocumentImage(href="Pictures/1.png", image_index=1)]
    content = dt.OdtContent(paragraphs=paras, tables=tables, images=images,
                            full_text="\n".join(p.text for p in paras))
    try:
        units = list(content.iterate_units())
    except Exception as e:
        units = None
        ctx.fail("iterate_units-raised", exc=type(e).__name__, msg=str(e)[:100])
    items = []
    for i, (kind, style, level, tok) in enumerate(raw):
        if kind == 2:
            # ODF 1.2 §5.1.2: text:h is a heading, text:outline-level its level.  A heading
            # without text cannot open a section that anything could be attributed to.
            items.append({"i": i, "kind": "heading" if tok else "skip", "level": level, "tok": tok})
        elif kind == 1:
            # paragraphs inside table cells carry LibreOffice's cell styles 'Table_20_Contents' /
            # 'Table_20_Heading' (their text is table content, reported through the table);
            # a style that does not contain 'Table' at all is ordinary body text
            s = _cs(style)
            if _b(s.startswith("Table_20_")):
                items.append({"i": i, "kind": "skip", "level": None, "tok": tok})
            elif _b(s._contains("Table")):
                ctx.assume(False)
            else:
                items.append({"i": i, "kind": "body", "level": None, "tok": tok})
        else:
            items.append({"i": i, "kind": "body", "level": None, "tok": tok})
    obs = [(_num(u), u.get_text(), u.get_metadata().heading_path) for u in units]
    _section_oracle(ctx, items, obs)


_DOC_LINES = ["", "  ", "b%dq", " b%dq ", "Chapter %d", "Subsection %d", "intro", "x%d y%d"]


def k2_doc(ctx):
    """legacy DOC has no styles: headings are recognised from the line text.  Lines that cannot be
    headings under any reading (token lines) are judged as body text; 'Chapter N' / 'Subsection N'
    / 'intro' lines may be filed as headings or as body text"""
    dt = _dt()
    n = ctx.params["n"]
    extra = ctx.params.get("extra", "none")
    lines, items = [], []
    for i in range(n):
        k = ctx.choice(f"line{i}", len(_DOC_LINES) if extra == "table" else len(_DOC_LINES) - 1)
        t = _DOC_LINES[k]
        t = t % ((i,) * t.count("%d")) if "%d" in t else t
        if k == 6 and t in lines:
            ctx.assume(False)          # heading texts are kept distinct (they serve as tokens)
        lines.append(t)
        if k in (2, 3):
            items.append({"i": i, "kind": "body", "level": None, "tok": f"b{i}q"})
        elif k in (4, 5, 6):
            items.append({"i": i, "kind": "heading", "level": 2 if k == 5 else 1, "tok": t})
        elif k == 7:
            items.append({"i": i, "kind": "skip", "level": None, "tok": None, "table_line": True})
        else:
            items.append({"i": i, "kind": "body", "level": None, "tok": None})
    tables, images = [], []
    if extra == "table":
        j = ctx.choice("table_for_line", n) if n else 0
        tables = [[[f"x{j}", f"y{j}"]]]
    elif extra == "image":
        images = [dt.DocImage(image_number=1, content_type="image/png", caption="")]
    sep = "\r\n" if ctx.flag("crlf") else "\n"
    content = dt.DocContent(main_text=sep.join(lines), tables=tables, images=images)
    try:
        units = list(content.iterate_units())
    except Exception as e:
        units = None
        _require_unless_known(ctx, False, "iterate_units-raised",
                              "C03-doc-headings-without-body-and-image-indexerror" if isinstance(e, IndexError) else None,
                              exc=type(e).__name__, msg=str(e)[:100], text=content.main_text)
    # two readings are accepted for heading-like lines: all of them are body text (then some unit
    # body shows one of them), or all of them are headings (the reading of DocContent's docstring)
    if any(it["kind"] == "heading" and any(it["tok"] in u.get_text() for u in units) for it in items):
        for it in items:
            if it["kind"] == "heading":
                it["kind"] = "body"
    obs = [(_num(u), u.get_text(), u.get_metadata().heading_path) for u in units]
    _section_oracle(ctx, items, obs, allow_heading_like_in_body=True)
    # a line consumed as a table must come back as that table in exactly one unit
    for it in items:
        if it.get("table_line") and tables and f"x{it['i']}" == tables[0][0][0]:
            tok = f"x{it['i']}"
            in_text = sum(u.get_text().count(tok) for u in units)
            in_tabs = sum(1 for u in units for t in u.get_tables() if t.get_table() == tables[0])
            ctx.require(in_text <= 1 and in_tabs <= 1 and in_text + in_tabs >= 1,
                        "table-line-lost-or-duplicated", text=in_text, tables=in_tabs)


@_judged
def _k2(ctx):
    fmt = ctx.params["fmt"]
    return {"docx": k2_docx, "odt": k2_odt, "doc": k2_doc}[fmt](ctx)


def _k2_parts(tier):
    parts = []
    N = 3 if tier == "quick" else 4
    for n in range(0, N + 1):
        L = 9 if n <= 2 else 8
        parts.append({"fmt": "docx", "n": n, "anchor": "none", "style_len": L})
        for anchor in ("table", "image"):
            if 1 <= n <= 2:
                parts.append({"fmt": "docx", "n": n, "anchor": anchor, "style_len": L})
            elif n:
                parts += [{"fmt": "docx", "n": n, "anchor": anchor, "style_len": L, "anchor_para": a} for a in range(n)]
        parts.append({"fmt": "odt", "n": n, "extra": "none"})
        if n:
            parts.append({"fmt": "odt", "n": n, "extra": "table"})
            parts.append({"fmt": "odt", "n": n, "extra": "image"})
        for extra in ("none", "table", "image"):
            parts.append({"fmt": "doc", "n": n, "extra": extra})
    # heading / text / heading / text with a page break: the smallest shape of the title-page rule
    parts.append({"fmt": "docx", "n": 4, "anchor": "none", "style_len": 8, "styled_mask": "1010"})
    if tier == "thorough":
        parts.append({"fmt": "docx", "n": 5, "anchor": "none", "style_len": 8, "styled_mask": "10110"})
        parts.append({"fmt": "docx", "n": 5, "anchor": "none", "style_len": 8, "styled_mask": "01011"})
        parts.append({"fmt": "docx", "n": 3, "anchor": "none", "style_len": 9})
        parts.append({"fmt": "doc", "n": 5, "extra": "none"})
    # other style shapes / blank-padded names and texts on smaller documents
    for L in ((8, 10) if tier == "quick" else (8, 10, 11)):
        parts.append({"fmt": "docx", "n": 2, "anchor": "none", "style_len": L})
    parts.append({"fmt": "docx", "n": 1, "anchor": "none", "style_len": 10, "style_ws": True})
    parts.append({"fmt": "docx", "n": 2 if tier == "quick" else 3, "anchor": "none", "style_len": 8, "texts": 4})
    parts.append({"fmt": "odt", "n": 2 if tier == "quick" else 3, "extra": "none", "texts": 4})
    return parts


def _k2_targets():
    dt = _dt()
    return [dt.DocxContent.iterate_units, dt.OdtContent.iterate_units, dt.DocContent.iterate_units]



# =======================================================================================
# K3  legacy PPT slide construction
# =======================================================================================
# record types, written from [MS-PPT] 2.13.24 (RecordType enumeration) - not read from the code
RT_SLIDE = 0x03EE
RT_SLIDE_PERSIST_ATOM = 0x03F3
RT_TEXT_HEADER_ATOM = 0x0F9F
RT_TEXT_CHARS_ATOM = 0x0FA0
RT_TEXT_BYTES_ATOM = 0x0FA8
RT_CSTRING = 0x0FBA
RT_SLIDE_LIST_WITH_TEXT = 0x0FF0
TEXT_TYPE_NOTES = 2            # [MS-PPT] 2.13.33 TextTypeEnum: Tx_TYPE_NOTES


def _ppt():
    import sharepoint2text.parsing.extractors.ms_legacy.ppt_extractor as ppt
    return ppt


class _Data(bytes):
    """atom payload that remembers which harness record it belongs to"""
    idx = None


class _Node:
    def __init__(self, rec_type, instance=0, container=False, data=b"", children=(), idx=None):
        self.rec_type, self.instance, self.container = rec_type, instance, container
        self.children = list(children)
        d = _Data(data)
        d.idx = idx
        self.data = d
        self.idx = idx

    def size(self):
        return 8 + (sum(c.size() for c in self.children) if self.container else len(self.data))

    def serialise(self):
        body = b"".join(c.serialise() for c in self.children) if self.container else bytes(self.data)
        ver = 0x0F if self.container else 0x00
        return struct.pack("<HHI", (int(self.instance) << 4) | ver, int(self.rec_type), len(body)) + body


class _Stream:
    """a well-formed record stream as a tree (symbolic runs): what _iter_records walks"""

    def __init__(self, nodes):
        self.nodes = list(nodes)

    def __len__(self):
        return sum(n.size() for n in self.nodes)


def _fake_iter_records(ppt):
    """model of ppt_extractor._iter_records on a well-formed stream: records in stream order,
    containers are stepped into, offsets as in the byte layout.  The resynchronisation branch
    (record length beyond the stream) is not modelled.  Concrete runs serialise the tree and use
    the real function, which validates this model at every replay."""
    def walk(nodes, base):
        off = base
        for n in nodes:
            sub = _Stream(n.children) if n.container else n.data
            yield ppt.Record(rec_type=n.rec_type, rec_instance=n.instance, is_container=n.container,
                             data=sub, offset=off, end_offset=off + n.size())
            if n.container:
                yield from walk(n.children, off + 8)
            off += n.size()

    def it(data, start=0):
        if isinstance(data, bytes) and len(data) < 8:
            return                      # shorter than one record header: the real loop does not start
        if not isinstance(data, _Stream):
            S._unsupported("_iter_records on something that is not a harness stream")
        yield from walk(data.nodes, 0)
    return it


class _Uint32Shadow:
    """struct '<I' on an atom payload whose value is a symbolic input"""

    def __init__(self, values):
        self.values = values

    def unpack_from(self, data, offset=0):
        if isinstance(data, _Data) and data.idx in self.values:
            return (self.values[data.idx],)
        return struct.unpack_from("<I", data, offset)


def k3_records(ctx):
    """real _parse_ppt_document (+ _extract_slide_list_texts, _parse_slide_list_container,
    _parse_containers, _extract_all_text_raw, _build_slides_from_text_blocks) and
    PptContent.iterate_units on a record stream: one SlideListWithText container holding N atoms of
    SYMBOLIC record type, followed by M slide containers with or without drawing text"""
    ppt = _ppt()
    dt = _dt()
    N = ctx.params["N"]
    n = ctx.choice("n_atoms", N + 1) if ctx.params.get("vary_n", True) else N
    conts = ctx.params.get("containers", "")          # e.g. "10": two slide containers, first with text
    inst = ctx.fresh_int("list_instance", 0, 2)
    atoms, types, ttypes = [], [], {}
    for i in range(n):
        t = ctx.fresh_int(f"rec_type{i}", 0, 0xFFFF)
        tt = ctx.fresh_int(f"text_type{i}", 0, 0xFFFFFFFF)
        types.append(t)
        ttypes[i] = tt
        if ctx.concrete and t == RT_TEXT_HEADER_ATOM:
            payload = struct.pack("<I", tt)
        else:
            payload = f"T{i}".encode("utf-16-le")
        atoms.append(_Node(t, data=payload, idx=i))
    top = [_Node(RT_SLIDE_LIST_WITH_TEXT, instance=inst, container=True, children=atoms)]
    for j, c in enumerate(conts):
        kids = []
        if c == "1":
            kids = [_Node(RT_TEXT_HEADER_ATOM, data=struct.pack("<I", 4)),
                    _Node(RT_TEXT_CHARS_ATOM, data=f"S{j}".encode("utf-16-le"))]
        top.append(_Node(RT_SLIDE, container=True, children=kids))
    content = dt.PptContent()
    try:
        if ctx.concrete:
            ppt._parse_ppt_document(b"".join(x.serialise() for x in top), content)
        else:
            with ctx.shadow(ppt, _iter_records=_fake_iter_records(ppt), _UINT32=_Uint32Shadow(ttypes),
                            _TITLE_TYPES=S.SymSet(sorted(ppt._TITLE_TYPES)),
                            _BODY_TYPES=S.SymSet(sorted(ppt._BODY_TYPES)),
                            _TEXT_RECORD_TYPES=S.SymSet(sorted(ppt._TEXT_RECORD_TYPES))):
                ppt._parse_ppt_document(_Stream(top), content)
        units = [(_num(u), u.get_text()) for u in content.iterate_units()]
    except Exception as e:
        units = None
        ctx.fail("slide-construction-raised", exc=type(e).__name__, msg=str(e)[:100])
    # ---- oracle: [MS-PPT] 2.4.14.3 SlideListWithTextContainer = sequence of SlidePersistAtom, each
    # followed by the text atoms of that slide; recInstance 0 = the presentation's slides
    # (a text atom is governed by the TextHeaderAtom before it; text typed as notes is not slide body)
    is_slide_list = _b(inst == 0)
    cur, header_tt = 0, None
    owner = {}                       # atom index -> slide number (1-based) for text atoms
    for i in range(n):
        t = types[i]
        if _b(t == RT_SLIDE_PERSIST_ATOM):
            cur += 1
        elif _b(t == RT_TEXT_HEADER_ATOM):
            header_tt = ttypes[i]
        elif _b(t == RT_TEXT_CHARS_ATOM) or _b(t == RT_TEXT_BYTES_ATOM):
            notes = header_tt is not None and _b(header_tt == TEXT_TYPE_NOTES)
            if cur >= 1 and not notes:
                owner[i] = cur
    K = cur if is_slide_list else 0
    M = len(conts)
    if K >= 1 and M >= 1 and K != M:
        ctx.assume(False)            # a package lists as many slides as it has slide containers
    nums = [u[0] for u in units]
    info = dict(numbers=nums, listed_slides=K, slide_containers=M, texts=[u[1] for u in units])
    _require_unless_known(ctx, all(a < b for a, b in zip(nums, nums[1:])), "unit-numbers-repeat-or-decrease",
                          _dup_class(nums), **info)
    expected = K if K >= 1 else M
    if ctx.perturb == "expect_one_more_slide":
        expected += 1
    if expected >= 1:
        _require_unless_known(ctx, len(units) == expected and nums == list(range(1, expected + 1)),
                              "slide-without-text-dropped-or-slide-invented",
                              "C03-ppt-slide-without-text-dropped" if len(units) < expected else None,
                              expected=expected, **info)
    if K >= 1:
        for i, sl in owner.items():
            tok = f"T{i}"
            holders = [k for k, u in enumerate(units) if tok in u[1]]
            _require_unless_known(ctx, holders == [sl - 1], "slide-text-not-in-its-own-unit-only",
                                  _fallback_first_slide_class(units, holders), token=tok, slide=sl, **info)
    for j, c in enumerate(conts):
        if c == "1":
            tok = f"S{j}"
            holders = [k for k, u in enumerate(units) if tok in u[1]]
            if K >= 1:
                _require_unless_known(ctx, all(k == j for k in holders), "slide-text-not-in-its-own-unit-only",
                                      _fallback_first_slide_class(units, holders), token=tok, slide=j + 1, **info)
            else:
                _require_unless_known(ctx, holders == [j], "slide-text-not-in-its-own-unit-only",
                                      _fallback_first_slide_class(units, holders), token=tok, slide=j + 1, **info)


def k3_helpers(ctx):
    """_parse_ppt_document with its three record helpers replaced by arbitrary small results
    (fault model of DESIGN K3): which list is used, numbering, raw fallback"""
    ppt = _ppt()
    dt = _dt()
    B = ctx.params.get("blocks", 2)

    def blocks(prefix, k):
        out = []
        for b in range(k):
            has_type = ctx.flag(f"{prefix}b{b}_typed")
            tt = ctx.fresh_int(f"{prefix}b{b}_type", 0, 9) if has_type else None
            out.append((f"{prefix}b{b}", tt))
        return out
    top = ctx.params.get("max_slides", 2) + 1
    n1 = ctx.params["n_list"] if "n_list" in ctx.params else ctx.choice("n_list_slides", top)
    list_slides = [blocks(f"L{s}", ctx.choice(f"L{s}_blocks", B + 1)) for s in range(n1)]
    n2 = ctx.choice("n_container_slides", top)
    cont_slides = [blocks(f"C{s}", 1 + ctx.choice(f"C{s}_blocks", B)) for s in range(n2)]
    raw_mode = ctx.choice("raw", 3)        # 0 nothing, 1 every text of the stream again, 2 one extra text
    all_toks = [t for sl in list_slides + cont_slides for t, _ in sl]
    raw = [[], list(all_toks), ["RAW"]][raw_mode]
    sets = {} if ctx.concrete else dict(_TITLE_TYPES=S.SymSet(sorted(ppt._TITLE_TYPES)),
                                        _BODY_TYPES=S.SymSet(sorted(ppt._BODY_TYPES)))
    content = dt.PptContent()
    with ctx.shadow(ppt, **sets):
        mk = lambda sl: [ppt._make_text_block(t, tt) for t, tt in sl]
        with ctx.stub(ppt, _extract_slide_list_texts=lambda d: [mk(sl) for sl in list_slides],
                      _parse_containers=lambda d: {"slides": [mk(sl) for sl in cont_slides], "notes": [], "master": []},
                      _extract_all_text_raw=lambda d: list(raw)):
            try:
                ppt._parse_ppt_document(b"", content)
                units = [(_num(u), u.get_text()) for u in content.iterate_units()]
            except Exception as e:
                units = None
                ctx.fail("slide-construction-raised", exc=type(e).__name__, msg=str(e)[:100])
    nums = [u[0] for u in units]
    info = dict(numbers=nums, list_slides=n1, container_slides=n2, raw=raw_mode)
    _require_unless_known(ctx, all(a < b for a, b in zip(nums, nums[1:])), "unit-numbers-repeat-or-decrease",
                          _dup_class(nums), **info)
    used = list_slides if n1 else cont_slides
    exp = len(used) + (1 if ctx.perturb == "expect_one_more_slide" else 0)
    if exp:
        _require_unless_known(ctx, nums == list(range(1, exp + 1)), "slide-without-text-dropped-or-slide-invented",
                              "C03-ppt-slide-without-text-dropped" if len(nums) < exp else None,
                              expected=exp, **info)
    for s, sl in enumerate(used):
        for tok, tt in sl:
            if tt is not None and _b(tt == TEXT_TYPE_NOTES):
                continue
            holders = [k for k, u in enumerate(units) if tok in u[1].split("\n")]
            _require_unless_known(ctx, holders == [s], "slide-text-not-in-its-own-unit-only",
                                  _fallback_first_slide_class(units, holders), token=tok, slide=s + 1, **info)


def _fallback_first_slide_class(units, holders):
    """signature of the raw-text fallback: the structured parse found no text, every text the
    raw scan found sits on the first slide and all other slides are empty"""
    if holders == [0] and len(units) >= 2 and all(not u[1] for u in units[1:]):
        return "C03-ppt-raw-fallback-text-on-first-slide"
    return None


def _dup_class(nums):
    """signature of the raw-text fallback: slides 1..k and then one more unit numbered 1"""
    if len(nums) >= 2 and nums[-1] == 1 and nums[:-1] == list(range(1, len(nums))):
        return "C03-ppt-raw-fallback-duplicate-slide-1"
    return None


@_judged
def _k3(ctx):
    return {"records": k3_records, "helpers": k3_helpers}[ctx.params["driver"]](ctx)


def _k3_parts(tier):
    N = 3 if tier == "quick" else 4
    if tier == "quick":
        parts = [{"driver": "helpers", "blocks": 1, "max_slides": 2}]
    else:
        parts = [{"driver": "helpers", "blocks": 1, "max_slides": 3, "n_list": k} for k in range(4)]
    for conts in ("", "1", "0", "11", "10", "01"):
        parts.append({"driver": "records", "N": N, "containers": conts})
    if tier == "thorough":
        parts.append({"driver": "records", "N": 3, "containers": "111"})
        parts.append({"driver": "records", "N": 3, "containers": "101"})
    return parts


def _k3_targets():
    ppt = _ppt()
    dt = _dt()
    return [ppt._parse_ppt_document, ppt._build_slides_from_text_blocks, ppt._extract_slide_list_texts,
            ppt._parse_slide_list_container, ppt._parse_containers, ppt._extract_all_text_raw,
            ppt._make_text_block, dt.PptContent.iterate_units, dt.PptSlideContent.text_combined.fget]



# =======================================================================================
# K4  mbox split arithmetic
# =======================================================================================

def _mbox():
    import sharepoint2text.parsing.extractors.mail.mbox_email_extractor as m
    return m


class _FakeMatch:
    def __init__(self, s, e):
        self._s, self._e = s, e

    def start(self, g=0):
        return self._s

    def end(self, g=0):
        return self._e


class _FakePattern:
    """MBOX_FROM_PATTERN stand-in: finditer yields the harness' separator positions"""

    def __init__(self, matches):
        self.matches = matches

    def finditer(self, data, *a):
        return iter(self.matches)


class _SymData:
    """mailbox bytes of symbolic length in which only the positions matter: a slice is a span
    (start, stop), rstrip(b'\r\n') shortens a span that ends at the end of gap i by that gap's
    symbolic count of trailing CR/LF bytes, truth is non-emptiness"""

    def __init__(self, length, gap_ends, trailing, a=None, b=None):
        self.n, self.gap_ends, self.trailing = length, gap_ends, trailing
        self.a = 0 if a is None else a
        self.b = length if b is None else b

    def sym_len(self):
        return self.b - self.a

    def __bool__(self):
        return _b(self.b > self.a)

    def __getitem__(self, sl):
        if not isinstance(sl, slice) or sl.step not in (None, 1):
            S._unsupported("mailbox bytes: only contiguous slices are modelled")
        a = self.a if sl.start is None else self.a + sl.start
        b = self.b if sl.stop is None else self.a + sl.stop
        return _SymData(self.n, self.gap_ends, self.trailing, a, b)

    def rstrip(self, chars=None):
        if chars != b"\r\n":
            S._unsupported("mailbox bytes: rstrip(%r)" % (chars,))
        for end, t in zip(self.gap_ends, self.trailing):
            if _b(self.b == end):
                nb = self.b - t
                if _b(nb < self.a):
                    nb = self.a
                return _SymData(self.n, self.gap_ends, self.trailing, self.a, nb)
        return self


def _len_shadow(x):
    return x.sym_len() if isinstance(x, _SymData) else len(x)


def k4_mbox(ctx):
    m = _mbox()
    k = ctx.params["k"]
    hi = ctx.params.get("max_len", 60)
    L = ctx.fresh_int("length", 0, hi)
    starts, ends, pre = [], [], []
    prev = 0
    for i in range(k):
        s_ = ctx.fresh_int(f"sep{i}_start", 0, hi)
        e_ = ctx.fresh_int(f"sep{i}_end", 0, hi)
        pre += [s_ >= prev, e_ > s_, e_ <= L]
        starts.append(s_)
        ends.append(e_)
        prev = e_
    gap_ends = starts[1:] + [L]
    trailing = []
    for i in range(k):
        t = ctx.fresh_int(f"gap{i}_trailing_newlines", 0, hi)
        pre.append(t <= gap_ends[i] - ends[i])
        trailing.append(t)
    _assume_all(ctx, pre)
    pat = _FakePattern([_FakeMatch(a, b) for a, b in zip(starts, ends)])
    if ctx.concrete:
        # real bytes: 'p' preamble, separators 'F..F\n', gaps 'm..m' + CR/LF tail
        buf = bytearray(b"p" * L)
        bodies = []
        for i in range(k):
            buf[starts[i]:ends[i]] = b"F" * (ends[i] - starts[i] - 1) + b"\n"
            g = gap_ends[i] - ends[i]
            tail = (b"\r\n" * trailing[i])[:trailing[i]] if i % 2 else b"\n" * trailing[i]
            body = bytes([ord("a") + i]) * (g - trailing[i])
            buf[ends[i]:gap_ends[i]] = body + tail
            bodies.append(body)
        with ctx.stub(m, MBOX_FROM_PATTERN=pat):
            got = m._split_mbox_messages(bytes(buf))
        exp = [b for b in bodies if b]
        if ctx.perturb == "expect_separator_line_in_message":
            exp = [b"F" + b for b in exp]
        ctx.require(got == exp, "messages-are-not-the-gaps-between-separators", got=[x[:12] for x in got],
                    expected=[x[:12] for x in exp])
        return
    data = _SymData(L, gap_ends, trailing)
    with ctx.stub(m, MBOX_FROM_PATTERN=pat), ctx.shadow(m, len=_len_shadow):
        try:
            got = m._split_mbox_messages(data)
        except Exception as e:
            got = None
            ctx.fail("split-raised", exc=type(e).__name__, msg=str(e)[:100])
    # oracle: message i = bytes after separator i up to the next separator (or the end), without
    # the CR/LF tail; empty ones do not count; order kept; nothing of a separator line inside
    j = 0
    for i in range(k):
        a = ends[i]
        if ctx.perturb == "expect_separator_line_in_message":
            a = starts[i]
        b = gap_ends[i] - trailing[i]
        if not _b(b > ends[i]):
            continue
        ctx.require(j < len(got), "message-lost", message=i)
        sp = got[j]
        ok = z3.And(_zint(sp.a) == _zint(a), _zint(sp.b) == _zint(b))
        ctx.require(ok, "messages-are-not-the-gaps-between-separators", message=i)
        j += 1
    ctx.require(j == len(got), "message-invented", got=len(got), expected=j)


# =======================================================================================
# K7  mailbox -> messages -> units with the LIVE separator pattern
# =======================================================================================
# RFC 4155 (application/mbox), default format: a message is preceded by the separator line "From", SP,
# the envelope sender (addr-spec; in practice any token without white space: MAILER-DAEMON, a local user
# name, Mozilla's "-"), SP, a timestamp in ctime() form "Www Mmm dd hh:mm:ss yyyy", end of line; body
# lines that begin with "From " are quoted by the writer (">From ").
_CTIME_PREFIXES = [b"Thu Jan  1 00:00:00 ", b"Fri Dec 31 23:59:59 "]


def k7_mbox_units(ctx):
    """real _split_mbox_messages driven by the LIVE MBOX_FROM_PATTERN (symbolic runs: formula model of
    the pattern's sre parse tree, vf.props.c16._SymPattern, over bytes that are symbolic wherever the
    format leaves a choice) on well-formed mailboxes of k messages; concrete runs use the real ``re``
    and continue through read_mbox_format_mail: one EmailContent (one unit, number 1) per message, in
    source order, each holding its own body only"""
    from vf.props import c16 as R
    m = _mbox()
    K = ctx.params["K"]
    k = ctx.params["k"] if "k" in ctx.params else ctx.choice("n_messages", K + 1)
    sender_lens = ctx.params.get("sender_lens", [1, 4])
    eol = [13, 10] if ctx.flag("crlf") else [10]
    date_form = ctx.choice("ctime_form", len(_CTIME_PREFIXES))
    data, seps, regions = [], [], []

    def line(bs):
        data.extend(list(bs) + eol)

    for i in range(k):
        sa = len(data)
        sl = ctx.params["sender_len"] if "sender_len" in ctx.params else \
            sender_lens[ctx.choice(f"msg{i}_sender_len", len(sender_lens))]
        sender = [ctx.fresh_int(f"msg{i}_sender[{j}]", 33, 126) for j in range(sl)]
        year = [ctx.fresh_int(f"msg{i}_year[{j}]", 48, 57) for j in range(4)]
        data.extend(list(b"From ") + sender + [32] + list(_CTIME_PREFIXES[date_form]) + year + eol)
        ra = len(data)
        line(b"From: s%d@x.org" % i)
        line(b"Subject: SUBJ%dq" % i)
        line(b"Date: Thu, 01 Jan 2015 10:00:0%d +0000" % i)
        line(b"")
        body = ctx.choice(f"msg{i}_body", 3)
        if body >= 1:
            line(b"BODY%dq" % i)
        if body == 2:
            line(b">From the quoted line of BODY%dq 2024" % i)
            line(b"")
            line(b"TAIL%dq" % i)
        rb = len(data)
        while data[rb - 1] in (10, 13):          # (message content is concrete) the region ends before its CR/LF tail
            rb -= 1
        if i < k - 1 or ctx.flag("blank_line_after_last_message"):
            line(b"")
        seps.append((sa, ra))
        regions.append((ra, rb, body))
    n = len(data)
    info = {}
    try:
        if ctx.concrete:
            raw = bytes(data)
            info["mailbox"] = repr(raw)
            got = m._split_mbox_messages(raw)
            spans, pos = [], 0
            for g in got:
                at = raw.find(g, pos) if isinstance(g, bytes) and g else -1
                ctx.require(at >= 0, "message-is-not-a-region-of-the-mailbox", got=repr(g)[:60], **info)
                spans.append((at, at + len(g)))
                pos = at + len(g)
        else:
            with ctx.shadow(m, MBOX_FROM_PATTERN=R._SymPattern(m.MBOX_FROM_PATTERN)):
                got = m._split_mbox_messages(R._MBytes(data))
            spans = [(g.off, g.off + len(g)) for g in got]
    except S.Unsupported:
        raise
    except Exception as e:
        spans = None
        ctx.fail("split-raised", exc=type(e).__name__, msg=str(e)[:100], **info)
    # ---- oracle: the messages are exactly the k regions after the k separator lines
    exp = [(sa if ctx.perturb == "expect_separator_line_in_message" else ra, rb)
           for (sa, _), (ra, rb, _) in zip(seps, regions)]
    info.update(got=[list(x) for x in spans], expected=[list(x) for x in exp])
    if len(spans) < k:
        missing = [i for i, e in enumerate(exp) if e not in spans]
        ctx.fail("message-lost-or-swallowed-by-its-neighbour", messages=missing, **info)
    ctx.require(len(spans) == k, "message-invented", **info)
    ctx.require(spans == exp, "messages-are-not-the-regions-after-the-separator-lines", **info)
    if not ctx.concrete:
        return
    # ---- the same mailbox through the public reader
    try:
        docs = list(m.read_mbox_format_mail(io.BytesIO(raw), "x.mbox"))
        units = [[(_num(u), u.get_text()) for u in d.iterate_units()] for d in docs]
    except Exception as e:
        docs = units = None
        ctx.fail("public-api:read_mbox-raised", exc=type(e).__name__, msg=str(e)[:100], **info)
    info["units"] = units
    ctx.require(len(docs) == k, "public-api:messages-and-extractions-differ-in-number", **info)
    for i, (d, us) in enumerate(zip(docs, units)):
        ctx.require(len(us) == 1 and us[0][0] == 1, "public-api:message-is-not-one-unit-numbered-1", message=i, **info)
        ctx.require(d.subject == "SUBJ%dq" % i, "public-api:extraction-k-is-not-message-k", message=i,
                    subject=d.subject, **info)
        txt = us[0][1]
        for j, (_, _, body) in enumerate(regions):
            for tok, present in (("BODY%dq" % j, body >= 1), ("TAIL%dq" % j, body == 2), ("SUBJ%dq" % j, False)):
                if j == i and present:
                    want = 2 if (tok.startswith("BODY") and body == 2) else 1
                    ctx.require(txt.count(tok) == want, "public-api:unit-text-lost-or-duplicated", message=i,
                                token=tok, **info)
                elif j != i:
                    ctx.require(tok not in txt, "public-api:text-of-another-message-in-unit", message=i,
                                token=tok, **info)
        ctx.require("From " not in txt.replace(">From ", ""), "public-api:separator-line-in-unit-text",
                    message=i, **info)


def _k7_parts(tier):
    if tier == "quick":
        return [{"K": 2, "k": 0}, {"K": 2, "k": 1}, {"K": 2, "k": 2}, {"K": 3, "k": 3, "sender_len": 1},
                {"K": 3, "k": 3, "sender_len": 4}, {"K": 1, "k": 1, "sender_len": 13}]
    return [{"K": 2, "k": 0}, {"K": 2, "k": 1}, {"K": 2, "k": 2, "sender_lens": [1, 3, 6]}] + \
           [{"K": 3, "k": 3, "sender_len": n} for n in (1, 2, 3, 4, 6)] + \
           [{"K": 4, "k": 4, "sender_len": n} for n in (1, 4)] + \
           [{"K": 1, "k": 1, "sender_len": n} for n in (13, 20)] + [{"K": 2, "k": 2, "sender_len": 13}]


# =======================================================================================
# K8  PDF page loop: read_pdf on generated PDFs (blank / contents-less / blank-text / image-only pages)
# =======================================================================================
_PDF_PAGE_KINDS = ["blank (empty content stream)", "blank (no /Contents)", "text", "white-space text", "image only",
                   "text and image"]


def _build_pdf(pages):
    """minimal PDF 1.4 writer (ISO 32000-1 7.5: header, body, xref table, trailer).  pages: list of
    (text or None, has image, has /Contents); the image is a 1x1 DeviceGray XObject painted with Do"""
    objs = []

    def add(b):
        objs.append(b)
        return len(objs)
    cat, pgs = add(b""), add(b"")
    font = add(b"<< /Type /Font /Subtype /Type1 /BaseFont /Helvetica >>")
    img = add(b"<< /Type /XObject /Subtype /Image /Width 1 /Height 1 /ColorSpace /DeviceGray /BitsPerComponent 8 "
              b"/Length 1 >>\nstream\n\x80\nendstream")
    kids = []
    for text, image, has_contents in pages:
        ops = b""
        if text is not None:
            ops += b"BT /F1 24 Tf 72 700 Td (" + text.encode("latin-1") + b") Tj ET"
        if image:
            ops += b" q 10 0 0 10 72 600 cm /Im1 Do Q"
        res = b"<< /Font << /F1 %d 0 R >>" % font + (b" /XObject << /Im1 %d 0 R >>" % img if image else b"") + b" >>"
        if has_contents:
            c = add(b"<< /Length %d >>\nstream\n" % len(ops) + ops + b"\nendstream")
            kids.append(add(b"<< /Type /Page /Parent %d 0 R /MediaBox [0 0 612 792] /Resources %s /Contents %d 0 R >>"
                            % (pgs, res, c)))
        else:
            kids.append(add(b"<< /Type /Page /Parent %d 0 R /MediaBox [0 0 612 792] /Resources %s >>" % (pgs, res)))
    objs[cat - 1] = b"<< /Type /Catalog /Pages %d 0 R >>" % pgs
    objs[pgs - 1] = b"<< /Type /Pages /Count %d /Kids [%s] >>" % (len(kids), b" ".join(b"%d 0 R" % k for k in kids))
    out = io.BytesIO()
    out.write(b"%PDF-1.4\n")
    offs = []
    for n, b in enumerate(objs, 1):
        offs.append(out.tell())
        out.write(b"%d 0 obj\n" % n + b + b"\nendobj\n")
    x = out.tell()
    out.write(b"xref\n0 %d\n0000000000 65535 f \n" % (len(objs) + 1))
    for o in offs:
        out.write(b"%010d 00000 n \n" % o)
    out.write(b"trailer\n<< /Size %d /Root %d 0 R >>\nstartxref\n%d\n%%%%EOF\n" % (len(objs) + 1, cat, x))
    return out.getvalue()


def k8_pdf_pages(ctx):
    """the real read_pdf (page loop, text / image / table helpers, pypdf) on a generated n-page PDF whose
    pages are chosen from _PDF_PAGE_KINDS; then PdfContent.iterate_units / get_full_text"""
    import sharepoint2text
    n = ctx.params["n"]
    fixed = ctx.params.get("first", [])
    kinds = [fixed[i] if i < len(fixed) else ctx.choice(f"page{i}_kind", len(_PDF_PAGE_KINDS)) for i in range(n)]
    spec = []
    for i, kd in enumerate(kinds):
        text = {2: f"A{i}q", 3: " ", 5: f"A{i}q"}.get(kd)
        spec.append((text, kd in (4, 5), kd != 1))
    raw = _build_pdf(spec)
    info = {"pages": [_PDF_PAGE_KINDS[k] for k in kinds]}
    try:
        doc = next(sharepoint2text.read_pdf(io.BytesIO(raw), "x.pdf"))
        units = [(_num(u), u.get_text(), len(u.get_images())) for u in doc.iterate_units()]
        full = doc.get_full_text()
    except Exception as e:
        doc = units = None
        ctx.fail("read_pdf-raised", exc=type(e).__name__, msg=str(e)[:100], **info)
    info["units"] = [list(u) for u in units]
    # ---- oracle: one unit per page of the page tree, in order, numbered by 1-based position
    exp = list(range(n))
    if ctx.perturb == "expect_blank_pages_skipped":
        exp = [i for i in exp if kinds[i] not in (0, 1)]
    ctx.require(len(units) == len(exp), "unit-count-differs-from-page-count", expected=len(exp), **info)
    ctx.require(doc.metadata.total_pages == n, "total-pages-differs-from-page-count", got=doc.metadata.total_pages, **info)
    for (num, txt, nimg), i in zip(units, exp):
        ctx.require(num == i + 1, "unit-number-is-not-the-source-position", page=i + 1, got=num, **info)
        for j, kd in enumerate(kinds):
            tok = f"A{j}q"
            if j == i and kd in (2, 5):
                ctx.require(txt.count(tok) == 1, "unit-text-lost-or-duplicated", page=i + 1, token=tok, **info)
            else:
                ctx.require(tok not in txt, "text-of-another-element-in-unit", page=i + 1, token=tok, **info)
        if kinds[i] in (0, 1, 3, 4):
            ctx.require(txt.strip() == "", "text-invented-for-a-page-without-text", page=i + 1, **info)
        ctx.require(nimg == (1 if kinds[i] in (4, 5) else 0), "page-images-not-in-their-own-unit", page=i + 1,
                    got=nimg, **info)
    ref = "\n".join(u[1] for u in units).strip()
    ctx.require(full == ref, "full-text-is-not-the-trimmed-join-of-units", got=full, expected=ref, **info)


def _k8_parts(tier):
    K = len(_PDF_PAGE_KINDS)
    if tier == "quick":
        return [{"n": 1}, {"n": 2}] + [{"n": 3, "first": [a]} for a in range(K)]
    return [{"n": 1}, {"n": 2}, {"n": 3}] + [{"n": 4, "first": [a, b]} for a in range(K) for b in range(K)]


# =======================================================================================
# K9  RTF body -> explicit pages -> units (read_rtf on generated bodies)
# =======================================================================================
# RTF 1.9.1: lexeme -> (source, semantics).  Semantics: ("tok",) a unique token at %s; ("char", c) the
# literal character c (special characters: \\ \{ \} are the escaped backslash / braces, \'hh a byte of
# the document code page, \uN? a Unicode character followed by its one-character fallback);
# ("page",) \page = required page break; ("ws",) white space of some kind (paragraph mark, tab, blank)
_BS = chr(92)
_RTF_PAGE_LEXEMES = [
    ("text", "W%dq", ("tok",)),
    ("bold-group", "{" + _BS + "b W%dq}", ("tok",)),
    ("page", _BS + "page ", ("page",)),
    ("par", _BS + "par ", ("ws",)),
    ("escaped-backslash", _BS + _BS, ("char", _BS)),
    ("escaped-open-brace", _BS + "{", ("char", "{")),
    ("escaped-close-brace", _BS + "}", ("char", "}")),
    ("hex", _BS + "'e9", ("char", chr(0xE9))),
    ("unicode", _BS + "u8364?", ("char", chr(0x20AC))),
    ("tab", _BS + "tab ", ("ws",)),
    ("space", " ", ("ws",)),
]
_RTF_JUDGED_CHARS = [_BS, "{", "}", chr(0xE9), chr(0x20AC)]


@_judged
def k9_rtf_pages(ctx):
    """the real read_rtf (-> _extract_body_text -> _strip_rtf_full_with_pages -> RtfContent.pages) on a
    body of 1..L lexemes; then RtfContent.iterate_units"""
    import sharepoint2text
    L = ctx.params["L"]
    n = ctx.params["n"] if "n" in ctx.params else 1 + ctx.choice("n_lexemes", L)
    fixed = ctx.params.get("first", [])
    src, used = [], []
    pages = [{"toks": [], "chars": {}}]
    for i in range(n):
        k = fixed[i] if i < len(fixed) else ctx.choice(f"lexeme{i}", len(_RTF_PAGE_LEXEMES))
        name, fmt, sem = _RTF_PAGE_LEXEMES[k]
        used.append(name)
        src.append(fmt % i if "%d" in fmt else fmt)
        if sem[0] == "tok":
            pages[-1]["toks"].append(f"W{i}q")
        elif sem[0] == "char":
            pages[-1]["chars"][sem[1]] = pages[-1]["chars"].get(sem[1], 0) + 1
        elif sem[0] == "page":
            pages.append({"toks": [], "chars": {}})
    rtf = "{" + _BS + "rtf1" + _BS + "ansi" + _BS + "ansicpg1252" + _BS + "deff0 " + "".join(src) + "}"
    info = {"rtf": rtf, "lexemes": used}
    try:
        doc = next(sharepoint2text.read_rtf(io.BytesIO(rtf.encode("cp1252")), "x.rtf"))
        units = [(_num(u), u.get_text()) for u in doc.iterate_units()]
    except Exception as e:
        units = None
        ctx.fail("read_rtf-raised", exc=type(e).__name__, msg=str(e)[:100], **info)
    info["units"] = [list(u) for u in units]
    # ---- oracle (reading of K1s / DESIGN): every page that carries text yields exactly one unit, numbered
    # by the page's 1-based position and holding exactly that page's text; blank pages may be skipped
    inked = [(p, pg) for p, pg in enumerate(pages, start=1) if pg["toks"] or pg["chars"]]
    ctx.require(len(units) == len(inked), "unit-count-differs-from-non-blank-pages", expected=len(inked), **info)
    all_toks = [t for _, pg in inked for t in pg["toks"]]
    for (num, txt), (p, pg) in zip(units, inked):
        for t in all_toks:
            if t in pg["toks"]:
                ctx.require(txt.count(t) == 1, "unit-text-lost-or-duplicated", page=p, token=t, **info)
            else:
                ctx.require(t not in txt, "text-of-another-page-in-unit", page=p, token=t, **info)
        for c in _RTF_JUDGED_CHARS:
            want = pg["chars"].get(c, 0)
            if ctx.perturb == "expect_escaped_characters_dropped" and c in (_BS, "{", "}"):
                want = 0
            ctx.require(txt.count(c) == want, "page-character-lost-or-invented-in-unit", page=p, char=c,
                        got=txt.count(c), expected=want, **info)
    nums = [u[0] for u in units]
    ctx.require(all(a < b for a, b in zip(nums, nums[1:])), "unit-numbers-repeat-or-decrease", **info)
    # blank RTF pages yield no unit and are not counted (documented reading, DESIGN 7.7): the units are numbered
    # 1..k over the pages that carry text, in source order
    ctx.require(nums == list(range(1, len(nums) + 1)), "unit-numbers-not-consecutive-from-1", got=nums, **info)


def _k9_parts(tier):
    K = len(_RTF_PAGE_LEXEMES)
    if tier == "quick":
        return [{"L": 2}] + [{"L": 3, "n": 3, "first": [a]} for a in range(K)]
    return [{"L": 3}] + [{"L": 4, "n": 4, "first": [a]} for a in range(K)] + \
           [{"L": 5, "n": 5, "first": [a, b]} for a in range(K) for b in range(K)]


# =======================================================================================
# K5  PPTX slide order
# =======================================================================================
_REL_PREFIX = "http://schemas.openxmlformats.org/officeDocument/2006/relationships/"
_PKG_REL_NS = "http://schemas.openxmlformats.org/package/2006/relationships"
_P_NS = "http://schemas.openxmlformats.org/presentationml/2006/main"
_A_NS = "http://schemas.openxmlformats.org/drawingml/2006/main"
_R_NS = "http://schemas.openxmlformats.org/officeDocument/2006/relationships"
_TARGET_KINDS = ["slides/%s", "/ppt/slides/%s", "./slides/%s", "../ppt/slides/%s", "../slides/%s"]
_TARGET_KIND_NAMES = ["relative", "absolute", "dot-relative", "dotdot-into-ppt", "dotdot-out-of-ppt"]


def _opc_resolve(source_part, target):
    """ECMA-376 Part 2 (OPC) §8.3: a relationship target is a URI reference resolved against the
    source part's name (RFC 3986 §5.2); returns the ZIP item name of the target part"""
    if target.startswith("/"):
        path = target
    else:
        path = source_part.rsplit("/", 1)[0] + "/" + target
    segs = []
    for seg in path.split("/"):
        if seg == "..":
            if segs:
                segs.pop()
        elif seg and seg != ".":
            segs.append(seg)
    return "/".join(segs)


def _pptx_mod():
    import sharepoint2text.parsing.extractors.ms_modern.pptx_extractor as px
    return px


def _slide_xml(token):
    return (f'<?xml version="1.0" encoding="UTF-8"?><p:sld xmlns:p="{_P_NS}" xmlns:a="{_A_NS}" xmlns:r="{_R_NS}">'
            f'<p:cSld><p:spTree><p:nvGrpSpPr/><p:grpSpPr/><p:sp><p:nvSpPr><p:cNvPr id="2" name="t"/><p:cNvSpPr/>'
            f'<p:nvPr/></p:nvSpPr><p:spPr/><p:txBody><a:bodyPr/><a:p><a:r><a:t>{token}</a:t></a:r></a:p></p:txBody>'
            f'</p:sp></p:spTree></p:cSld></p:sld>')


@_judged
def k5_slide_order(ctx):
    import xml.etree.ElementTree as ET
    px = _pptx_mod()
    R = ctx.params["rels"]
    M = ctx.params["entries"]
    kinds = ctx.params.get("target_kinds", 3)
    ids = ["rId1", "rId2", "rId3", "rId4"]
    n_rels = ctx.choice("n_rels", R + 1)
    rels = []
    for j in range(n_rels):
        kind = ctx.choice(f"rel{j}_target_kind", kinds)
        if ctx.params.get("symbolic_type", True):
            suffix = ctx.fresh_chars(f"rel{j}_type_suffix", ctx.params.get("suffix_len", 5), 65, 122)
        else:
            suffix = "slide"
        fname = f"slide{j + 1}.xml"
        rels.append({"id": ids[j], "type": _REL_PREFIX + suffix, "suffix": suffix,
                     "target": _TARGET_KINDS[kind] % fname, "kind": kind, "file": fname})
    n_entries = ctx.choice("n_entries", M + 1)
    entries = [ids[ctx.choice(f"sldId{e}_rid", n_rels + 1)] if n_rels else ids[3] for e in range(n_entries)]
    if len(set(entries)) != len(entries):
        ctx.assume(False)            # a slide is listed once (sldId/@r:id values are distinct)
    # the two cached XML roots exactly as the context holds them
    rels_root = ET.Element(f"{{{_PKG_REL_NS}}}Relationships")
    for r in rels:
        ET.SubElement(rels_root, f"{{{_PKG_REL_NS}}}Relationship",
                      {"Id": r["id"], "Type": r["type"], "Target": r["target"]})
    pres = ET.Element(f"{{{_P_NS}}}presentation")
    ET.SubElement(pres, f"{{{_P_NS}}}sldMasterIdLst")
    lst = ET.SubElement(pres, f"{{{_P_NS}}}sldIdLst")
    for e, rid in enumerate(entries):
        ET.SubElement(lst, f"{{{_P_NS}}}sldId", {"id": str(256 + e), f"{{{_R_NS}}}id": rid})

    class Holder:
        _presentation_rels_root = rels_root
        _presentation_root = pres
    try:
        order = px._PptxContext._compute_slide_order(Holder())
    except Exception as e:
        order = None
        ctx.fail("slide-order-raised", exc=type(e).__name__, msg=str(e)[:100])
    # ---- oracle: presentation.xml's sldIdLst gives the order (ECMA-376 Part 1 §19.2.1.34), each
    # entry names a relationship of type .../slide whose target resolves (OPC) to the slide part
    by_id = {r["id"]: r for r in rels}
    is_slide = {r["id"]: _b(_cs(r["suffix"]) == "slide") for r in rels}
    exp = []
    for rid in entries:
        r = by_id.get(rid)
        if r is not None and is_slide[rid]:
            exp.append(r)
    if ctx.perturb == "expect_rels_file_order":
        exp = sorted(exp, key=lambda r: r["id"])
    judged_files = {r["file"] for r in rels if is_slide[r["id"]]}
    got = [p for p in order if p.rsplit("/", 1)[-1] in judged_files]
    info = dict(order=list(order), entries=entries,
                rels=[[r["id"], r["target"], str(r["suffix"])] for r in rels])
    units = None
    if ctx.concrete:
        units = _k5_public(ctx, rels, entries)
        info["read_pptx_units"] = units
    ctx.require([p.rsplit("/", 1)[-1] for p in got] == [r["file"] for r in exp],
                "slide-order-is-not-sldIdLst-order", **info)
    for p, r in zip(got, exp):
        want = _opc_resolve("/ppt/presentation.xml", r["target"])
        _require_unless_known(ctx, p == want, "slide-part-name-is-not-the-resolved-target",
                              "C03-pptx-relationship-target-not-resolved" if r["kind"] != 0 else None,
                              got=p, expected=want, target_kind=_TARGET_KIND_NAMES[r["kind"]], **info)
    if ctx.concrete and all(str(r["suffix"]) == "slide" for r in rels):
        # the same package as a real .pptx through the public reader: unit k = slide k
        ctx.require(isinstance(units, list), "public-api:read_pptx-raised", **info)
        ctx.require([n for n, _ in units] == list(range(1, len(exp) + 1)), "public-api:unit-numbers", **info)
        for (n_, t), r in zip(units, exp):
            ctx.require("TOK" + r["file"][5] in t, "public-api:unit-k-does-not-hold-slide-k", **info)


def _k5_public(ctx, rels, entries):
    """replay only: the same package as a real .pptx through sharepoint2text.read_pptx"""
    import zipfile
    px = _pptx_mod()
    buf = io.BytesIO()
    with zipfile.ZipFile(buf, "w") as z:
        z.writestr("[Content_Types].xml", '<?xml version="1.0"?><Types xmlns="http://schemas.openxmlformats.org/'
                   'package/2006/content-types"><Default Extension="xml" ContentType="application/xml"/>'
                   '<Default Extension="rels" ContentType="application/vnd.openxmlformats-package.relationships+xml"/>'
                   '</Types>')
        z.writestr("_rels/.rels", f'<?xml version="1.0"?><Relationships xmlns="{_PKG_REL_NS}"><Relationship Id="rId1" '
                   f'Type="{_REL_PREFIX}officeDocument" Target="ppt/presentation.xml"/></Relationships>')
        z.writestr("ppt/_rels/presentation.xml.rels",
                   f'<?xml version="1.0"?><Relationships xmlns="{_PKG_REL_NS}">' + "".join(
                       f'<Relationship Id="{r["id"]}" Type="{r["type"]}" Target="{r["target"]}"/>' for r in rels) +
                   '</Relationships>')
        z.writestr("ppt/presentation.xml",
                   f'<?xml version="1.0"?><p:presentation xmlns:p="{_P_NS}" xmlns:r="{_R_NS}"><p:sldIdLst>' + "".join(
                       f'<p:sldId id="{256 + e}" r:id="{rid}"/>' for e, rid in enumerate(entries)) +
                   '</p:sldIdLst></p:presentation>')
        for r in rels:
            z.writestr(_opc_resolve("/ppt/presentation.xml", r["target"]), _slide_xml("TOK" + r["file"][5]))
    buf.seek(0)
    try:
        doc = next(px.read_pptx(buf, "x.pptx"))
        return [(_num(u), u.get_text()) for u in doc.iterate_units()]
    except Exception as e:
        return "%s: %s" % (type(e).__name__, str(e)[:100])


def _k5_parts(tier):
    if tier == "quick":
        return [{"rels": 2, "entries": 2, "target_kinds": 3},
                {"rels": 3, "entries": 3, "target_kinds": 2, "symbolic_type": False},
                {"rels": 1, "entries": 1, "target_kinds": 5, "symbolic_type": False}]
    return [{"rels": 3, "entries": 3, "target_kinds": 2},
            {"rels": 2, "entries": 2, "target_kinds": 5},
            {"rels": 3, "entries": 3, "target_kinds": 3, "symbolic_type": False},
            {"rels": 2, "entries": 2, "target_kinds": 2, "suffix_len": 6}]


def _k1_parts_algebra(tier):
    return [p for p in _k1_parts(tier) if p["type"] not in ("RtfContent", "EmailContent*")]


def _k1_parts_symbolic(tier):
    return [p for p in _k1_parts(tier) if p["type"] in ("RtfContent", "EmailContent*")]


# ---------------------------------------------------------------------------------------
# K6: EPUB spine items -> chapters (content documents are identified by their media type)
# ---------------------------------------------------------------------------------------

def k6_epub_spine(ctx):
    from sharepoint2text.parsing.extractors import epub_extractor as ep
    medias = ["application/xhtml+xml", "text/html", "application/xhtml+xml; charset=utf-8", "", "image/png",
              "application/x-dtbncx+xml"]
    media = medias[ctx.choice("media_type", len(medias))]
    n_ext = ctx.choice("href_suffix_len", 7)
    suffix = ctx.fresh_chars("href_suffix", n_ext, 33, 122)
    if ctx.concrete:
        ctx.assume("/" not in suffix)
    else:
        for ch in suffix.c:
            ctx.assume(ch != 47)
    href = ("OEBPS/ch" + suffix) if ctx.concrete else (S.CharStr("OEBPS/ch") + suffix)
    number = 1 + ctx.choice("spine_position", 3)

    class Ctx:
        manifest = {"item": {"href": href, "media-type": media}}

        def resolve_href(self, h):
            return h

        def exists(self, p):
            return True

        def read_text(self, p):
            return "<html><head><title>T</title></head><body><p>CHAPTERTEXT</p></body></html>"

        def read_bytes(self, p):
            return b""
    try:
        chapter, counter, imgs = ep._extract_chapter(Ctx(), "item", number, 0)
    except Exception as e:
        ctx.fail("extract-chapter-raised", exc=type(e).__name__, msg=str(e)[:80])
        return
    is_content_doc = media.startswith("application/xhtml+xml") or media.startswith("text/html")
    if ctx.perturb == "expect_images_as_chapters":
        is_content_doc = is_content_doc or media == "image/png"
    if is_content_doc:
        ctx.require(chapter is not None, "content-document-in-spine-dropped", media_type=media, href=str(href))
        if chapter is not None:
            ctx.require(chapter.chapter_number == number and "CHAPTERTEXT" in chapter.text,
                        "chapter-number-or-text-wrong", got=chapter.chapter_number)
    else:
        ctx.require(True, "not-a-content-document")



KERNELS = [
    Kernel("K1", "unit algebra of every content type of the registry: one unit per source element, number = source "
                 "position, unit k holds element k only, full text = trimmed newline-join of the unit texts",
           _k1, targets=_k1_targets, parts=_k1_parts_algebra, strength="structure",
           bounds={"quick": {}, "thorough": {}},
           perturb=[("expect_zero_based", {"type": "PdfContent", "N": 2}),
                    ("expect_untrimmed_join", {"type": "XlsxContent", "N": 2})],
           symbolic=["stored slide_number / chapter_number of PPTX, ODP, PPT, EPUB elements (strictly increasing ints, "
                     "compared symbolically with the unit numbers)"],
           choices=["number of pages/slides/sheets/chapters 0..3 (thorough 0..4)",
                    "text of every element from {'', ' ', 'A<i>', 'B<i>\\n', '\\n C<i>'}",
                    "image-only page, formula on a slide (inline/display), sheet name present, table-only sheet, "
                    "slide title/body present, e-mail plain and HTML body"],
           assumptions=["stored slide / chapter numbers are strictly increasing and >= 1 (what the extractors write)",
                        "content types are taken from serialization._get_type_registry(); a type without a model in "
                        "this module fails the part '<registry>'"],
           outside=["how extractors fill the objects (page loop over pypdf, EPUB spine over the zip, sheet readers): "
                    "C03/K3-K5 cover ppt, mbox, pptx; the rest belongs to third-party parsers",
                    "get_full_text of doc/docx/odt/xls/ppt/rtf is not derived from units by documentation: only "
                    "'every unit token shows up in order' is checked for them"],
           timeout={"quick": 100, "thorough": 1100}),
    Kernel("K1s", "RTF pages and e-mail bodies as SYMBOLIC strings: blank-page skipping keeps source positions, "
                  "e-mail always yields one unit (plain, else HTML, else empty)",
           _k1, targets=lambda: [_dt().RtfContent.iterate_units, _dt().RtfContent.get_full_text,
                                 _dt().EmailContent.iterate_units, _dt().EmailContent.__post_init__],
           parts=_k1_parts_symbolic, strength="data",
           perturb=[("expect_blank_pages_kept", {"type": "RtfContent", "n": 2, "page_len": 2, "mode": "pages"}),
                    ("expect_html_preferred", {"type": "EmailContent*", "plain_len": 2, "html_len": 2})],
           symbolic=["every character of every RTF page (TAB LF VT FF CR, printable ASCII), 0..3 pages of 2 chars "
                     "(thorough: 0..4 pages, 3 chars)", "every character of the e-mail plain / HTML body (lengths 0..3)"],
           choices=["full_text present next to pages", "flow mode: full text / paragraph fallback from the alphabet"],
           assumptions=["RTF reading (DESIGN): a page that is blank may be skipped, every other page yields exactly "
                        "one unit numbered by its 1-based position and holding exactly that page's text",
                        "characters FS..US (0x1c-0x1f), which python strips as white space, are left out"],
           outside=["splitting RTF into pages (\\page handling in the RTF parser: C02/K4)"],
           timeout={"quick": 100, "thorough": 1100}),
    Kernel("K2", "heading-section units of DOCX / ODT / DOC: numbers 1..m, every body paragraph in exactly one unit "
                 "and in the unit of its own section, in order; heading text only in heading paths and in at least one",
           _k2, targets=_k2_targets, parts=_k2_parts, strength="data",
           perturb=[("expect_flat_heading_path", {"fmt": "docx", "n": 3, "anchor": "none", "style_len": 8}),
                    ("expect_own_unit_for_every_heading", {"fmt": "docx", "n": 2, "anchor": "none", "style_len": 9})],
           stubs=["data_types.re -> model of the one compiled pattern ^heading\\s*(\\d+)\\b (IGNORECASE) on bounded "
                  "symbolic strings; any other pattern is reported as unsupported; concrete replays use the real re",
                  "data_types.int -> decimal value of a symbolic digit string"],
           symbolic=["DOCX: every character of every paragraph style name (8..11 printable ASCII chars: the solver "
                     "finds 'heading 9', 'HEADING99', ... itself), hence the heading level; has_page_break of every "
                     "paragraph", "ODT: text:outline-level of every heading (1..10), every character of every "
                     "paragraph style name (10 chars; 'Table_20_...' cell styles are found by the solver)"],
           choices=["paragraph has a style / is text:p, styled text:p or text:h", "paragraph text from {'', token} "
                    "(+ blank, blank-padded token in the small parts)", "one table or image anchored at a paragraph "
                    "(DOCX), one table / image in the document (ODT, DOC)", "DOC: every line from {'', blank, token, "
                    "padded token, 'Chapter N', 'Subsection N', 'intro', table line}, LF / CRLF"],
           assumptions=["DOCX style names are either certainly heading styles ('heading', blanks, digits - any case) or "
                        "do not begin with 'heading'; other names ('Heading 1 Char', 'heading1x') are not judged",
                        "ODT style names either begin with 'Table_20_' (table-cell paragraphs, text reported through "
                        "the table) or do not contain 'Table'", "heading texts are distinct tokens",
                        "DOC: 'Chapter N' / 'Subsection N' / 'intro' lines may be filed as headings or as body text "
                        "(both readings accepted); token lines are body text under every reading",
                        "a page break may split a section into several units; empty units are allowed"],
           outside=["more than 3 (thorough 4-5) paragraphs; non-ASCII style names; nested tables / several anchors",
                    "which unit a table or image is attached to (C13/C14)"],
           timeout={"quick": 100, "thorough": 1100}),
    Kernel("K3", "legacy PPT: one unit per slide of the SlideListWithText (else per slide container), numbered by "
                 "position without repeats, slide text in its own unit only",
           _k3, targets=_k3_targets, parts=_k3_parts, strength="data",
           perturb=[("expect_one_more_slide", {"driver": "records", "N": 2, "containers": ""})],
           stubs=["records driver, symbolic runs: _iter_records -> walk over a harness record tree (stream order, "
                  "containers stepped into, byte-layout offsets); _UINT32.unpack_from -> the symbolic text type; "
                  "replays serialise the tree and run the REAL _iter_records / struct",
                  "helpers driver: _extract_slide_list_texts / _parse_containers / _extract_all_text_raw -> arbitrary "
                  "small results (fault model)"],
           symbolic=["record type of every atom inside the SlideListWithText container (0..0xFFFF: the solver finds "
                     "SlidePersistAtom, TextHeaderAtom, TextCharsAtom, TextBytesAtom, CString itself)",
                     "recInstance of the container (0 slides, 1 master, 2 notes)",
                     "text type of every TextHeaderAtom (32 bit; title/body/notes sets as solver-decided membership)",
                     "helpers driver: text type of every block"],
           choices=["number of atoms 0..3 (thorough 0..4)", "0..2 (thorough 3) slide containers with / without drawing text",
                    "helpers driver: 0..2 (3) list slides x 0..2 (3) container slides x 0..1 blocks x raw-text mode"],
           assumptions=["well-formed record stream (the resynchronisation branch of _iter_records is C01/K2)",
                        "a package lists as many slides as it has slide containers (when both are present)",
                        "text governed by a notes-type TextHeaderAtom is not slide body text"],
           outside=["OLE container, PersistDirectory order of slide containers, text inside escher client data "
                    "beyond one text atom per container; not replayed through read_ppt (no OLE writer): unit-level"],
           timeout={"quick": 100, "thorough": 1100}),
    Kernel("K4", "mbox split: messages are exactly the gaps between separator lines, in order, without the CR/LF "
                 "tail; empty gaps do not count",
           k4_mbox, targets=lambda: [_mbox()._split_mbox_messages], strength="data",
           parts=lambda tier: [{"k": k} for k in range(0, (4 if tier == "quick" else 7))],
           perturb=[("expect_separator_line_in_message", {"k": 2})],
           stubs=["MBOX_FROM_PATTERN -> finditer yields the harness' separator positions (the regex itself: C16)",
                  "symbolic runs: the mailbox is a length-only byte string (slices are spans, rstrip(b'\\r\\n') removes "
                  "the gap's symbolic CR/LF tail); replays build real bytes and run the real slicing",
                  "mbox_email_extractor.len -> symbolic length"],
           symbolic=["mailbox length (0..60)", "start and end of each of 0..3 (thorough 0..6) separator lines "
                     "(ordered, non-overlapping, non-empty)", "number of trailing CR/LF bytes of every gap"],
           assumptions=["separator matches are ordered and do not overlap (what re.finditer guarantees)"],
           outside=["which lines the regex accepts as separators (C03/K7 on well-formed mailboxes, C16/K1 in general)",
                    "parsing of each message"],
           timeout={"quick": 100, "thorough": 1100}),
    Kernel("K7", "mbox: one message (one extraction, one unit) per RFC 4155 separator line whatever the envelope "
                 "sender token and year, in source order, each message holding its own region only",
           k7_mbox_units, targets=lambda: [_mbox()._split_mbox_messages, _mbox().read_mbox_format_mail],
           strength="data", parts=_k7_parts,
           perturb=[("expect_separator_line_in_message", {"K": 2, "k": 2})],
           stubs=["symbolic runs: MBOX_FROM_PATTERN -> formula model built from the LIVE pattern's sre parse tree "
                  "(vf.props.c16._SymPattern / _Rx, validated against re by C16/K1a and by every replay, which runs "
                  "the real re); mailbox bytes -> list of ints / solver variables with slice + rstrip",
                  "replays: the real bytes through _split_mbox_messages and read_mbox_format_mail"],
           symbolic=["every character of every separator line's envelope sender (1, 4, 13 printable non-blank "
                     "characters; thorough 1..20): the solver finds senders with and without '@', digits, ':'",
                     "the four year digits of every separator line"],
           choices=["0..3 (thorough 4) messages", "LF / CRLF line ends", "ctime form (blank-padded / two-digit day)",
                    "message body: none, one line, several lines with a quoted '>From ' line and an inner blank line",
                    "blank line after the last message"],
           assumptions=["well-formed mailbox (RFC 4155): every message is preceded by a separator line 'From <sender "
                        "token> <ctime timestamp>'; body lines beginning with 'From ' are quoted by the writer",
                        "reference = the construction: message i is the region after separator line i without the "
                        "CR/LF tail"],
           outside=["mailboxes that are not well-formed (C16/K1b)", "MIME structure of the messages (C16)"],
           timeout={"quick": 100, "thorough": 1100}),
    Kernel("K8", "PDF: read_pdf yields one page object / unit per page of the page tree - blank, contents-less, "
                 "white-space and image-only pages included - numbered by position; full text = trimmed join",
           k8_pdf_pages, targets=lambda: [__import__("sharepoint2text.parsing.extractors.pdf.pdf_extractor",
                                                     fromlist=["x"]).read_pdf, _dt().PdfContent.iterate_units],
           strength="structure", parts=_k8_parts,
           perturb=[("expect_blank_pages_skipped", {"n": 2})],
           choices=["1..3 (thorough 4) pages", "every page from {empty content stream, no /Contents, text token, "
                    "white-space text, image only, text and image}"],
           assumptions=["the PDF is a minimal well-formed PDF 1.4 file written by the harness (one Type1 font, one 1x1 "
                        "DeviceGray image XObject); reference = the construction"],
           outside=["text extraction quality inside a page (pypdf, spacing heuristics: C02)", "encrypted PDFs (C12)"],
           timeout={"quick": 100, "thorough": 1100}),
    Kernel("K9", "RTF: read_rtf splits the body on \\page; every page with text is one unit numbered by its position "
                 "and holds exactly its own tokens and literal characters (escaped \\ { }, \\'hh, \\uN)",
           k9_rtf_pages, targets=lambda: [__import__("sharepoint2text.parsing.extractors.ms_legacy.rtf_extractor",
                                                     fromlist=["x"])._RtfParser._strip_rtf_full_with_pages,
                                          _dt().RtfContent.iterate_units],
           strength="structure", parts=_k9_parts,
           perturb=[("expect_escaped_characters_dropped", {"L": 2})],
           choices=["1..3 (thorough 5) lexemes from {token, token in a bold group, \\page, \\par, escaped backslash, "
                    "escaped open / close brace, \\'e9, \\u8364?, \\tab, blank}"],
           assumptions=["reference semantics of the lexemes from RTF 1.9.1 (special characters, \\page = required page "
                        "break); a page without text may be skipped, the others keep their 1-based position"],
           outside=["other control words / destinations (C02/K4)", "NBSP and soft hyphen at page edges (trimmed)"],
           timeout={"quick": 100, "thorough": 1100}),
    Kernel("K6", "EPUB: every spine item whose media type is XHTML/HTML becomes a chapter with its spine position",
           k6_epub_spine,
           targets=lambda: [__import__("sharepoint2text.parsing.extractors.epub_extractor", fromlist=["x"])._extract_chapter],
           perturb=["expect_images_as_chapters"],
           symbolic=["every character of the chapter file name's suffix (length 0..6)"],
           choices=["manifest media type", "spine position"],
           stubs=["_EpubContext -> stand-in with one manifest item; file exists and holds one paragraph"]),
    Kernel("K5", "PPTX slide order follows sldIdLst; each slide part name is the OPC-resolved relationship target",
           k5_slide_order, targets=lambda: [_pptx_mod()._PptxContext._compute_slide_order], strength="data",
           parts=_k5_parts, perturb=[("expect_rels_file_order", {"rels": 2, "entries": 2, "target_kinds": 1})],
           symbolic=["last path segment of every relationship Type URI (5 letters; 6 in thorough): the solver "
                     "decides the code's substring test 'slide' in type"],
           choices=["0..2 (3) relationships with ids rId1..rId3", "target form: slides/x, /ppt/slides/x, ./slides/x, "
                    "../ppt/slides/x, ../slides/x", "0..2 (3) distinct sldId entries, each naming a relationship or a "
                    "dangling id"],
           assumptions=["a relationship is a slide relationship iff its type is exactly .../relationships/slide; "
                        "entries naming relationships of other types are not judged",
                        "reference: ECMA-376 Part 2 target resolution (RFC 3986) against /ppt/presentation.xml",
                        "replays also build the package as a real .pptx and run sharepoint2text.read_pptx"],
           outside=["strict-namespace packages (purl.oclc.org type URIs)", "shape order inside a slide (C02/K6)"],
           timeout={"quick": 100, "thorough": 1100}),
]

META = {
    "level_text": "The real iterate_units / get_full_text of all 17 content types, the heading-section builders of "
                  "DOCX/ODT/DOC, the legacy-PPT slide construction, the mbox splitter and the PPTX slide-order function "
                  "are executed on bounded symbolic state: paragraph style names, outline levels, page-break flags, PPT "
                  "record types / text types, separator positions and relationship types are solver variables, so the "
                  "code's own comparisons split the cases; on every feasible path an oracle written from the property "
                  "text and the file-format specifications (unit numbers = source positions without repeats, every "
                  "piece of body text in exactly the unit of its section / slide / page, full text = trimmed join) is "
                  "decided. Eight defect classes are found, replayed on the untouched code (three also through "
                  "read_docx / read_pptx on real packages) and recorded as known findings.",
    "level_note": "Bounds: <= 3 (thorough 4-5) elements per document, style names of 8-11 ASCII characters, <= 3 (5) PPT "
                  "atoms, <= 3 (6) mbox separators, <= 3 (4) mbox messages with envelope senders of 1-13 (20) symbolic "
                  "characters (K7; regex model of vf.props.c16). Trusted: the hand-written model of one regular expression and of "
                  "_iter_records on well-formed streams (both re-validated by concrete replay of passing paths and of "
                  "every counterexample). K1 texts come from a finite alphabet (str.join cannot carry symbolic strings); "
                  "outside: third-party parsers that fill the objects.",
    "technique": "symbolic execution of the repository functions on z3-backed proxies (symrun: SymInt, SymBool, CharStr "
                 "with per-character variables, set membership as disjunctions), per-path SMT queries against reference "
                 "predicates, structure enumeration by solver-free choices, concrete replay through the public readers",
}
