"""C03 - units mirror pages / slides / sheets / chapters / messages.

K1  unit algebra of every content type of data_types on arbitrary state
K2  heading-section units of DocxContent / OdtContent / DocContent (styles, levels, flags symbolic)
K3  legacy PPT slide construction (record types / text types symbolic; helper-level fault model)
K4  mbox split arithmetic on symbolic separator positions
K5  PPTX slide order from presentation.xml + relationships (OPC target resolution)
"""
import io
import re as _real_re
import struct

import z3

from vf.core import Kernel
from vf import symrun as S


def _dt():
    import sharepoint2text.parsing.extractors.data_types as dt
    return dt


# ---------------------------------------------------------------------------------------
# small helpers that work on proxies and on plain values alike
# ---------------------------------------------------------------------------------------

def _cs(x):
    return x if isinstance(x, S.CharStr) else S.CharStr(x)


def _b(x):
    """truth value; on a proxy this is a fork decided by the solver.  A condition that was
    already decided on this path (same z3 term) is answered from a per-path memo instead of
    two more feasibility checks (the model code and the oracle ask the same questions as the
    code under test asked before them)."""
    if not isinstance(x, S.SymBool):
        return bool(x)
    ctx = S.cur()
    memo = ctx.__dict__.setdefault("_c03_memo", {})
    c = z3.simplify(x.z)
    hit = memo.get(c.get_id())
    if hit is not None:
        return hit[1]
    r = bool(S.SymBool(c))
    memo[c.get_id()] = (c, r)          # the term is kept alive so that its id stays unique
    n = z3.simplify(z3.Not(c))
    memo[n.get_id()] = (n, not r)
    return r


def _digits_value(codes):
    """decimal value of a list of digit codes (python int, or SymInt when a code is symbolic)"""
    if all(isinstance(c, int) for c in codes):
        return int("".join(chr(c) for c in codes))
    v = 0
    for c in codes:
        v = v * 10 + (c - 48)
    return v


def _zint(v):
    return v.z if isinstance(v, S.SymInt) else z3.IntVal(int(v))


def _num(u):
    return u.get_metadata().unit_number


# =======================================================================================
# K2  heading-section units
# =======================================================================================

_HEADING_PATTERN = r"^heading\s*(\d+)\b"
_REAL_HEADING_RE = _real_re.compile(_HEADING_PATTERN, flags=_real_re.IGNORECASE)


class _HeadingMatch:
    def __init__(self, digits):
        self._d = digits

    def group(self, k=0):
        if k != 1:
            S._unsupported("heading_re.match(...).group(%r)" % (k,))
        return self._d


class _HeadingRe:
    """model of re.compile(r"^heading\\s*(\\d+)\\b", IGNORECASE).match on a CharStr of printable
    ASCII (32..126): only ' ' is \\s, only 0-9 is \\d, \\w is [A-Za-z0-9_].  \\d+ is greedy and
    a shorter digit run never ends at a word boundary, so no backtracking case exists.
    Differentially validated at every replay (concrete runs use the real ``re``)."""

    def match(self, s):
        if isinstance(s, str):
            return _REAL_HEADING_RE.match(s)
        c = s.c
        n = len(c)
        cache = S.cur().__dict__.setdefault("_c03_match", {})
        key = tuple(id(x) for x in c)
        if key in cache:
            return cache[key][1]
        r = self._match(s, c, n)
        cache[key] = (c, r)
        return r

    def _match(self, s, c, n):
        if n < 8:
            return None
        if not _b(s[:7].lower() == "heading"):
            return None
        i = 7
        while i < n and _b(c[i] == 32):
            i += 1
        j = i
        while j < n and _b(_is_digit(c[j])):
            j += 1
        if j == i:
            return None
        if j < n:
            ch = c[j]
            word = S.CharStr._disj([
                S.CharStr._conj([_mk(ch >= 48), _mk(ch <= 57)]),
                S.CharStr._conj([_mk(ch >= 65), _mk(ch <= 90)]),
                S.CharStr._conj([_mk(ch >= 97), _mk(ch <= 122)]),
                _mk(ch == 95)])
            if _b(word):
                return None
        return _HeadingMatch(S.CharStr(c[i:j]))


def _is_digit(ch):
    return S.CharStr._conj([_mk(ch >= 48), _mk(ch <= 57)])


def _mk(x):
    """SymBool/bool -> what CharStr._conj/_disj expect (z3 term or python bool)"""
    if isinstance(x, S.SymBool):
        return x.z
    return bool(x)


class _ReShadow:
    """the name ``re`` as seen from data_types during symbolic runs"""
    IGNORECASE = _real_re.IGNORECASE

    @staticmethod
    def compile(pattern, flags=0):
        if pattern == _HEADING_PATTERN and flags == _real_re.IGNORECASE:
            return _HeadingRe()
        S._unsupported("re.compile(%r) has no symbolic model (source changed?)" % (pattern,))


def _sym_int(x=0, *a):
    if isinstance(x, S.CharStr):
        return _digits_value(x.c)
    return S.sym_int(x, *a)


def _docx_style_class(style, trimmed=False):
    """My reading of WordprocessingML paragraph styles: the built-in heading styles are named
    'heading N' (UI: 'Heading N').  Whole-string reading, written independently of the regex:
      ('heading', N)   the trimmed name is 'heading', optional blanks, a decimal number - nothing else
      ('body', None)   no style, or the trimmed name does not begin with 'heading' (any case)
      ('ambiguous',)   anything else ('Heading 1 Char', 'heading1x', 'Headings') - not judged"""
    if style is None:
        return ("body", None)
    s = _cs(style)
    if not trimmed:
        s = s.strip()
    if not _b(s[:7].lower() == "heading"):
        return ("body", None)
    rest = s.c[7:]
    k = 0
    while k < len(rest) and _b(rest[k] == 32):
        k += 1
    digits = rest[k:]
    if not digits:
        return ("ambiguous", None)
    for d in digits:
        if not _b(_is_digit(d)):
            return ("ambiguous", None)
    return ("heading", _digits_value(digits))


def _assume_all(ctx, conds):
    """one assume for a list of bool / SymBool / z3 conditions"""
    zs = []
    for c in conds:
        if isinstance(c, S.SymBool):
            zs.append(c.z)
        elif z3.is_expr(c):
            zs.append(c)
        elif not c:
            ctx.assume(False)
    if zs:
        ctx.assume(z3.And(*zs) if len(zs) > 1 else zs[0])


def _unambiguous_style(ctx, style):
    """precondition as one formula (no forks): the style name is certainly a heading style or
    certainly not one under _docx_style_class (the later classification then follows the case
    splits the code under test made itself).  In replay the classification itself rejects."""
    if ctx.concrete or len(style.c) < 7:
        return True
    c = [S._as_int_term(x) for x in style.c]
    low = [z3.If(z3.And(x >= 65, x <= 90), x + 32, x) for x in c[:7]]
    is_h = z3.And(*[a == ord(b) for a, b in zip(low, "heading")])
    rest = c[7:]
    dig = [z3.And(x >= 48, x <= 57) for x in rest]
    shapes = [z3.And(*([x == 32 for x in rest[:k]] + dig[k:])) for k in range(len(rest))]
    return z3.Or(z3.Not(is_h), z3.And(is_h, z3.Or(*shapes)) if shapes else z3.BoolVal(False))


def _text_from_kind(kind, tok):
    return ["", tok, " ", " " + tok + " \n"][kind]


def _chain(heads, h):
    """outline rule: the parent of a heading is the nearest preceding heading of a strictly
    smaller level; returns the list of ancestor headings ending in h (level comparisons fork)"""
    out = [h]
    cur = h
    for g in reversed([x for x in heads if x["i"] < h["i"]]):
        if _b(g["level"] < cur["level"]):
            out.append(g)
            cur = g
    return out[::-1]


def _section_oracle(ctx, items, units, allow_heading_like_in_body=False):
    """items: source paragraphs {'i','kind' heading|body|skip,'level','tok' (None = blank),'pb'}
    units: [(number, text, heading_path)] as observed.  Written from the property text:
      numbers 1..m; without headings one unit holding everything; with headings every non-blank
      body paragraph in exactly one unit, in source order, that unit being the one of its own
      section (last heading-path entry = nearest preceding heading, no foreign heading in the
      path); heading text never in a unit body, and present in some unit's heading path."""
    perturb = ctx.perturb
    nums = [u[0] for u in units]
    m = len(units)
    ctx.require(nums == list(range(1, m + 1)), "unit-numbers-not-1..m", numbers=nums)
    heads = [it for it in items if it["kind"] == "heading"]
    bodies = [it for it in items if it["kind"] == "body" and it["tok"]]
    texts = [u[1] for u in units]
    paths = [list(u[2]) for u in units]
    if not heads:
        ctx.require(m == 1, "flowing-text-without-headings-is-not-one-unit", units=m)
        pos = -1
        for it in bodies:
            c = texts[0].count(it["tok"])
            ctx.require(c == 1, "body-text-lost" if c == 0 else "body-text-duplicated",
                        cls="fallback", para=it["i"], count=c)
            ctx.require(texts[0].find(it["tok"]) > pos, "body-text-out-of-source-order", para=it["i"])
            pos = texts[0].find(it["tok"])
        return
    for h in heads:
        if h["tok"] and not allow_heading_like_in_body:
            ctx.require(all(h["tok"] not in t for t in texts), "heading-text-in-unit-body", para=h["i"])
    where = {}
    lost = []
    for it in bodies:
        total = sum(t.count(it["tok"]) for t in texts)
        if total == 0:
            lost.append(it)
            continue
        ctx.require(total == 1, "body-text-duplicated", para=it["i"], count=total)
        k = [j for j, t in enumerate(texts) if it["tok"] in t][0]
        where[it["i"]] = (k, texts[k].find(it["tok"]))
    seq = [where[it["i"]] for it in bodies if it["i"] in where]
    ctx.require(seq == sorted(seq), "body-text-out-of-source-order", placement=[list(x) for x in seq])

    def section_of(it):
        prev = [h for h in heads if h["i"] < it["i"]]
        return prev[-1] if prev else None

    for it in bodies:
        if it["i"] not in where:
            continue
        k = where[it["i"]][0]
        sec = section_of(it)
        got = paths[k]
        if sec is None:
            ctx.require(got == [], "text-before-first-heading-filed-under-a-heading", para=it["i"], got=got)
            continue
        chain = _chain(heads, sec)
        anc = [g["tok"] for g in chain if g["tok"]]
        if perturb == "expect_flat_heading_path":
            anc = anc[-1:]
        if sec["tok"]:
            ctx.require(got[-1:] == [sec["tok"]], "unit-is-not-the-paragraph's-own-section",
                        para=it["i"], section=sec["tok"], got=got)
        ctx.require(all(g in anc for g in got), "foreign-heading-in-heading-path",
                    para=it["i"], ancestors=anc, got=got)
    # lost body text, most specific classes last (so that an unknown cause is reported first)
    classed = []
    for it in lost:
        sec = section_of(it)
        if sec is None:
            classed.append((2, "before-first-heading", it))
        elif not [g for g in _chain(heads, sec) if g["tok"]]:
            classed.append((1, "under-heading-without-text", it))
        else:
            classed.append((0, "section", it))
    for _, cls, it in sorted(classed, key=lambda x: (x[0], x[2]["i"])):
        pbv = None
        if cls == "section" and it.get("pb") is not None:
            pbv = _b(it["pb"])
        ctx.require(False, "body-text-lost", cls=cls, para=it["i"], page_break=pbv)

    # a heading whose section produced no unit and that no later unit names in its path
    for h in heads:
        if h["tok"]:
            ctx.require(any(h["tok"] in p for p in paths) or
                        (allow_heading_like_in_body and any(h["tok"] in t for t in texts)),
                        "heading-text-in-no-unit", para=h["i"], heading=h["tok"])

def k2_docx(ctx):
    dt = _dt()
    n = ctx.params["n"]
    L = ctx.params.get("style_len", 9)
    nt = ctx.params.get("texts", 2)
    anchor = ctx.params.get("anchor", "none")
    paras, raw, pre = [], [], []
    for i in range(n):
        style = None
        if ctx.flag(f"styled{i}"):
            style = ctx.fresh_chars(f"style{i}", L, 32, 126)
            if not ctx.params.get("style_ws"):
                pre.append(style[0:1] != " ")
                pre.append(style[L - 1:L] != " ")
                pre.append(_unambiguous_style(ctx, style))
        tk = ctx.choice(f"text{i}", nt)
        tok = f"p{i}q"
        text = _text_from_kind(tk, tok)
        pb = ctx.fresh_bool(f"pb{i}")
        paras.append(dt.DocxParagraph(text=text, style=style, has_page_break=pb))
        raw.append((style, tok if tk in (1, 3) else None, pb))
    _assume_all(ctx, pre)
    tables, tanch, images = [], [], []
    if anchor != "none" and n:
        a = ctx.choice("anchor_para", n)
        if anchor == "table":
            tables, tanch = [[["c"]]], [a]
        else:
            images = [dt.DocxImage(rel_id="r1", image_index=1, anchor_paragraph_indices=[a])]
    content = dt.DocxContent(paragraphs=paras, tables=tables, table_anchor_paragraph_indices=tanch,
                             images=images, full_text="\n".join(p.text for p in paras))
    with ctx.shadow(dt, re=_ReShadow, int=_sym_int):
        try:
            units = list(content.iterate_units())
        except Exception as e:
            units = None
            ctx.fail("iterate_units-raised", exc=type(e).__name__, msg=str(e)[:100])
    # oracle (after the run, so that the case splits on the styles are the code's own)
    items = []
    for i, (style, tok, pb) in enumerate(raw):
        cls, lev = _docx_style_class(style, trimmed=not ctx.params.get("style_ws"))
        if cls == "ambiguous":
            ctx.assume(False)
        items.append({"i": i, "kind": cls, "level": lev, "tok": tok, "pb": pb})
    obs = [(_num(u), u.get_text(), u.get_metadata().heading_path) for u in units]
    _section_oracle(ctx, items, obs)


def k2_odt(ctx):
    dt = _dt()
    n = ctx.params["n"]
    L = ctx.params.get("style_len", 10)
    nt = ctx.params.get("texts", 2)
    extra = ctx.params.get("extra", "none")
    paras, raw = [], []
    for i in range(n):
        kind = ctx.choice(f"kind{i}", 3)   # 0 text:p without style, 1 text:p with a style, 2 text:h
        style, level = None, None
        if kind == 1:
            style = ctx.fresh_chars(f"style{i}", L, 33, 126)
        elif kind == 2:
            level = ctx.fresh_int(f"level{i}", 1, 10)
        tk = ctx.choice(f"text{i}", nt)
        tok = f"p{i}q"
        paras.append(dt.OdtParagraph(text=_text_from_kind(tk, tok), style_name=style, outline_level=level))
        raw.append((kind, style, level, tok if tk in (1, 3) else None))
    tables, images = [], []
    if extra == "table":
        tables = [dt.OdtTable(data=[["c"]])]
    elif extra == "image":
        images = [dt.OpenDocumentImage(href="Pictures/1.png", image_index=1)]
    content = dt.OdtContent(paragraphs=paras, tables=tables, images=images,
                            full_text="\n".join(p.text for p in paras))
    try:
        units = list(content.iterate_units())
    except Exception as e:
        units = None
        ctx.fail("iterate_units-raised", exc=type(e).__name__, msg=str(e)[:100])
    items = []
    for i, (kind, style, level, tok) in enumerate(raw):
        if kind == 2:
            # ODF 1.2 §5.1.2: text:h is a heading, text:outline-level its level.  A heading
            # without text cannot open a section that anything could be attributed to.
            items.append({"i": i, "kind": "heading" if tok else "skip", "level": level, "tok": tok})
        elif kind == 1:
            # paragraphs inside table cells carry LibreOffice's cell styles 'Table_20_Contents' /
            # 'Table_20_Heading' (their text is table content, reported through the table);
            # a style that does not contain 'Table' at all is ordinary body text
            s = _cs(style)
            if _b(s.startswith("Table_20_")):
                items.append({"i": i, "kind": "skip", "level": None, "tok": tok})
            elif _b(s._contains("Table")):
                ctx.assume(False)
            else:
                items.append({"i": i, "kind": "body", "level": None, "tok": tok})
        else:
            items.append({"i": i, "kind": "body", "level": None, "tok": tok})
    obs = [(_num(u), u.get_text(), u.get_metadata().heading_path) for u in units]
    _section_oracle(ctx, items, obs)


_DOC_LINES = ["", "  ", "b%dq", " b%dq ", "Chapter %d", "Subsection %d", "intro", "x%d y%d"]


def k2_doc(ctx):
    """legacy DOC has no styles: headings are recognised from the line text.  Lines that cannot be
    headings under any reading (token lines) are judged as body text; 'Chapter N' / 'Subsection N'
    / 'intro' lines may be filed as headings or as body text"""
    dt = _dt()
    n = ctx.params["n"]
    extra = ctx.params.get("extra", "none")
    lines, items = [], []
    for i in range(n):
        k = ctx.choice(f"line{i}", len(_DOC_LINES) if extra == "table" else len(_DOC_LINES) - 1)
        t = _DOC_LINES[k]
        t = t % ((i,) * t.count("%d")) if "%d" in t else t
        if k == 6 and t in lines:
            ctx.assume(False)          # heading texts are kept distinct (they serve as tokens)
        lines.append(t)
        if k in (2, 3):
            items.append({"i": i, "kind": "body", "level": None, "tok": f"b{i}q"})
        elif k in (4, 5, 6):
            items.append({"i": i, "kind": "heading", "level": 2 if k == 5 else 1, "tok": t})
        elif k == 7:
            items.append({"i": i, "kind": "skip", "level": None, "tok": None, "table_line": True})
        else:
            items.append({"i": i, "kind": "body", "level": None, "tok": None})
    tables, images = [], []
    if extra == "table":
        j = ctx.choice("table_for_line", n) if n else 0
        tables = [[[f"x{j}", f"y{j}"]]]
    elif extra == "image":
        images = [dt.DocImage(image_number=1, content_type="image/png", caption="")]
    sep = "\r\n" if ctx.flag("crlf") else "\n"
    content = dt.DocContent(main_text=sep.join(lines), tables=tables, images=images)
    try:
        units = list(content.iterate_units())
    except Exception as e:
        units = None
        ctx.fail("iterate_units-raised", exc=type(e).__name__, msg=str(e)[:100], text=content.main_text)
    # two readings are accepted for heading-like lines: all of them are body text (then some unit
    # body shows one of them), or all of them are headings (the reading of DocContent's docstring)
    if any(it["kind"] == "heading" and any(it["tok"] in u.get_text() for u in units) for it in items):
        for it in items:
            if it["kind"] == "heading":
                it["kind"] = "body"
    obs = [(_num(u), u.get_text(), u.get_metadata().heading_path) for u in units]
    _section_oracle(ctx, items, obs, allow_heading_like_in_body=True)
    # a line consumed as a table must come back as that table in exactly one unit
    for it in items:
        if it.get("table_line") and tables and f"x{it['i']}" == tables[0][0][0]:
            tok = f"x{it['i']}"
            in_text = sum(u.get_text().count(tok) for u in units)
            in_tabs = sum(1 for u in units for t in u.get_tables() if t.get_table() == tables[0])
            ctx.require(in_text <= 1 and in_tabs <= 1 and in_text + in_tabs >= 1,
                        "table-line-lost-or-duplicated", text=in_text, tables=in_tabs)


def _k2(ctx):
    fmt = ctx.params["fmt"]
    return {"docx": k2_docx, "odt": k2_odt, "doc": k2_doc}[fmt](ctx)


def _k2_parts(tier):
    parts = []
    N = 3 if tier == "quick" else 4
    for n in range(0, N + 1):
        for anchor in (("none", "table", "image") if n else ("none",)):
            parts.append({"fmt": "docx", "n": n, "anchor": anchor, "style_len": 9})
        parts.append({"fmt": "odt", "n": n, "extra": "none"})
        if n:
            parts.append({"fmt": "odt", "n": n, "extra": "table"})
            parts.append({"fmt": "odt", "n": n, "extra": "image"})
        for extra in ("none", "table", "image"):
            parts.append({"fmt": "doc", "n": n, "extra": extra})
    # other style shapes / blank-padded texts on smaller documents
    for L in ((8, 10) if tier == "quick" else (8, 10, 11)):
        parts.append({"fmt": "docx", "n": 2, "anchor": "none", "style_len": L})
    parts.append({"fmt": "docx", "n": 2, "anchor": "none", "style_len": 10, "style_ws": True})
    parts.append({"fmt": "docx", "n": 2 if tier == "quick" else 3, "anchor": "none", "style_len": 9, "texts": 4})
    parts.append({"fmt": "odt", "n": 2 if tier == "quick" else 3, "extra": "none", "texts": 4})
    return parts


def _k2_targets():
    dt = _dt()
    return [dt.DocxContent.iterate_units, dt.OdtContent.iterate_units, dt.DocContent.iterate_units]


KERNELS = [
    Kernel("K2", "heading-section units: numbering, coverage and section membership of every body paragraph",
           _k2, targets=_k2_targets, parts=_k2_parts,
           perturb=[("expect_flat_heading_path", {"fmt": "docx", "n": 3, "anchor": "none", "style_len": 9})],
           timeout={"quick": 100, "thorough": 1100}),
]

META = {
    "level_text": "",
    "level_note": "",
    "technique": "",
}
