"""C15 - isolation: results independent of history and of concurrent work; no residue.

K1   symbolic schedules of k<=3 instances of the real ``_patched_build_char_map`` context manager at
     enter/exit granularity, each body optionally failing
K1p  the same critical section run by k<=2 (3) real threads under a controlled scheduler that switches threads
     INSIDE __enter__ / __exit__ (line and byte-code-operation granularity, bounded number of pre-emptions)
K2a  ``_ttf_get_glyph_features`` / ``_FONT_CACHE``: symbolic glyph-id lists, history of <=2 (3) calls
K2b  ``_get_round_keys`` / ``_ROUND_KEY_CACHE``: fully symbolic keys, the solver decides which keys coincide
K2c  the built-in AES (ECB/CBC, all key sizes) used by k<=2 (3) threads at once under K1p's scheduler: every
     thread gets the FIPS-197 result for its own key and block
K2m  lru_cache'd router / content-type lookups and ``_get_type_registry`` under lookup histories
K3   sequences of <=3 real extractions (failing ones, injected faults, abandoned generators included):
     per-document result == isolated baseline, third-party attributes / library module state /
     configuration / temp root / fds back
K3d  base case: the same document twice from the same process state gives the same result
"""
import contextlib
import gc
import hashlib
import io
import json
import os
import struct
import types

import z3

from vf.core import Kernel
from vf import symrun as S


def _pe():
    from sharepoint2text.parsing.extractors.pdf import pdf_extractor
    return pdf_extractor


def _aes():
    import sharepoint2text.parsing.extractors.pdf._pypdf_aes_fallback as m
    return m


def _ae():
    from sharepoint2text.parsing.extractors import archive_extractor
    return archive_extractor


# ---------------------------------------------------------------------------------------
# pristine process state (captured before the first C15 harness touches anything)
# ---------------------------------------------------------------------------------------

CHARMAP_MODULES = ("pypdf._page", "pypdf._cmap", "pypdf._font")
CRYPTO_MODULES = ("pypdf._crypt_providers", "pypdf._crypt_providers._fallback", "pypdf._encryption")


class _Pristine:
    """shallow snapshot (attribute -> object identity) of the third-party modules the library is
    known to patch, plus the library's own module-level configuration.  Written from the property's
    list of process-global state, not from the patching code: *every* attribute of these modules
    is compared, whichever the library chooses to replace."""

    def __init__(self):
        import importlib
        self.mods = {}
        for name in CHARMAP_MODULES + CRYPTO_MODULES:
            try:
                self.mods[name] = importlib.import_module(name)
            except ImportError:
                pass
        self.snap = {n: dict(vars(m)) for n, m in self.mods.items()}
        self.classes = {}
        fb = self.mods.get("pypdf._crypt_providers._fallback")
        for cname in ("CryptAES", "CryptRC4", "CryptIdentity"):
            c = getattr(fb, cname, None)
            if isinstance(c, type):
                self.classes[cname] = (c, dict(vars(c)))
        ae = _ae()
        self.config = ae._config
        self.pe_state = _lib_state(_pe())
        import logging
        for lg in ("sharepoint2text", "pypdf"):
            logging.getLogger(lg).setLevel(logging.CRITICAL + 1)
        # sanity: the snapshot must be the genuine article (a fresh worker process)
        for n in CHARMAP_MODULES:
            for a in ("build_char_map", "get_encoding"):
                f = self.snap.get(n, {}).get(a)
                if f is not None and getattr(f, "__module__", "").startswith("sharepoint2text"):
                    raise RuntimeError("pristine snapshot taken from an already patched process: %s.%s" % (n, a))

    # -- comparison ----------------------------------------------------------------------
    def changed(self, names):
        """[(module, attr)] whose current object is not the pristine one (added / removed too)"""
        out = []
        for n in names:
            m = self.mods.get(n)
            if m is None:
                continue
            now, was = vars(m), self.snap[n]
            for a in set(now) | set(was):
                if a.startswith("__") and a.endswith("__"):
                    continue
                if now.get(a, _MISSING) is not was.get(a, _MISSING):
                    out.append((n, a))
        if "pypdf._crypt_providers._fallback" in names:
            for cname, (c, was) in self.classes.items():
                now = vars(c)
                for a in set(now) | set(was):
                    if a in ("__dict__", "__weakref__"):
                        continue
                    if now.get(a, _MISSING) is not was.get(a, _MISSING):
                        out.append(("pypdf._crypt_providers._fallback." + cname, a))
        return sorted(out)

    # -- reset ---------------------------------------------------------------------------
    def reset(self):
        for n, m in self.mods.items():
            now, was = vars(m), self.snap[n]
            for a in list(now):
                if a not in was:
                    del now[a]
            for a, v in was.items():
                if now.get(a, _MISSING) is not v:
                    now[a] = v
        for cname, (c, was) in self.classes.items():
            for a in list(vars(c)):
                if a not in was:
                    delattr(c, a)
            for a, v in was.items():
                if a in ("__dict__", "__weakref__"):
                    continue
                if vars(c).get(a, _MISSING) is not v:
                    setattr(c, a, v)
        pe, aes, ae = _pe(), _aes(), _ae()
        _restore_lib_state(pe, self.pe_state)
        pe._FONT_CACHE.clear()
        aes._ROUND_KEY_CACHE.clear()
        ae._config = self.config
        for f in _lru_functions().values():
            if hasattr(f, "cache_clear"):
                f.cache_clear()


_MISSING = object()
_P = None
_SIMPLE = (int, float, bool, str, type(None))
MEMO_TABLES = ("_FONT_CACHE",)      # memo tables may grow; what they may not do is change results (K2a, K3)


def _lib_state(mod, exclude=MEMO_TABLES):
    """module-level variables of a library module that hold plain data (numbers, strings, None, lists, dicts,
    sets): name -> value (containers copied shallowly).  Whatever bookkeeping the library keeps at module level
    shows up here without the harness naming it."""
    out = {}
    for n, v in vars(mod).items():
        if n in exclude or (n.startswith("__") and n.endswith("__")):
            continue
        if type(v) in _SIMPLE:
            out[n] = v
        elif type(v) in (list, dict, set):
            out[n] = type(v)(v)
    return out


def _restore_lib_state(mod, snap):
    for n, v in snap.items():
        cur = vars(mod).get(n, _MISSING)
        if type(v) in _SIMPLE:
            if cur is not v and cur != v or type(cur) is not type(v):
                setattr(mod, n, v)
        elif type(cur) is type(v):
            if cur != v:
                cur.clear()
                cur.extend(v) if isinstance(cur, list) else cur.update(v)
        else:
            setattr(mod, n, type(v)(v))


def _state_diff(a, b):
    return sorted(n for n in set(a) | set(b) if a.get(n, _MISSING) != b.get(n, _MISSING))


def _pristine():
    global _P
    if _P is None:
        _P = _Pristine()
    _P.reset()
    return _P


def _lru_functions():
    ae = _ae()
    from sharepoint2text.parsing.extractors import epub_extractor
    from sharepoint2text.parsing.extractors.open_office import _shared
    return {"archive._is_supported_file_cached": ae._is_supported_file_cached,
            "archive._get_file_extractor_cached": ae._get_file_extractor_cached,
            "archive._get_router_functions": ae._get_router_functions,
            "epub._guess_content_type": epub_extractor._guess_content_type,
            "odf.guess_content_type": _shared.guess_content_type}


# ---------------------------------------------------------------------------------------
# K1 schedules over the patch critical section
# ---------------------------------------------------------------------------------------

K1_FINDINGS = ("C15-charmap-patch-nonlifo-exit-leaves-wrapper", "C15-charmap-patch-overlap-unpatched-body")


class _BodyFailed(Exception):
    pass


def _charmap_layout(ctx, st, api, P):
    """install the pypdf module layout ``api`` (stubs registered on the ExitStack ``st``) and return
    (probes, fake_snap, call_installed): probes = [(module, attr, original)] = WHERE the library is expected to
    patch (only used while threads are inside; the final comparison is over every attribute of the modules),
    fake_snap = [(namespace, attributes before)] for the fake layouts, call_installed(agg) = behavioural probe
    (fake layouts): number of digit-map patches one char-map call gets (-1: wrong result)"""
    import pypdf
    pe = _pe()
    calls = {"patch": 0}

    def counting_patch(font_map, font_dict):
        calls["patch"] += 1

    probes = []          # (module, attr, original)
    fake_mods = []
    if api == "installed":
        # the pypdf that is really installed; originals = the pristine objects
        try:
            targets, _ = pe._get_pypdf_char_map_patcher()
        except AttributeError:
            targets = []
        for mod, name in targets:
            probes.append((mod, name, P.snap[mod.__name__][name]))
    elif api == "new":
        # layout of pypdf >= 6.6: get_encoding lives in _cmap and is re-exported by _font
        def get_encoding(ft):
            return "enc", {"a": "b"}
        fc = types.SimpleNamespace(__name__="pypdf._cmap", get_encoding=get_encoding)
        ff = types.SimpleNamespace(__name__="pypdf._font", get_encoding=get_encoding)
        st.enter_context(ctx.stub(pypdf, _cmap=fc, _font=ff))
        st.enter_context(ctx.stub(pe, _patch_font_digit_map=counting_patch))
        probes = [(fc, "get_encoding", get_encoding), (ff, "get_encoding", get_encoding)]
        fake_mods = [fc, ff]
    elif api == "legacy":
        def build_char_map(font_name, space_width, obj):
            return "sub", 1.0, "enc", {"a": "b"}, {"/F": 1}
        fc = types.SimpleNamespace(__name__="pypdf._cmap")
        ff = types.SimpleNamespace(__name__="pypdf._font")
        fp = types.SimpleNamespace(__name__="pypdf._page", build_char_map=build_char_map)
        st.enter_context(ctx.stub(pypdf, _cmap=fc, _font=ff, _page=fp))
        st.enter_context(ctx.stub(pe, _patch_font_digit_map=counting_patch))
        probes = [(fp, "build_char_map", build_char_map)]
        fake_mods = [fc, ff, fp]
    else:   # "none": neither API present -> the manager must not patch and must not fail
        fc = types.SimpleNamespace(__name__="pypdf._cmap")
        ff = types.SimpleNamespace(__name__="pypdf._font")
        fp = types.SimpleNamespace(__name__="pypdf._page")
        st.enter_context(ctx.stub(pypdf, _cmap=fc, _font=ff, _page=fp))
        fake_mods = [fc, ff, fp]
    fake_snap = [(m, dict(vars(m))) for m in fake_mods]

    def call_installed(agg=min):
        depths = []
        for mod, name, orig in probes:
            calls["patch"] = 0
            f = getattr(mod, name)
            out = f({"/F": 1}) if name == "get_encoding" else f("F1", 1.0, {"/F": 1})
            want = orig({"/F": 1}) if name == "get_encoding" else orig("F1", 1.0, {"/F": 1})
            if out != want:
                return -1
            depths.append(calls["patch"])
        return agg(depths)

    return probes, fake_snap, call_installed


def k1_schedules(ctx):
    """k instances ("threads") of the real context manager; the schedule is the order of their
    enter / exit events.  Oracles, from the property text:
      * after every thread has left, each attribute of the pypdf char-map modules IS the object it
        was before the first one entered (no residue);
      * while a thread is inside its critical section the patched function is in force for it
        (its result must not depend on what the other threads do)."""
    import pypdf
    pe = _pe()
    P = _pristine()
    api = ctx.params["api"]
    judge = ctx.params.get("judge", "residue")      # which of the two oracles this part decides
    K = ctx.params["K"]
    k = 1 + ctx.choice("threads_minus_1", K)
    fails = [ctx.flag(f"body_fails{t}") for t in range(k)]
    nested_only = (not ctx.perturb) and any(f in (ctx.params.get("known_active") or ()) for f in K1_FINDINGS)

    with contextlib.ExitStack() as st:
        probes, fake_snap, call_installed = _charmap_layout(ctx, st, api, P)

        lib_before = _lib_state(pe)
        cms = [None] * k
        state = [0] * k          # 0 outside, 1 inside, 2 left
        stack, sched, nested = [], [], True
        try:
            for slot in range(2 * k):
                enabled = [t for t in range(k) if state[t] < 2]
                t = enabled[ctx.choice(f"slot{slot}", len(enabled))]
                if state[t] == 0:
                    cms[t] = pe._patched_build_char_map()
                    try:
                        cms[t].__enter__()
                    except Exception as e:
                        ctx.fail("enter-raised", exc=type(e).__name__, msg=str(e)[:80], schedule=sched)
                    state[t] = 1
                    stack.append(t)
                    sched.append(f"enter{t}")
                else:
                    if stack[-1] != t:
                        nested = False
                        if nested_only:
                            ctx.note("schedule-in-class-of-known-finding:non-nested-exit")
                            ctx.assume(False)
                    stack.remove(t)
                    try:
                        if fails[t]:
                            exc = _BodyFailed("body of thread %d failed" % t)
                            swallowed = cms[t].__exit__(_BodyFailed, exc, None)
                            ctx.require(not swallowed, "body-exception-swallowed", thread=t)
                        else:
                            cms[t].__exit__(None, None, None)
                    except _BodyFailed:
                        pass
                    except Exception as e:
                        ctx.fail("exit-raised", exc=type(e).__name__, msg=str(e)[:80], schedule=sched)
                    state[t] = 2
                    sched.append(f"exit{t}" + ("!" if fails[t] else ""))
                # -- while somebody is inside, the patch must be in force -------------------
                inside = [u for u in range(k) if state[u] == 1]
                if inside and probes and (judge == "in_force" or ctx.perturb):
                    bare = [name for mod, name, orig in probes if getattr(mod, name) is orig]
                    ctx.require(not bare, "patch-absent-while-inside-critical-section",
                                schedule=list(sched), inside=inside, unpatched=bare, nested=nested)
                    if api in ("new", "legacy"):
                        depth = call_installed()
                        ctx.require(depth != 0 and depth != -1, "patched-function-not-effective", depth=depth,
                                    schedule=list(sched), nested=nested)
                if ctx.perturb == "expect_restore_at_first_exit" and probes and 2 in state:
                    # twin: demands the original back as soon as ANY thread has left - refuted exactly by the
                    # schedules in which another thread is still inside (overlap is reached)
                    ctx.require(all(getattr(mod, name) is orig for mod, name, orig in probes), "twin-overlap",
                                schedule=list(sched))
            # -- everybody has left ---------------------------------------------------------
            left = P.changed(CHARMAP_MODULES) if api == "installed" else []
            for m, was in fake_snap:
                left += [(m.__name__, a) for a in set(vars(m)) | set(was)
                         if vars(m).get(a, _MISSING) is not was.get(a, _MISSING)]
            if ctx.perturb == "expect_wrapper_after_exit":
                ctx.require(bool(left), "twin-residue")
            ctx.require(not left, "wrapper-left-installed-after-all-threads-left", residue=left,
                        schedule=list(sched), nested=nested)
            if api in ("new", "legacy"):
                ctx.require(call_installed(max) == 0, "original-not-back-in-force", schedule=list(sched))
            lib_after = _lib_state(pe)
            ctx.require(lib_after == lib_before, "library-module-state-not-restored",
                        changed=_state_diff(lib_before, lib_after), schedule=list(sched), nested=nested)
        finally:
            P.reset()


def _k1_parts(tier):
    K = 3 if tier == "quick" else 4
    return [{"api": a, "K": K, "judge": j} for a in ("installed", "new", "legacy", "none")
            for j in ("residue", "in_force") if not (a == "none" and j == "in_force")]


# ---------------------------------------------------------------------------------------
# K1p pre-emption INSIDE the patch / restore critical section (controlled scheduler over real threads)
# ---------------------------------------------------------------------------------------

class _Abort(BaseException):
    """ends a scheduled thread whose harness no longer answers"""


# byte-code operations that only touch the evaluation stack / the frame's own fast locals / fresh objects: a
# pre-emption immediately before one of them is indistinguishable from one before the next shared access, so
# the instruction-granular scheduler offers no switching point there
_INVISIBLE_OPS = frozenset("""LOAD_FAST LOAD_FAST_CHECK LOAD_FAST_AND_CLEAR STORE_FAST DELETE_FAST LOAD_CONST POP_TOP
PUSH_NULL COPY SWAP NOP RESUME CACHE EXTENDED_ARG JUMP_FORWARD JUMP_BACKWARD JUMP_BACKWARD_NO_INTERRUPT
POP_JUMP_IF_FALSE POP_JUMP_IF_TRUE POP_JUMP_IF_NONE POP_JUMP_IF_NOT_NONE BUILD_TUPLE BUILD_LIST BUILD_MAP BUILD_SET
BUILD_STRING BUILD_SLICE LOAD_CLOSURE MAKE_FUNCTION MAKE_CELL COPY_FREE_VARS RETURN_VALUE RETURN_CONST KW_NAMES IS_OP
UNARY_NOT END_FOR POP_EXCEPT PUSH_EXC_INFO RERAISE CHECK_EXC_MATCH RETURN_GENERATOR COMPARE_OP UNPACK_SEQUENCE
""".split())


class _SchedLock:
    """threading.Lock / RLock stand-in for threads run by ``_Sched``: mutual exclusion as documented for the
    primitive (one owner; RLock: re-entrant for the owner), but a thread that has to wait hands control back to
    the scheduler instead of blocking the process.  ``excl=False`` (twin) makes it exclude nothing."""

    def __init__(self, sched, reentrant, excl=True):
        self.sched, self.reentrant, self.excl = sched, reentrant, excl
        self.owner, self.count = None, 0

    def free_for(self, t):
        return (not self.excl) or self.owner is None or (self.reentrant and self.owner == t)

    def acquire(self, blocking=True, timeout=-1):
        s = self.sched
        t = s.current()
        while True:
            if s.aborting or self.free_for(t):
                self.owner = t
                self.count += 1
                return True
            if t is None or not blocking or timeout >= 0:
                return False        # try-lock / timed wait: the lock is held, the wait expires
            s.block(t, self)

    def release(self):
        if self.count == 0:
            if self.sched.aborting or not self.excl:
                return
            raise RuntimeError("release unlocked lock")
        self.count -= 1
        if self.count == 0:
            self.owner = None

    def locked(self):
        return self.count > 0

    def __enter__(self):
        return self.acquire()

    def __exit__(self, *exc):
        self.release()


def _warm_opcode_tracing():
    # CPython 3.12: per-instruction events start to be delivered only after f_trace_opcodes was set once under an
    # active trace function; done before the real trace function is installed so that the first schedule of a
    # process sees the same events as every later one
    import sys

    def f():
        return None

    def tr(frame, event, arg):
        frame.f_trace_opcodes = True
        return tr
    sys.settrace(tr)
    f()
    sys.settrace(None)


class _Sched:
    """controlled scheduler: k real threads, of which exactly one runs at any time.  A *point* is reached by a
    thread immediately before every source line ("line") or every shared-state byte-code operation ("opcode") it
    is about to execute in one of ``files`` (the library module under test), before its body, when it has to wait
    for a ``_SchedLock``, and when it ends.  The harness (main thread) decides which enabled thread runs next and
    past how many points (``run``); the thread then parks at that point - or earlier at its body / a lock it has
    to wait for / its end - and hands control back."""
    TIMEOUT = 120

    def __init__(self, k, gran, files):
        import _thread
        import threading
        self.k, self.gran, self.files = k, gran, set(files)
        self.go = [_thread.allocate_lock() for _ in range(k)]
        self.back = _thread.allocate_lock()
        for lk in self.go + [self.back]:
            lk.acquire()
        self.done = [False] * k
        self.started = [False] * k
        self.blocked = [None] * k
        self.muted = [False] * k
        self.pos = [("start",)] * k
        self.err = [None] * k
        self.count = [0] * k            # points reached in the current run
        self.budget = [0] * k           # park at this many points (0: run to the body / a lock wait / the end)
        self.aborting = False
        self.tls = threading.local()
        self.threads = []
        self.reports = []
        self._codes = {}

    def current(self):
        return getattr(self.tls, "t", None)

    # ---- running in the scheduled threads -----------------------------------------------
    def pause(self, t, pos, forced=False):
        if self.aborting:
            return
        self.count[t] += 1
        if not forced and self.count[t] != self.budget[t]:
            return
        self.pos[t] = pos
        self.back.release()
        if not self.go[t].acquire(timeout=self.TIMEOUT):
            raise _Abort()      # the harness is gone
        # (when the harness abandons the schedule - ``close`` - the thread simply runs on to its end: nothing is
        #  ever raised out of a trace function)

    def block(self, t, lock):
        self.blocked[t] = lock
        try:
            self.pause(t, ("waits-for-lock",), forced=True)
        finally:
            self.blocked[t] = None

    def _tracers(self, t):
        import dis
        want_op, want_call = self.gran == "opcode", self.gran == "call"
        files, codes, opname = self.files, self._codes, dis.opname

        def local(frame, event, arg):
            if self.muted[t] or self.aborting:
                return local
            if want_op:
                if event == "opcode":
                    code = frame.f_code
                    raw = codes.get(code)
                    if raw is None:
                        raw = codes[code] = code.co_code
                    op = opname[raw[frame.f_lasti]]
                    if op not in _INVISIBLE_OPS:
                        self.pause(t, (code.co_name, frame.f_lineno, op))
            elif event == "line":
                self.pause(t, (frame.f_code.co_name, frame.f_lineno))
            return local

        def glob(frame, event, arg):
            if frame.f_code.co_filename in files:
                if want_call:
                    # coarse granularity: a point before every call of (resumption of a generator in) the module
                    if not (self.muted[t] or self.aborting):
                        self.pause(t, (frame.f_code.co_name, frame.f_lineno, "call"))
                    return None
                if want_op:
                    frame.f_trace_opcodes = True
                return local
            return None
        return glob

    def _worker(self, t, target):
        import sys
        self.tls.t = t
        try:
            if not self.go[t].acquire(timeout=self.TIMEOUT) or self.aborting:
                return
            if self.gran == "opcode":
                _warm_opcode_tracing()
            sys.settrace(self._tracers(t))
            try:
                target(t)
            finally:
                sys.settrace(None)
        except _Abort:
            pass
        except BaseException as e:
            self.err[t] = "%s: %s" % (type(e).__name__, str(e)[:100])
        finally:
            self.count[t] += 1
            self.pos[t] = ("end",)
            self.done[t] = True
            if not self.aborting:
                try:
                    self.back.release()
                except RuntimeError:
                    pass

    # ---- running in the harness -----------------------------------------------------------
    def start(self, target):
        import threading
        for t in range(self.k):
            th = threading.Thread(target=self._worker, args=(t, target), daemon=True, name="c15-k1p-%d" % t)
            self.threads.append(th)
            th.start()

    def enabled(self, t):
        return (not self.done[t]) and (self.blocked[t] is None or self.blocked[t].free_for(t))

    def run(self, t, points=0):
        """let thread t run past ``points`` points (0: up to its body / a lock wait / its end); returns the number
        of points it reached"""
        self.started[t] = True
        self.count[t], self.budget[t] = 0, points
        self.go[t].release()
        if not self.back.acquire(timeout=self.TIMEOUT):
            raise RuntimeError("thread %d did not hand control back (waiting on something the scheduler does not "
                               "control?) after %r" % (t, self.pos[t]))
        return self.count[t]

    def close(self):
        """abandon the schedule: the threads still parked run to their ends one after the other, without further
        points and with every lock granted (whatever they leave behind is reset by the caller)"""
        self.aborting = True
        for t, th in enumerate(self.threads):
            if th.is_alive():
                try:
                    self.go[t].release()
                except RuntimeError:
                    pass
                th.join(timeout=30)
        if any(th.is_alive() for th in self.threads):
            raise RuntimeError("scheduled thread could not be unwound")


def _fmt_pos(pos):
    return ":".join(str(x) for x in pos)


_RUN_LENGTHS = {}        # (part, decisions so far) -> number of points of the un-pre-empted run that follows
_ANY = 1 << 20


def k1p_preemptive(ctx):
    """k real threads run ``with _patched_build_char_map(): body`` under a controlled scheduler that may switch
    threads before every line (every shared-state byte-code operation) of the library module, i.e. also in the
    middle of __enter__ / __exit__.  Every schedule with at most ``bound`` pre-emptions inside __enter__ / __exit__
    (switches away from a thread that could have continued there; switches at a thread that is at its body, waits
    for the lock or has ended are free) is explored: the decisions are which thread runs next and at which of the
    points of its run it is pre-empted.  Oracles, from the property
    text - the same as K1's:
      * the body of a thread (its page extraction) finds the patch in force, whatever the others are doing;
      * after every thread has left, each attribute of the pypdf char-map modules IS the object it was before,
        calling it patches nothing, and the library's own module-level bookkeeping is what it was;
      * no schedule deadlocks, no enter / exit raises, a body's exception reaches its thread."""
    import threading
    pe = _pe()
    P = _pristine()
    api, gran = ctx.params["api"], ctx.params["gran"]
    k, bound, nfail = ctx.params["k"], ctx.params["bound"], ctx.params["nfail"]
    # threads are interchangeable, so which of them fail is decided up to renaming: the first ``nfail``
    fails = [t < nfail for t in range(k)]
    # partition of the schedule space: thread that starts / pre-emption point of the first run modulo m
    start = ctx.params.get("start")
    slice_r, slice_m = ctx.params.get("slice", (0, 1))
    excl = ctx.perturb != "lock_excludes_nothing"
    lock_t, rlock_t = type(threading.Lock()), type(threading.RLock())
    lengths = _RUN_LENGTHS.setdefault((S.REPO, api, gran, k, bound, nfail, ctx.perturb), {})

    with contextlib.ExitStack() as st:
        probes, fake_snap, call_installed = _charmap_layout(ctx, st, api, P)
        sched = _Sched(k, gran, [pe.__file__])
        # every lock the module keeps at module level (whatever its name) becomes scheduler-aware
        sync = {}
        for n, v in vars(pe).items():
            if isinstance(v, (lock_t, rlock_t)):
                sync[n] = _SchedLock(sched, isinstance(v, rlock_t), excl)
            elif isinstance(v, (threading.Condition, threading.Semaphore, threading.Event, threading.Barrier)):
                raise RuntimeError("synchronisation primitive %s (%s) is not modelled by the scheduler"
                                   % (n, type(v).__name__))
        if sync:
            st.enter_context(ctx.stub(pe, **sync))
        lib_before = _lib_state(pe)
        propagated = [False] * k

        def target(t):
            try:
                with pe._patched_build_char_map():
                    sched.pause(t, ("body",), forced=True)
                    sched.muted[t] = True
                    try:
                        bare = [name for mod, name, orig in probes if getattr(mod, name) is orig]
                        depth = call_installed() if (probes and api in ("new", "legacy")) else None
                    finally:
                        sched.muted[t] = False
                    sched.reports.append((t, bare, depth))
                    if fails[t]:
                        raise _BodyFailed("body of thread %d failed" % t)
            except _BodyFailed:
                propagated[t] = True

        runs = []                   # "T0 x12 start -> _patched_build_char_map:544"
        decisions = []
        phase = [0] * k             # 0 not started, 1 in __enter__, 2 at its body, 3 in __exit__
        since = [0] * k             # points reached since the phase began
        cur, used, cut = None, 0, False

        def pick(n):
            v = ctx.pick("d%d" % len(decisions), n)
            decisions.append(v)
            return v

        def info():
            return {"schedule": runs[-24:], "preemptions": used,
                    "at": ["T%d %s" % (t, _fmt_pos(sched.pos[t])) for t in range(k)]}

        try:
            sched.start(target)
            while not all(sched.done):
                enabled = [t for t in range(k) if sched.enabled(t)]
                if not enabled:
                    ctx.fail("deadlock-in-critical-section", **info())
                # threads that have not started are interchangeable when their bodies behave alike
                cand = [t for t in enabled if sched.started[t] or
                        not any(not sched.started[u] and fails[u] == fails[t] for u in range(t))]
                if cut:
                    # cur was stopped at a point where it could have continued: somebody else runs now
                    cand = [t for t in cand if t != cur]
                    if not cand:
                        ctx.assume(False)       # nobody to switch to here: the same as the longer run
                    used += 1
                elif cur in cand:
                    # cur is at its body (the page extraction: long-running, threads overlap there): switching is
                    # free, like at a lock wait or at a thread's end
                    cand.remove(cur)
                    cand.insert(0, cur)
                t = cand[pick(len(cand))]
                if cur is None and start is not None and t != start:
                    ctx.assume(False)           # another part
                # -- where is t pre-empted? 0: nowhere (runs to its body / a lock wait / its end) ---------
                came_from = sched.pos[t]
                may_cut = used < bound and any(not sched.done[u] for u in range(k) if u != t)
                if not may_cut:
                    n = sched.run(t)
                    j = 0
                elif ctx.concrete:
                    j = pick(_ANY)
                    n = sched.run(t, j)
                else:
                    key = tuple(decisions)
                    total = lengths.get(key)
                    if total is None:
                        # first visit of this decision node: the un-pre-empted run tells how many points there are
                        n = total = lengths[key] = sched.run(t)
                        j = pick(total)
                        if j != 0:
                            raise RuntimeError("run-length table out of step with the exploration order")
                    else:
                        j = pick(total)
                        n = sched.run(t, j)
                if cur is None and j % slice_m != slice_r:
                    ctx.assume(False)           # another part
                cut = j != 0
                if cut and (n != j or sched.done[t] or sched.blocked[t] is not None or sched.pos[t] == ("body",)):
                    raise RuntimeError("pre-emption point %d of the run not reached (%d points)" % (j, n))
                runs.append("T%d x%d %s -> %s" % (t, n, _fmt_pos(came_from), _fmt_pos(sched.pos[t])))
                if len(runs) > ctx.params.get("max_runs", 400):
                    ctx.fail("critical-section-does-not-terminate", **info())
                cur = t
                if phase[t] == 0:
                    phase[t], since[t] = 1, 0
                if came_from == ("body",):
                    phase[t], since[t] = 3, 0
                since[t] += n
                if (not sched.done[t]) and sched.pos[t] == ("body",):
                    phase[t], since[t] = 2, 0
                    if ctx.perturb == "expect_enter_and_exit_atomic":
                        # twin: demands that nobody is in the middle of __enter__ / __exit__ when a thread arrives
                        # at its body - refuted exactly by the schedules that pre-empt inside the two
                        mid = [u for u in range(k) if u != t and not sched.done[u] and phase[u] in (1, 3)
                               and since[u] >= 2]
                        ctx.require(not mid, "twin-preempted-inside-enter-or-exit", mid=mid, **info())
                while sched.reports:
                    u, bare, depth = sched.reports.pop(0)
                    ctx.require(not bare, "patch-absent-while-inside-critical-section", thread=u, unpatched=bare,
                                **info())
                    if depth is not None:
                        ctx.require(depth != 0 and depth != -1, "patched-function-not-effective", thread=u,
                                    depth=depth, **info())
            # -- everybody has left -------------------------------------------------------------
            errs = {t: e for t, e in enumerate(sched.err) if e}
            ctx.require(not errs, "enter-or-exit-raised", errors=errs, **info())
            ctx.require(propagated == fails, "body-exception-swallowed", propagated=propagated, **info())
            left = P.changed(CHARMAP_MODULES) if api == "installed" else []
            for m, was in fake_snap:
                left += [(m.__name__, a) for a in set(vars(m)) | set(was)
                         if vars(m).get(a, _MISSING) is not was.get(a, _MISSING)]
            ctx.require(not left, "wrapper-left-installed-after-all-threads-left", residue=left, **info())
            if api in ("new", "legacy"):
                ctx.require(call_installed(max) == 0, "original-not-back-in-force", **info())
            lib_after = _lib_state(pe)
            ctx.require(lib_after == lib_before, "library-module-state-not-restored",
                        changed=_state_diff(lib_before, lib_after), **info())
        finally:
            try:
                sched.close()
            finally:
                P.reset()


K1P_APIS = ("installed", "new", "legacy")


def _k1p_parts(tier):
    parts = []

    def add(gran, k, bound, slices=None, by_start=True, nfails=None):
        for api in (slices or K1P_APIS):
            m = (slices or {}).get(api, 1)
            for nfail in (nfails or range(k + 1)):
                # threads differ only when some but not all bodies fail: then the thread that starts is a choice
                # (up to renaming: the first failing one or the first non-failing one)
                starts = [0, nfail] if (by_start and 0 < nfail < k) else [None]
                for s0 in starts:
                    for r in range(m):
                        p = {"api": api, "gran": gran, "k": k, "bound": bound, "nfail": nfail}
                        if s0 is not None:
                            p["start"] = s0
                        if m > 1:
                            p["slice"] = (r, m)
                        parts.append(p)
    if tier == "quick":
        add("line", 2, 1, by_start=False)
        add("opcode", 2, 1, by_start=False)
        add("line", 2, 2, {"new": 4})
        add("line", 3, 1, {"new": 2}, nfails=(0,))
    else:
        add("line", 2, 2, {"installed": 2, "new": 4, "legacy": 2})
        add("opcode", 2, 2, {"installed": 6, "new": 6, "legacy": 6})
        add("line", 3, 1, {"installed": 2, "new": 2, "legacy": 2})
        add("opcode", 3, 1, {"installed": 3, "new": 3, "legacy": 3})
        add("line", 3, 2, {"installed": 16}, nfails=(0,))
    return parts


# ---------------------------------------------------------------------------------------
# K2a font cache
# ---------------------------------------------------------------------------------------

K2A_FINDING = "C15-font-cache-keeps-first-callers-glyph-subset"


def _mk_ttf(boxes, long_loca, upem, drop=(), pad=None):
    """minimal TrueType file (OpenType spec: table directory, head, maxp, loca, glyf) with one
    non-empty glyph per entry of ``boxes`` = (xMin, yMin, xMax, yMax); ``pad`` = extra (even) number of bytes
    after each glyph's header, i.e. where the glyphs lie inside 'glyf' (table checksums are left 0, as embedded
    subsets often have them: readers ignore them)"""
    n = len(boxes)
    glyf = b""
    offs = []
    for i, (x0, y0, x1, y1) in enumerate(boxes):
        offs.append(len(glyf))
        glyf += struct.pack(">hhhhh", 1, x0, y0, x1, y1) + b"\0\0" + b"\0" * (pad[i] if pad else 0)   # even
    offs.append(len(glyf))
    loca = b"".join(struct.pack(">I", o) for o in offs) if long_loca else \
        b"".join(struct.pack(">H", o // 2) for o in offs)
    head = bytearray(54)
    struct.pack_into(">I", head, 0, 0x00010000)
    struct.pack_into(">I", head, 12, 0x5F0F3CF5)
    struct.pack_into(">H", head, 18, upem)
    struct.pack_into(">h", head, 50, 1 if long_loca else 0)
    maxp = bytearray(32)
    struct.pack_into(">I", maxp, 0, 0x00010000)
    struct.pack_into(">H", maxp, 4, n)
    tables = [(b"glyf", glyf), (b"head", bytes(head)), (b"loca", loca), (b"maxp", bytes(maxp))]
    tables = [t for t in tables if t[0] not in drop]
    out = bytearray(struct.pack(">IHHHH", 0x00010000, len(tables), 0, 0, 0))
    pos = 12 + 16 * len(tables)
    body = b""
    for tag, data in tables:
        out += struct.pack(">4sIII", tag, 0, pos + len(body), len(data))
        body += data + b"\0" * (-len(data) % 4)
    return bytes(out) + body


def _fonts():
    b0 = [(0, 0, 500, 700), (10, -20, 610, 1480), (0, 0, 956, 1497), (-5, -5, 535, 1467)]
    b1 = [(0, 0, 100, 200), (0, 0, 971, 1472), (3, 4, 963, 1502), (1, 1, 2, 2)]
    b2 = [(0, 0, 321, 654), (7, 7, 77, 777), (0, 0, 1200, 1300), (2, 3, 500, 900)]
    return [("short-loca", _mk_ttf(b0, False, 2048, pad=[4, 0, 0, 0]), b0, 2048),
            ("long-loca", _mk_ttf(b1, True, 1000, pad=[0, 8, 0, 0]), b1, 1000),
            ("no-maxp", _mk_ttf(b0, False, 2048, drop=(b"maxp",)), None, None),
            # SIBLINGS of the first two: other font programs with byte-for-byte the same table directory (same
            # tables, offsets, lengths, zero checksums) that differ only inside one table
            ("short-loca/other-glyf", _mk_ttf(b2, False, 2048, pad=[4, 0, 0, 0]), b2, 2048),
            ("short-loca/other-head", _mk_ttf(b0, False, 1000, pad=[4, 0, 0, 0]), b0, 1000),
            ("short-loca/other-loca", _mk_ttf(b0, False, 2048, pad=[0, 0, 4, 0]), b0, 2048),
            ("long-loca/other-loca-glyf", _mk_ttf(b2, True, 1000, pad=[0, 0, 0, 8]), b2, 1000)]


FONT_SIBLINGS = ((0, 3, 4, 5), (1, 6))


def _ref_features(font_entry, gids, perturb=None):
    """what the OpenType spec says about the glyphs asked for: units-per-em from head, and for
    every requested id that names a glyph of the font its bounding-box extent"""
    _, _, boxes, upem = font_entry
    if boxes is None:
        return None
    if perturb == "spec_upem_off":
        upem += 1
    feats = {}
    for g in gids:
        if 0 <= g < len(boxes):
            x0, y0, x1, y1 = boxes[g]
            feats[g] = (x1 - x0, y1 - y0)
    return (upem, sorted(feats.items()))


def _norm_features(res):
    if res is None:
        return None
    upem, feats = res
    return (int(upem), sorted((int(g), (int(w), int(h))) for g, (w, h) in feats.items()))


def k2a_font_cache(ctx):
    pe = _pe()
    P = _pristine()
    fonts = _fonts()
    N = 4
    n_calls = ctx.params["calls"]
    max_len = ctx.params["max_len"]
    known = (not ctx.perturb) and K2A_FINDING in (ctx.params.get("known_active") or ())
    if not ctx.concrete:
        ctx.decision_memo = {}      # the isolated re-computation repeats decisions already in the path condition
    plan = []
    for i in range(n_calls):
        fi = ctx.params.get(f"font{i}")
        if fi is None:
            fi = ctx.choice(f"font{i}", len(fonts))
        ln = ctx.params.get(f"n_gids{i}")
        if ln is None:
            ln = ctx.choice(f"n_gids{i}", max_len + 1)
        gids = [ctx.fresh_int(f"gid{i}_{j}", -1, N) for j in range(ln)]
        plan.append((fi, gids))
    if known:
        # class of the known finding: the same font bytes were analysed before for a different
        # glyph-id list
        for j in range(len(plan)):
            for i in range(j):
                if plan[i][0] == plan[j][0] and fonts[plan[j][0]][2] is not None:
                    if len(plan[i][1]) != len(plan[j][1]):
                        ctx.note("history-in-class-of-known-finding:" + K2A_FINDING)
                        ctx.assume(False)
                    for a, b in zip(plan[i][1], plan[j][1]):
                        ctx.assume(a == b)
    try:
        for i, (fi, gids) in enumerate(plan):
            font = fonts[fi][1]
            try:
                got = pe._ttf_get_glyph_features(font, list(gids))
            except Exception as e:
                ctx.fail("glyph-features-raised", exc=type(e).__name__, msg=str(e)[:80], call=i)
            # isolated computation: the same call in a process that has seen nothing
            saved = dict(pe._FONT_CACHE)
            pe._FONT_CACHE.clear()
            try:
                fresh = pe._ttf_get_glyph_features(font, list(gids))
            finally:
                pe._FONT_CACHE.clear()
                pe._FONT_CACHE.update(saved)
            g_n, f_n = _norm_features(got), _norm_features(fresh)
            cg = [int(g) for g in gids]
            hist = [(fonts[pf][0], [int(x) for x in pg]) for pf, pg in plan[:i]]
            expect = f_n
            if ctx.perturb == "expect_previous_call" and i > 0:
                expect = _norm_features(pe._FONT_CACHE.get(fonts[plan[i - 1][0]][1]))
            ctx.require(g_n == expect, "glyph-features-depend-on-earlier-calls", call=i, font=fonts[fi][0],
                        gids=cg, got=g_n, isolated=f_n, history=hist)
            ref = _ref_features(fonts[fi], cg, ctx.perturb)
            ctx.require(f_n == ref, "isolated-glyph-features-differ-from-font-tables", font=fonts[fi][0], gids=cg,
                        got=f_n, spec=ref)
    finally:
        P.reset()


def _k2a_parts(tier):
    base = [{"calls": 2, "max_len": 2, "font0": a, "font1": b} for a in range(3) for b in range(3)]
    # histories over different font programs that share their table directory (both orders)
    sib = [(a, b) for g in FONT_SIBLINGS for a in g for b in g if a != b]
    if tier == "quick":
        return base + [{"calls": 2, "max_len": 1, "font0": a, "font1": b} for a, b in sib]
    base += [{"calls": 2, "max_len": 2, "font0": a, "font1": b} for a, b in sib]
    # lists of 3 ids for the pairs of well-formed fonts (one part per pair of list lengths), and histories of 3 calls
    long_ = [{"calls": 2, "max_len": 3, "font0": a, "font1": b, "n_gids0": x, "n_gids1": y}
             for (a, b) in ((0, 0), (0, 1), (1, 0)) for x in range(4) for y in range(4) if 3 in (x, y)]
    return base + long_ + [{"calls": 3, "max_len": 1, "font0": a} for a in range(3)]


# ---------------------------------------------------------------------------------------
# K2b round-key cache
# ---------------------------------------------------------------------------------------

class SymLRU:
    """collections.OrderedDict stand-in whose keys may be symbolic byte strings: key comparison
    is the solver's business (``k == key`` forks), order is insertion order, and only the
    operations of an LRU table are provided.  Replaces the *container*, not the policy: get /
    move_to_end / insert / evict are driven by the code under test.  Concrete replays run on the
    real OrderedDict (and passing paths are re-executed concretely by the driver), so a
    disagreement between this model and OrderedDict shows up as a harness error."""

    def __init__(self):
        self.items = []

    def _find(self, key):
        for i, (k, _) in enumerate(self.items):
            if len(k) == len(key) and (k == key):
                return i
        return -1

    def get(self, key, default=None):
        i = self._find(key)
        return default if i < 0 else self.items[i][1]

    def __contains__(self, key):
        return self._find(key) >= 0

    def __getitem__(self, key):
        i = self._find(key)
        if i < 0:
            raise KeyError(key)
        return self.items[i][1]

    def __setitem__(self, key, value):
        i = self._find(key)
        if i < 0:
            self.items.append((key, value))
        else:
            self.items[i] = (self.items[i][0], value)

    def move_to_end(self, key, last=True):
        i = self._find(key)
        if i < 0:
            raise KeyError(key)
        it = self.items.pop(i)
        if last:
            self.items.append(it)
        else:
            self.items.insert(0, it)

    def popitem(self, last=True):
        if not self.items:
            raise KeyError("dictionary is empty")
        return self.items.pop(-1 if last else 0)

    def __len__(self):
        return len(self.items)

    def clear(self):
        self.items = []


def _uf_tables():
    sb, isb = S.UFTable("SBOX"), S.UFTable("INV_SBOX")
    sb.inverse, isb.inverse = isb, sb
    return {"_SBOX": sb, "_INV_SBOX": isb}


def _rk_equal(a, b):
    """round-key lists equal -> python bool or z3 Bool"""
    if len(a) != len(b):
        return False
    conds = []
    for x, y in zip(a, b):
        r = (x == y) if isinstance(x, S.SymBytes) else ((y == x) if isinstance(y, S.SymBytes) else bytes(x) == bytes(y))
        if r is False:
            return False
        if r is True:
            continue
        conds.append(r.z)
    if not conds:
        return True
    return z3.And(*conds) if len(conds) > 1 else conds[0]


def k2b_round_keys(ctx):
    """after any sequence of requests the schedule handed out for a key is the expansion of THAT key
    (memoised == unmemoised; the expansion itself is C20's subject)"""
    m = _aes()
    P = _pristine()
    L = ctx.params["L"]
    sizes = ctx.params.get("sizes")
    n = ctx.params.get("n") or (1 + ctx.choice("requests_minus_1", L))
    keys = []
    for i in range(n):
        sz = sizes[i % len(sizes)] if sizes else 16
        keys.append(ctx.fresh_bytes(f"key{i}", sz))
    # exhaustive partition of the key space by which of the first requests coincide (restricted growth string)
    rgs = ctx.params.get("rgs")
    if rgs:
        for j in range(min(len(rgs), n)):
            for i in range(j):
                same = keys[i] == keys[j]
                ctx.assume(same if rgs[i] == rgs[j] else (~same if isinstance(same, S.SymBool) else (not same)))
    if ctx.concrete:
        cm = contextlib.nullcontext()
        table = m._ROUND_KEY_CACHE
    else:
        table = SymLRU()
        cm = ctx.shadow(m, bytes=S.sym_bytes, _ROUND_KEY_CACHE=table, **_uf_tables())
    try:
        with cm:
            for i, key in enumerate(keys):
                try:
                    got = m._get_round_keys(key)
                except Exception as e:
                    ctx.fail("get-round-keys-raised", exc=type(e).__name__, msg=str(e)[:80], request=i)
                ref_key = key
                if ctx.perturb == "expect_first_keys_schedule":
                    ref_key = keys[0]
                want = m._expand_key(ref_key)
                ctx.require(_rk_equal(got, want), "schedule-of-another-key-returned", request=i, requests=n)
                if len(table) > m._ROUND_KEY_CACHE_MAX:
                    ctx.note("observation:round-key-table-above-its-stated-bound")   # memory, not results
    finally:
        P.reset()


_RGS3 = ([0, 0, 0], [0, 0, 1], [0, 1, 0], [0, 1, 1], [0, 1, 2])


def _k2b_parts(tier):
    if tier == "quick":
        return [{"L": 4}, {"L": 5, "n": 5}] + [{"L": 6, "n": 6, "rgs": r} for r in _RGS3] + \
            [{"L": 5, "sizes": [16, 24, 32, 16, 32]}]
    return [{"L": 5}] + [{"L": 6, "n": 6, "rgs": r} for r in _RGS3] + [{"L": 7, "n": 7, "rgs": r} for r in _RGS3] + \
        [{"L": 6, "sizes": [16, 24, 32, 16, 32, 24]}, {"L": 6, "n": 6, "sizes": [32]}, {"L": 6, "n": 6, "sizes": [24]}]


# ---------------------------------------------------------------------------------------
# K2c the built-in AES under concurrent use (controlled scheduler, see K1p)
# ---------------------------------------------------------------------------------------

# FIPS-197 appendix C example vectors: key 00 01 02 ..., plaintext 00 11 22 ... ff
_FIPS_PT = bytes.fromhex("00112233445566778899aabbccddeeff")
_FIPS_CT = {16: bytes.fromhex("69c4e0d86a7b0430d8cdb78070b4c55a"),
            24: bytes.fromhex("dda97ca4864cdfe06eaf70a0ec0d7191"),
            32: bytes.fromhex("8ea2b7ca516745bfeafc49904b496089")}
_IV = bytes.fromhex("0f1e2d3c4b5a69788796a5b4c3d2e1f0")
AES_OPS = ("ecb_enc", "ecb_dec", "cbc_enc", "cbc_dec")
K2C_FINDING = "C15-round-key-table-hit-races-with-eviction"


def _xor(a, b):
    return bytes(x ^ y for x, y in zip(a, b))


def _aes_job(m, op, ksize):
    """(callable on the real module, result FIPS-197 prescribes): one-block ECB / CBC operations built around the
    standard's example vectors (CBC: C = E(P xor IV), P = D(C) xor IV)"""
    key = bytes(range(ksize))
    pt, ct = _FIPS_PT, _FIPS_CT[ksize]
    if op == "ecb_enc":
        return (lambda: m.aes_ecb_encrypt(key, pt)), ct
    if op == "ecb_dec":
        return (lambda: m.aes_ecb_decrypt(key, ct)), pt
    if op == "cbc_enc":
        return (lambda: m.aes_cbc_encrypt(key, _IV, _xor(pt, _IV))), ct
    return (lambda: m.aes_cbc_decrypt(key, _IV, ct)), _xor(pt, _IV)


def k2c_aes_concurrent(ctx):
    """k threads each perform one operation of the built-in AES (the code pypdf's fallback provider is patched
    with) at the same time, under the controlled scheduler of K1p: a thread may be pre-empted before every call of
    a function of the module ("call") / before every line of it ("line"), at most ``bound`` times.  Oracle: what a
    thread gets does not depend on what the others are doing - it is what FIPS-197 prescribes for its key and
    block (== what the same call returns alone); nothing raises; nothing deadlocks.  ``warm``: the round-key table
    was filled by earlier calls (the first thread's key being the oldest entry)."""
    import threading
    m = _aes()
    P = _pristine()
    gran, bound = ctx.params["gran"], ctx.params["bound"]
    jobs = [tuple(j) for j in ctx.params["jobs"]]         # (operation, key size) per thread
    k = len(jobs)
    start = ctx.params.get("start")
    slice_r, slice_m = ctx.params.get("slice", (0, 1))
    warm = ctx.params.get("warm", 0)
    lock_t, rlock_t = type(threading.Lock()), type(threading.RLock())
    lengths = _RUN_LENGTHS.setdefault((S.REPO, "K2c", gran, bound, tuple(jobs), warm, ctx.perturb), {})
    calls, want = zip(*[_aes_job(m, op, ks) for op, ks in jobs])
    want = list(want)
    if ctx.perturb == "expect_first_threads_result":
        want = [want[0]] * k
    with contextlib.ExitStack() as st:
        sched = _Sched(k, gran, [m.__file__])
        sync = {n: _SchedLock(sched, isinstance(v, rlock_t)) for n, v in vars(m).items()
                if isinstance(v, (lock_t, rlock_t))}
        if sync:
            st.enter_context(ctx.stub(m, **sync))
        got = [None] * k

        def target(t):
            got[t] = calls[t]()

        runs, decisions = [], []
        cur, used, cut = None, 0, False
        hit = [False] * k
        known = (not ctx.perturb) and K2C_FINDING in (ctx.params.get("known_active") or ())

        def pick(n):
            v = ctx.pick("d%d" % len(decisions), n)
            decisions.append(v)
            return v

        def info():
            return {"jobs": ["%s/%d" % j for j in jobs], "schedule": runs[-16:], "preemptions": used, "warm": warm,
                    "at": ["T%d %s" % (t, _fmt_pos(sched.pos[t])) for t in range(k)]}

        try:
            if warm:
                # history: the table is full, thread 0's key is its oldest entry
                for key in [bytes(range(jobs[0][1]))] + [bytes([0xA0 + i]) * 16 for i in range(m._ROUND_KEY_CACHE_MAX - 1)]:
                    m._get_round_keys(key)
            alone = [_outcome(c) for c in calls] if ctx.perturb is None and not warm else None
            sched.start(target)
            while not all(sched.done):
                enabled = [t for t in range(k) if sched.enabled(t)]
                if not enabled:
                    ctx.fail("deadlock-in-aes", **info())
                # threads that have not started and do the same job are interchangeable
                cand = [t for t in enabled if sched.started[t] or
                        not any(not sched.started[u] and jobs[u] == jobs[t] for u in range(t))]
                if cut:
                    cand = [t for t in cand if t != cur]
                    if not cand:
                        ctx.assume(False)
                    used += 1
                elif cur in cand:
                    cand.remove(cur)
                    cand.insert(0, cur)
                t = cand[pick(len(cand))]
                if cur is None and start is not None and t != start:
                    ctx.assume(False)           # another part
                came_from = sched.pos[t]
                if not sched.started[t]:
                    hit[t] = bytes(range(jobs[t][1])) in m._ROUND_KEY_CACHE
                may_cut = used < bound and any(not sched.done[u] for u in range(k) if u != t)
                if not may_cut:
                    n, j = sched.run(t), 0
                elif ctx.concrete:
                    j = pick(_ANY)
                    n = sched.run(t, j)
                else:
                    key = tuple(decisions)
                    total = lengths.get(key)
                    if total is None:
                        n = total = lengths[key] = sched.run(t)
                        j = pick(total)
                        if j != 0:
                            raise RuntimeError("run-length table out of step with the exploration order")
                    else:
                        j = pick(total)
                        n = sched.run(t, j)
                if cur is None and j % slice_m != slice_r:
                    ctx.assume(False)           # another part
                cut = j != 0
                if known and cut and hit[t] and sched.pos[t][0] == "_get_round_keys":
                    # class of the known finding: a thread whose key was in the (full) table is pre-empted between
                    # its lookup and its move_to_end
                    ctx.note("schedule-in-class-of-known-finding:" + K2C_FINDING)
                    ctx.assume(False)
                if cut and (n != j or sched.done[t] or sched.blocked[t] is not None):
                    raise RuntimeError("pre-emption point %d of the run not reached (%d points)" % (j, n))
                runs.append("T%d x%d %s -> %s" % (t, n, _fmt_pos(came_from), _fmt_pos(sched.pos[t])))
                cur = t
                if sched.done[t] and ctx.perturb == "expect_operations_atomic":
                    # twin: demands that no other operation is under way when one completes - refuted exactly by
                    # the schedules that pre-empt inside an operation
                    mid = [u for u in range(k) if u != t and sched.started[u] and not sched.done[u]]
                    ctx.require(not mid, "twin-preempted-inside-operation", mid=mid, **info())
            errs = {t: e for t, e in enumerate(sched.err) if e}
            ctx.require(not errs, "aes-operation-raised-under-concurrency", errors=errs, **info())
            for t in range(k):
                ctx.require(got[t] == want[t], "aes-result-depends-on-concurrent-operation", thread=t,
                            got=got[t].hex() if isinstance(got[t], bytes) else repr(got[t]), fips197=want[t].hex(),
                            **info())
            if alone is not None:
                ctx.require(all(a == ("ok", w) for a, w in zip(alone, want)), "aes-result-alone-differs-from-fips197",
                            alone=[repr(a)[:80] for a in alone])
        finally:
            try:
                sched.close()
            finally:
                P.reset()


def _k2c_parts(tier):
    parts = []

    def add(gran, bound, jobs, m=1, warm=0):
        starts = [None] if len(set(jobs)) == 1 else [0, 1]
        for s0 in starts:
            for r in range(m):
                p = {"gran": gran, "bound": bound, "jobs": [list(j) for j in jobs], "warm": warm}
                if s0 is not None:
                    p["start"] = s0
                if m > 1:
                    p["slice"] = (r, m)
                parts.append(p)
    pairs = [(("cbc_dec", 16), ("cbc_dec", 32)), (("ecb_enc", 16), ("ecb_dec", 16)), (("cbc_enc", 32), ("ecb_dec", 24)),
             (("cbc_dec", 16), ("cbc_dec", 16))]
    if tier == "quick":
        for jobs in pairs:
            add("call", 1, jobs)
    else:
        for a in AES_OPS:
            for b in AES_OPS:
                if a <= b:
                    for ka, kb in ((16, 32), (16, 16), (24, 16)):
                        add("call", 2, ((a, ka), (b, kb)), m=2)
        for jobs in pairs:
            add("line", 1, jobs, m=4)
            add("call", 2, jobs, m=2, warm=1)
        add("line", 1, pairs[0], m=4, warm=1)
        add("call", 1, (("cbc_dec", 16), ("cbc_dec", 32), ("ecb_enc", 24)))
    return parts


# ---------------------------------------------------------------------------------------
# K2m lru_cache'd lookups and the type registry
# ---------------------------------------------------------------------------------------

LOOKUP_NAMES = ["a.pdf", "A.PDF", "b.txt", "c.unknownext", "noext", "d.tar.gz", "e.gz", "f.xhtml", "g.png",
                "h.docx", "", "dir.d/i"]


def _outcome(f, *a):
    try:
        return ("ok", f(*a))
    except Exception as e:
        return ("exc", type(e).__name__, str(e))


def _lookup_reference(facet):
    """what each memoised lookup stands for, per its docstring: the router's own answer / the
    mimetypes guess with the octet-stream default"""
    import mimetypes
    from sharepoint2text.parsing import router
    if facet == "archive._is_supported_file_cached":
        return router.is_supported_file
    if facet == "archive._get_file_extractor_cached":
        return router.get_extractor
    return lambda path: mimetypes.guess_type(path)[0] or "application/octet-stream"


def k2m_lookups(ctx):
    """memoised lookups: after any history of lookups the answer (or the exception) for a name is
    the answer of the undecorated function; the type registry is the set of result dataclasses
    however often and in whichever state it is asked for"""
    import dataclasses
    P = _pristine()
    facet = ctx.params["facet"]
    try:
        if facet == "registry":
            from sharepoint2text.parsing.extractors import data_types, serialization
            pre = ctx.choice("registry_state", 3)       # empty / populated / populated by a decode
            serialization._TYPE_REGISTRY.clear()
            if pre == 1:
                serialization._get_type_registry()
            elif pre == 2:
                obj = data_types.PlainTextContent(content="x")
                serialization.deserialize_extraction(obj.to_json())
            r1 = serialization._get_type_registry()
            snap = dict(r1)
            r2 = serialization._get_type_registry()
            want = {n: o for n, o in vars(data_types).items()
                    if isinstance(o, type) and dataclasses.is_dataclass(o)}
            if ctx.perturb == "registry_expect_extra":
                want["NotAType"] = int
            ctx.require(r1 is r2 and dict(r2) == snap, "type-registry-not-idempotent")
            ctx.require(snap == want, "type-registry-differs-from-result-dataclasses",
                        missing=sorted(set(want) - set(snap)), extra=sorted(set(snap) - set(want)))
            return
        fns = _lru_functions()
        f = fns[facet]
        hist_n = ctx.choice("history", ctx.params["H"] + 1)
        hist = [LOOKUP_NAMES[ctx.choice(f"name{i}", len(LOOKUP_NAMES))] for i in range(hist_n)]
        q = LOOKUP_NAMES[ctx.choice("query", len(LOOKUP_NAMES))]
        for h in hist:
            _outcome(f, h)
        got = _outcome(f, q)
        ref = _lookup_reference(facet)
        want = _outcome(ref, q)
        if ctx.perturb == "expect_previous_answer" and hist:
            want = _outcome(ref, hist[-1])
        ctx.require(got == want, "memoised-lookup-depends-on-history", fn=facet, history=hist, query=q,
                    got=repr(got)[:80], isolated=repr(want)[:80])
    finally:
        P.reset()


def _k2m_parts(tier):
    H = 2 if tier == "quick" else 3
    return [{"facet": n, "H": H} for n in sorted(_lru_functions()) if n != "archive._get_router_functions"] + \
        [{"facet": "registry", "H": 0}]


# ---------------------------------------------------------------------------------------
# K3 residue and result independence over sequences of real extractions
# ---------------------------------------------------------------------------------------

K3_FINDING = "C15-aes128-pdf-result-depends-on-earlier-aes256-pdf"
K3_FONT_FINDING = "C15-font-cache-read-pdf-result-depends-on-earlier-pdf-with-same-font"


def _res_dir():
    return os.path.join(S.REPO, "sharepoint2text", "tests", "resources")


def _tiny_pdf(text=b"Total 123 items"):
    """one page, one Type1 font, one text-showing operator (PDF 32000-1 7.5: header, body, xref, trailer)"""
    content = b"BT /F1 12 Tf 72 200 Td (" + text + b") Tj ET"
    objs = [b"<< /Type /Catalog /Pages 2 0 R >>",
            b"<< /Type /Pages /Kids [3 0 R] /Count 1 >>",
            b"<< /Type /Page /Parent 2 0 R /MediaBox [0 0 300 300] /Contents 4 0 R "
            b"/Resources << /Font << /F1 5 0 R >> >> >>",
            b"<< /Length " + str(len(content)).encode() + b" >>\nstream\n" + content + b"\nendstream",
            b"<< /Type /Font /Subtype /Type1 /BaseFont /Helvetica /Encoding /WinAnsiEncoding >>"]
    return _pdf_from_objects(objs)


def _pdf_from_objects(objs):
    out = bytearray(b"%PDF-1.4\n")
    offs = []
    for i, o in enumerate(objs, start=1):
        offs.append(len(out))
        out += str(i).encode() + b" 0 obj\n" + o + b"\nendobj\n"
    xref = len(out)
    out += b"xref\n0 " + str(len(objs) + 1).encode() + b"\n0000000000 65535 f \n"
    for o in offs:
        out += ("%010d 00000 n \n" % o).encode()
    out += b"trailer\n<< /Size " + str(len(objs) + 1).encode() + b" /Root 1 0 R >>\nstartxref\n" + \
        str(xref).encode() + b"\n%%EOF\n"
    return bytes(out)


def _pdf_stream(entries, data):
    return b"<< " + entries + b" /Length " + str(len(data)).encode() + b" >>\nstream\n" + data + b"\nendstream"


def _digit_font_pdf(ttf, null_codes, shown):
    """one page set in an embedded TrueType font (Type0 / CIDFontType2 / FontFile2) whose ToUnicode CMap
    maps the codes ``null_codes`` to U+0000 (the situation the library's digit-map repair exists for)
    and code 4 to 'A'; the page shows the codes ``shown``"""
    bf = b"".join(b"<%04X> <0000>\n" % c for c in null_codes) + b"<0004> <0041>\n"
    cmap = (b"/CIDInit /ProcSet findresource begin 12 dict begin begincmap /CMapName /Adobe-Identity-UCS def "
            b"/CMapType 2 def 1 begincodespacerange <0000> <FFFF> endcodespacerange " +
            str(len(null_codes) + 1).encode() + b" beginbfchar\n" + bf + b"endbfchar endcmap "
            b"CMapName currentdict /CMap defineresource pop end end")
    content = b"BT /F1 12 Tf 72 200 Td <" + b"".join(b"%04X" % c for c in shown) + b"> Tj ET"
    return _pdf_from_objects([
        b"<< /Type /Catalog /Pages 2 0 R >>",
        b"<< /Type /Pages /Kids [3 0 R] /Count 1 >>",
        b"<< /Type /Page /Parent 2 0 R /MediaBox [0 0 300 300] /Contents 4 0 R "
        b"/Resources << /Font << /F1 5 0 R >> >> >>",
        _pdf_stream(b"", content),
        b"<< /Type /Font /Subtype /Type0 /BaseFont /AAAAAA+Mini /Encoding /Identity-H "
        b"/DescendantFonts [6 0 R] /ToUnicode 9 0 R >>",
        b"<< /Type /Font /Subtype /CIDFontType2 /BaseFont /AAAAAA+Mini /CIDSystemInfo << /Registry (Adobe) "
        b"/Ordering (Identity) /Supplement 0 >> /FontDescriptor 7 0 R /DW 600 /CIDToGIDMap /Identity >>",
        b"<< /Type /FontDescriptor /FontName /AAAAAA+Mini /Flags 4 /FontBBox [0 0 1000 1500] /ItalicAngle 0 "
        b"/Ascent 1500 /Descent 0 /CapHeight 1500 /StemV 80 /FontFile2 8 0 R >>",
        _pdf_stream(b"/Length1 " + str(len(ttf)).encode(), ttf),
        _pdf_stream(b"", cmap)])


_ODF_NS = ('xmlns:office="urn:oasis:names:tc:opendocument:xmlns:office:1.0" '
           'xmlns:text="urn:oasis:names:tc:opendocument:xmlns:text:1.0" '
           'xmlns:table="urn:oasis:names:tc:opendocument:xmlns:table:1.0"')


def _odf_package(kind, text, meta_title=None):
    """OpenDocument package (ODF 1.2 part 3: mimetype first and stored, content.xml, manifest); meta.xml is an
    optional member and is left out unless a title is given"""
    import zipfile
    mime = {"odt": "application/vnd.oasis.opendocument.text",
            "ods": "application/vnd.oasis.opendocument.spreadsheet"}[kind]
    if kind == "odt":
        body = f"<office:text><text:p>{text}</text:p></office:text>"
    else:
        body = ('<office:spreadsheet><table:table table:name="S1"><table:table-row>'
                f'<table:table-cell office:value-type="string"><text:p>{text}</text:p></table:table-cell>'
                "</table:table-row></table:table></office:spreadsheet>")
    content = (f'<?xml version="1.0" encoding="UTF-8"?><office:document-content {_ODF_NS} office:version="1.2">'
               f"<office:body>{body}</office:body></office:document-content>")
    members = [("content.xml", content)]
    if meta_title is not None:
        members.append(("meta.xml", f'<?xml version="1.0" encoding="UTF-8"?><office:document-meta {_ODF_NS} '
                                    'xmlns:dc="http://purl.org/dc/elements/1.1/"><office:meta>'
                                    f"<dc:title>{meta_title}</dc:title></office:meta></office:document-meta>"))
    manifest = ('<?xml version="1.0" encoding="UTF-8"?><manifest:manifest '
                'xmlns:manifest="urn:oasis:names:tc:opendocument:xmlns:manifest:1.0" manifest:version="1.2">'
                f'<manifest:file-entry manifest:full-path="/" manifest:media-type="{mime}"/>' +
                "".join(f'<manifest:file-entry manifest:full-path="{n}" manifest:media-type="text/xml"/>'
                        for n, _ in members) + "</manifest:manifest>")
    buf = io.BytesIO()
    with zipfile.ZipFile(buf, "w", zipfile.ZIP_DEFLATED) as zf:
        zf.writestr(zipfile.ZipInfo("mimetype"), mime)
        for n, c in members:
            zf.writestr(n, c)
        zf.writestr("META-INF/manifest.xml", manifest)
    return buf.getvalue()


_DOCS = None


def _docs():
    """documents of the vocabulary, built once per process.  The encrypted PDFs are written by
    pypdf; with the fallback crypto provider that needs the library's AES patch, which is applied
    for the time of writing only (the snapshot is restored right after)."""
    global _DOCS
    if _DOCS is not None:
        return _DOCS
    import pypdf
    P = _pristine()
    plain = _tiny_pdf()
    d = {"pdf": plain, "pdf_cut": plain[:len(plain) // 2]}
    ttf = _fonts()[0][1]
    # two documents embedding the SAME font file; different codes are the ones without a Unicode value
    d["pdf_digits_a"] = _digit_font_pdf(ttf, [1, 2], [1, 2, 4])
    d["pdf_digits_b"] = _digit_font_pdf(ttf, [2, 3], [2, 3, 4])
    try:
        _aes().patch_pypdf_fallback_aes()
        for alg, pw, name in (("AES-128", "", "pdf_aes128"), ("AES-256-R5", "", "pdf_aes256r5"),
                              ("RC4-128", "", "pdf_rc4"), ("AES-128", "secret", "pdf_aes128_pw")):
            w = pypdf.PdfWriter(clone_from=pypdf.PdfReader(io.BytesIO(plain)))
            w.encrypt(user_password=pw, owner_password="owner", algorithm=alg)
            b = io.BytesIO()
            w.write(b)
            d[name] = b.getvalue()
    finally:
        P.reset()
    d["odt_nometa"] = _odf_package("odt", "text of the meta-less text document")
    d["ods_nometa"] = _odf_package("ods", "cell of the meta-less spreadsheet")
    d["odt_meta"] = _odf_package("odt", "text of the titled document", meta_title="Titled")
    r = _res_dir()
    for name, rel in (("7z", "archives/test_archive.7z"), ("zip", "archives/sample.zip"), ("epub", "epub/sample.epub"),
                      ("odt", "open_office/headings.odt"), ("pdf_sample", "pdf/sample.pdf")):
        with open(os.path.join(r, rel), "rb") as f:
            d[name] = f.read()
    _DOCS = d
    return d


def _json_default(o):
    # values json cannot carry (e.g. a pypdf IndirectObject in PdfImage.color_space, whose repr holds a
    # memory address) count by their type only: their serialisability is not this property's subject
    return "<%s>" % type(o).__name__


_ADDR = None
_COLLECT = None      # when a list: every batch of result objects that was digested is appended (K3 clause b)
META_FIELDS = ("filename", "file_extension", "file_path", "folder_path")


def _observe_one(o, raw=False):
    """what a caller can see of one result: to_json() and the file metadata of get_metadata()"""
    global _ADDR
    import re
    if _ADDR is None:
        _ADDR = re.compile(r"IndirectObject\((\d+), (\d+), \d+\)")
    txt = json.dumps(o.to_json(), sort_keys=True, default=_json_default)
    try:
        md = o.get_metadata()
        meta = [getattr(md, f, None) for f in META_FIELDS]
    except Exception as e:
        meta = ["get_metadata raised " + type(e).__name__]
    txt += "|" + json.dumps(meta, default=_json_default)
    if not raw:
        txt = _ADDR.sub(r"IndirectObject(\1, \2, *)", txt)
    return hashlib.sha256(txt.encode()).hexdigest()[:12]


def _digest(objs, raw=False):
    """digest of to_json() + file metadata per unit.  Unless ``raw``, the object address inside the text pypdf
    prints for an indirect reference ('IndirectObject(16, 0, 140028663430320)', which the PDF extractor copies
    into PdfImage.color_space) is masked: that defect is K3d's subject and would otherwise make every history
    look different."""
    objs = list(objs)
    if _COLLECT is not None:
        _COLLECT.append(objs)
    return [_observe_one(o, raw) for o in objs]


def _in_child(fn):
    """run ``fn()`` in a forked child of this worker and return its (picklable) result: the worker itself never
    extracts anything, so every history starts from a process that has extracted nothing - including state this
    check does not know about (a module-level object shared between results, say)."""
    import pickle
    import traceback
    r, w = os.pipe()
    pid = os.fork()
    if pid == 0:
        try:
            os.close(r)
            gc.freeze()     # the child's collections look at its own objects only (no copy-on-write of the heap)
            try:
                out = ("ok", fn())
            except BaseException as e:
                out = ("err", "%s: %s\n%s" % (type(e).__name__, e, traceback.format_exc(limit=6)))
            with os.fdopen(w, "wb") as f:
                pickle.dump(out, f)
        finally:
            os._exit(0)
    os.close(w)
    with os.fdopen(r, "rb") as f:
        data = f.read()
    os.waitpid(pid, 0)
    if not data:
        raise RuntimeError("child process died without a result")
    out = pickle.loads(data)
    if out[0] == "err":
        raise RuntimeError("child process: " + out[1])
    return out[1]


class _Fault(Exception):
    pass


def _run_entry(ctx, name):
    """one extraction of the vocabulary -> observable result (digests of to_json per unit, or the
    class of the extraction error)"""
    pe, ae = _pe(), _ae()
    from sharepoint2text.parsing.exceptions import ExtractionError
    from sharepoint2text.parsing.extractors import epub_extractor
    from sharepoint2text.parsing.extractors.open_office import odt_extractor
    from sharepoint2text.parsing.extractors.serialization import deserialize_extraction
    d = _docs()
    with contextlib.ExitStack() as st:
        try:
            if name in ("pdf", "pdf_cut", "pdf_aes128", "pdf_aes256r5", "pdf_rc4", "pdf_aes128_pw", "pdf_sample",
                        "pdf_digits_a", "pdf_digits_b"):
                return ("ok", _digest(list(pe.read_pdf(io.BytesIO(d[name]), "dir/x.pdf"))))
            if name in ("pdf_fault_once", "pdf_fault_always"):
                real = pe._patch_font_digit_map
                n = {"calls": 0}

                def faulty(font_map, font_dict):
                    n["calls"] += 1
                    if name == "pdf_fault_always" or n["calls"] == 1:
                        raise _Fault("injected inside the patched char-map builder")
                    return real(font_map, font_dict)
                st.enter_context(ctx.stub(pe, _patch_font_digit_map=faulty))
                out = _digest(list(pe.read_pdf(io.BytesIO(d["pdf"]), "dir/x.pdf")))
                return ("ok", out, n["calls"] > 0)
            if name == "pdf_json":
                objs = list(pe.read_pdf(io.BytesIO(d["pdf"]), "dir/x.pdf"))
                back = [deserialize_extraction(o.to_json()) for o in objs]
                return ("ok", _digest(objs), _digest(back))
            if name == "7z":
                return ("ok", _digest(list(ae.read_archive(io.BytesIO(d["7z"]), "dir/a.7z"))))
            if name in ("7z_close", "7z_drop", "7z_throw"):
                gen = ae.read_archive(io.BytesIO(d["7z"]), "dir/a.7z")
                first = next(gen)
                if name == "7z_close":
                    gen.close()
                elif name == "7z_throw":
                    try:
                        gen.throw(_Fault("consumer failed"))
                    except (_Fault, StopIteration):
                        pass
                    except ExtractionError as e:
                        return ("ok", _digest([first]), type(e).__name__)
                else:
                    del gen
                    gc.collect()
                return ("ok", _digest([first]))
            if name == "7z_extract_fault":
                real_cls = ae.SevenZipFile

                class Faulty(real_cls):
                    def extractall(self, path):
                        super().extractall(path)
                        raise OSError(28, "No space left on device (injected after the members were written)")
                st.enter_context(ctx.stub(ae, SevenZipFile=Faulty))
                return ("ok", _digest(list(ae.read_archive(io.BytesIO(d["7z"]), "dir/a.7z"))))
            if name == "zip":
                return ("ok", _digest(list(ae.read_archive(io.BytesIO(d["zip"]), "dir/a.zip"))))
            if name == "epub":
                return ("ok", _digest(list(epub_extractor.read_epub(io.BytesIO(d["epub"]), "dir/a.epub"))))
            if name == "odt":
                return ("ok", _digest(list(odt_extractor.read_odt(io.BytesIO(d["odt"]), "dir/a.odt"))))
            if name in ODF_ENTRIES:
                from sharepoint2text.parsing import router
                doc, path = ODF_ENTRIES[name]
                fn = router.get_extractor("x." + doc[:3])
                return ("ok", _digest(list(fn(io.BytesIO(d[doc]), path))))
            raise KeyError(name)
        except ExtractionError as e:
            return ("extraction-error", type(e).__name__, type(e.__cause__).__name__ if e.__cause__ else None)
        except Exception as e:
            return ("other-exception", type(e).__name__, str(e)[:80])


# meta-less OpenDocument packages of two kinds, each extracted with a path and from a bare stream
ODF_ENTRIES = {"odt_nometa_path": ("odt_nometa", "first/a.odt"), "odt_nometa_nopath": ("odt_nometa", None),
               "ods_nometa_path": ("ods_nometa", "second/b.ods"), "ods_nometa_nopath": ("ods_nometa", None),
               "odt_meta_path": ("odt_meta", "third/c.odt"), "odt_meta_nopath": ("odt_meta", None)}

VOCAB_QUICK = ["pdf", "pdf_fault_once", "pdf_fault_always", "pdf_cut", "pdf_aes256r5", "pdf_aes128", "pdf_json",
               "pdf_digits_a", "pdf_digits_b", "7z", "7z_close", "7z_extract_fault",
               "odt_nometa_path", "odt_nometa_nopath", "ods_nometa_path", "ods_nometa_nopath"]
VOCAB_CORE = ["pdf", "pdf_fault_once", "pdf_aes256r5", "pdf_aes128", "pdf_digits_a", "pdf_digits_b", "7z_close",
              "7z_extract_fault", "odt_nometa_path", "odt_nometa_nopath"]
VOCAB_THOROUGH = VOCAB_QUICK + ["zip", "epub", "pdf_rc4", "pdf_aes128_pw", "7z_drop", "7z_throw", "odt", "pdf_sample",
                                "odt_meta_path", "odt_meta_nopath"]

_BASE = {}


def _baseline(ctx, P, name):
    """result of the entry in a process that has extracted nothing else (a forked child of this worker, which
    itself never extracts); computed twice there to make sure it is a function of the document alone"""
    if name not in _BASE:
        def twice():
            P.reset()
            a = _run_entry(ctx, name)
            P.reset()
            return a, _run_entry(ctx, name)
        a, b = _in_child(twice)
        if a != b:
            raise RuntimeError(f"entry {name} is not deterministic in isolation: {a} / {b}")
        _BASE[name] = a
    return _BASE[name]


def _fd_count():
    try:
        return len(os.listdir("/proc/self/fd"))
    except OSError:
        return -1


def k3_residue(ctx):
    import shutil
    import tempfile
    ae = _ae()
    P = _pristine()
    vocab = VOCAB_QUICK if ctx.params.get("vocab", "quick") == "quick" else VOCAB_THOROUGH
    N = ctx.params["N"]
    first = ctx.params.get("first")
    n = 1 + ctx.choice("entries_minus_1", N)
    # quick: every single entry and every ordered pair of the vocabulary, triples over the core entries (one
    # representative of every state-touching mechanism); thorough: every triple of the larger vocabulary
    pool = VOCAB_CORE if (n == 3 and ctx.params.get("triples", "all") == "core") else vocab
    seq = []
    for i in range(n):
        if i == 0 and first is not None:
            if first not in pool:
                ctx.assume(False)
            seq.append(first)
        else:
            seq.append(pool[ctx.choice(f"entry{i}", len(pool))])
    if (not ctx.perturb) and K3_FINDING in (ctx.params.get("known_active") or ()):
        # class of the known finding: a document that needs the AES fallback only after the reader
        # was constructed (AES-128), extracted after a document that installed the fallback
        trig = [i for i, e in enumerate(seq) if e == "pdf_aes256r5"]
        if trig and any(e.startswith("pdf_aes128") and i > trig[0] for i, e in enumerate(seq)):
            ctx.note("history-in-class-of-known-finding:" + K3_FINDING)
            ctx.assume(False)
    if (not ctx.perturb) and K3_FONT_FINDING in (ctx.params.get("known_active") or ()):
        # class of the known finding: two documents embedding the same font file with different
        # codes lacking a Unicode value, in one process
        if "pdf_digits_a" in seq and "pdf_digits_b" in seq:
            ctx.note("history-in-class-of-known-finding:" + K3_FONT_FINDING)
            ctx.assume(False)
    _docs()
    base = {e: _baseline(ctx, P, e) for e in set(seq)}

    def run_sequence():
        global _COLLECT
        scratch = tempfile.mkdtemp(prefix="c15-k3-")
        results, kept, at_return = [], [], []
        try:
            P.reset()
            gc.collect()
            config_before = ae._config
            fds_before = _fd_count()
            with ctx.stub(tempfile, tempdir=scratch):
                for e in seq:
                    _COLLECT = []
                    try:
                        results.append(_run_entry(ctx, e))
                    finally:
                        batches, _COLLECT = _COLLECT, None
                    objs = [o for b in batches for o in b]
                    kept.append(objs)
                    at_return.append([_observe_one(o) for o in objs])     # snapshot at return time
                # (b) what was handed out earlier is still what it was when it was handed out
                changed_later = [i for i, objs in enumerate(kept)
                                 if [_observe_one(o) for o in objs] != at_return[i]]
                del kept, objs, batches
                gc.collect()
            return {"results": results, "changed_later": changed_later,
                    "fds": (fds_before, _fd_count()), "left_files": sorted(os.listdir(scratch)),
                    "charmap": P.changed(CHARMAP_MODULES), "crypto": P.changed(CRYPTO_MODULES),
                    "lib_changed": _state_diff(P.pe_state, _lib_state(_pe())),
                    "config_same": ae._config is config_before}
        finally:
            shutil.rmtree(scratch, ignore_errors=True)

    obs = _in_child(run_sequence)
    results, crypto, charmap, lib_changed = obs["results"], obs["crypto"], obs["charmap"], obs["lib_changed"]
    left_files, (fds_before, fds_after) = obs["left_files"], obs["fds"]
    if crypto:
        # one-way by design (DESIGN C15/K3): recorded with its trigger, not judged by itself
        ctx.note("observation:one-way-aes-fallback-patch-installed (trigger: PdfReader() raises DependencyError "
                 "under the local_crypt_fallback provider, i.e. an AES-256 R5/R6 PDF)")
    for i, (e, r) in enumerate(zip(seq, results)):
        want = base[e]
        if ctx.perturb == "expect_first_entrys_result":
            want = base[seq[0]]
        ctx.require(r == want, "result-depends-on-earlier-extractions", position=i, entry=e, sequence=seq,
                    got=repr(r)[:160], isolated=repr(base[e])[:160])
    if ctx.perturb == "expect_crypto_untouched":
        ctx.require(not crypto, "twin-crypto")
    ctx.require(not charmap, "pypdf-char-map-attribute-not-restored", residue=charmap, sequence=seq)
    ctx.require(not lib_changed, "pdf-extractor-module-state-not-restored", changed=lib_changed, sequence=seq)
    if ctx.perturb == "expect_earlier_results_to_change":
        ctx.require(bool(obs["changed_later"]), "twin-aliasing")
    ctx.require(not obs["changed_later"], "earlier-result-changed-by-later-extraction",
                positions=obs["changed_later"], entries=[seq[i] for i in obs["changed_later"]], sequence=seq)
    ctx.require(obs["config_same"], "archive-configuration-changed", sequence=seq)
    ctx.require(not left_files, "temporary-files-left-behind", left=left_files[:5], sequence=seq)
    ctx.require(fds_after == fds_before, "open-handles-left-behind", before=fds_before, after=fds_after, sequence=seq)


K3D_FINDING = "C15-pdf-image-color-space-carries-object-address"


def _k3d_documents():
    import glob
    docs = [("doc:" + n, None) for n in ("pdf", "pdf_digits_a", "pdf_aes256r5", "pdf_rc4", "7z", "zip", "epub", "odt",
                                            "odt_nometa_path", "ods_nometa_nopath")]
    docs += [("file:" + os.path.relpath(f, _res_dir()), f)
             for f in sorted(glob.glob(os.path.join(_res_dir(), "pdf", "*.pdf")))]
    return docs


def k3d_same_document_twice(ctx):
    """base case of history independence: the history is the same document, once.  Both runs start from the
    snapshot state, so any difference is carried by something outside the state this check knows about."""
    from sharepoint2text.parsing import router
    from sharepoint2text.parsing.exceptions import ExtractionError
    P = _pristine()
    docs = _k3d_documents()
    name = ctx.params["doc"]
    path = dict(docs)[name]
    masked = (not ctx.perturb) and K3D_FINDING in (ctx.params.get("known_active") or ())

    def once():
        P.reset()
        try:
            if path is None:
                return _run_entry(ctx, name[4:]) if masked else _run_entry_raw(ctx, name[4:])
            with open(path, "rb") as f:
                data = f.read()
            return ("ok", _digest(list(router.get_extractor(path)(io.BytesIO(data), path)), raw=not masked))
        except ExtractionError as e:
            return ("extraction-error", type(e).__name__)
        finally:
            P.reset()
    _docs()
    a, b = _in_child(lambda: (once(), once()))
    if ctx.perturb == "expect_two_runs_to_differ":
        ctx.require(a != b, "twin-determinism")
    ctx.require(a == b, "same-document-extracted-twice-gives-different-results", document=name, masked=masked,
                first=repr(a)[:120], second=repr(b)[:120])


def _run_entry_raw(ctx, name):
    pe, ae = _pe(), _ae()
    d = _docs()
    if name.startswith("pdf"):
        return ("ok", _digest(list(pe.read_pdf(io.BytesIO(d[name]), "dir/x.pdf")), raw=True))
    return _run_entry(ctx, name)


def _k3d_parts(tier):
    return [{"doc": n} for n, _ in _k3d_documents()]


def _k3_parts(tier):
    if tier == "quick":
        return [{"N": 3, "vocab": "quick", "triples": "core", "first": e} for e in VOCAB_QUICK]
    return [{"N": 3, "vocab": "thorough", "first": e} for e in VOCAB_THOROUGH]


# ---------------------------------------------------------------------------------------

def _t_k1():
    pe = _pe()
    return [pe._patched_build_char_map, pe._get_pypdf_char_map_patcher]


def _t_k2a():
    pe = _pe()
    return [pe._ttf_get_glyph_features, pe._ttf_read_table_directory, pe._ttf_read_head, pe._ttf_read_maxp,
            pe._ttf_read_loca, pe._ttf_read_glyph_dimensions]


def _t_k2b():
    m = _aes()
    return [m._get_round_keys, m._expand_key]


def _t_k2c():
    m = _aes()
    return [m.aes_ecb_encrypt, m.aes_ecb_decrypt, m.aes_cbc_encrypt, m.aes_cbc_decrypt, m._aes_encrypt_block,
            m._aes_decrypt_block, m._get_round_keys]


def _t_k2m():
    from sharepoint2text.parsing.extractors import serialization
    return [getattr(f, "__wrapped__", f) for f in _lru_functions().values()] + [serialization._get_type_registry]


def _t_k3():
    pe, ae, m = _pe(), _ae(), _aes()
    return [pe.read_pdf, pe._open_pdf_reader, pe._extract_text_with_spacing, pe._patched_build_char_map,
            m.patch_pypdf_fallback_aes, ae.read_archive, ae._extract_from_7z_optimized,
            ae.configure_archive_extraction]


def _t_k3d():
    pe = _pe()
    return [pe.read_pdf, pe._extract_image]


KERNELS = [
    Kernel("K1", "every enter/exit schedule of k instances of _patched_build_char_map (bodies may fail): patch in "
                 "force while inside, every pypdf attribute IS the original after all have left",
           k1_schedules, targets=_t_k1, parts=_k1_parts, strength="structure",
           bounds={"quick": {"K": 3}, "thorough": {"K": 4}},
           perturb=[("expect_restore_at_first_exit", {"api": "new"}), "expect_wrapper_after_exit"],
           choices=["number of threads", "thread taking each of the 2k schedule slots", "body failure per thread",
                    "pypdf layout: installed / >=6.6 (_cmap+_font.get_encoding) / <6.6 (_page.build_char_map) / neither"],
           stubs=["layouts other than the installed one: pypdf._cmap/_font/_page -> namespace objects with recording "
                  "originals; _patch_font_digit_map -> call counter"],
           assumptions=["a thread's critical section is entered and left atomically (generator-based context "
                        "manager: __enter__ / __exit__ are the observable events)"],
           outside=["pre-emption inside __enter__/__exit__ (between getattr and setattr, between the two modules "
                    "of the >=6.6 layout): K1p", "randomised pre-emptive schedules of real threads"],
           timeout={"quick": 100, "thorough": 1000}),
    Kernel("K1p", "k real threads through `with _patched_build_char_map(): body` under a controlled scheduler that "
                  "pre-empts INSIDE __enter__ / __exit__ (before every line / every shared-state byte-code operation "
                  "of the module): all schedules with a bounded number of pre-emptions; patch in force in every body, "
                  "every pypdf attribute IS the original and the module bookkeeping is back after all have left, no "
                  "deadlock",
           k1p_preemptive, targets=_t_k1, parts=_k1p_parts, strength="structure", max_depth=6000,
           bounds={"quick": {"threads": "2 (3: line, >=6.6 layout, no failing body)",
                             "preemptions": "2 (line, k=2, >=6.6 layout) / 1 (otherwise)"},
                   "thorough": {"threads": "2 / 3", "preemptions": "2 (k=2, line and opcode; k=3, line, installed pypdf, no failing body) / "
                                               "1 (k=3, line and opcode)"}},
           perturb=[("expect_enter_and_exit_atomic", {"api": "new", "gran": "line", "k": 2, "bound": 1, "nfail": 0}),
                    ("lock_excludes_nothing", {"api": "new", "gran": "line", "k": 2, "bound": 1, "nfail": 0}),
                    ("lock_excludes_nothing", {"api": "installed", "gran": "opcode", "k": 2, "bound": 1, "nfail": 1})],
           choices=["thread taking each step (a step = up to the next line / shared-state byte-code operation of "
                    "pdf_extractor.py, the body, or a wait for the module's lock)", "number of failing bodies",
                    "pypdf layout: installed / >=6.6 / <6.6", "granularity: line / byte-code operation"],
           stubs=["every threading.Lock / RLock held at module level by pdf_extractor -> scheduler-aware lock with the "
                  "same exclusion semantics (a waiting thread is descheduled instead of blocking the process)",
                  "sys.settrace in the scheduled threads (switching points only; nothing is altered)",
                  "layouts other than the installed one: as K1"],
           assumptions=["operations on the evaluation stack / fast locals / freshly built objects are thread-local "
                        "(no switching point before them at byte-code granularity)",
                        "C-level calls (getattr, setattr, list.append, list.clear) are atomic, as under the GIL",
                        "threads are interchangeable: which bodies fail is fixed up to renaming"],
           outside=["schedules with more pre-emptions inside __enter__/__exit__ than the bound (switches at a body, "
                    "a lock wait or a thread's end are not counted)", "more than 3 threads",
                    "pre-emption inside pypdf / the page extraction itself (the body is one step)"],
           timeout={"quick": 100, "thorough": 1000}),
    Kernel("K2a", "_ttf_get_glyph_features after a history of calls == the same call in a fresh process "
                  "(symbolic glyph-id lists), and == the font's own tables",
           k2a_font_cache, targets=_t_k2a, parts=_k2a_parts,
           perturb=[("expect_previous_call", {"font0": 0, "font1": 1}), ("spec_upem_off", {"font0": 0, "font1": 0})],
           symbolic=["every glyph id of every call, in [-1, numGlyphs]"],
           choices=["font per call (short loca / long loca / no maxp table)", "length of each glyph-id list"],
           assumptions=["fonts are three concrete minimal TrueType files written by the harness from the OpenType "
                        "table layouts (4 non-empty glyphs)"],
           outside=["fonts with symbolic bytes; lists longer than the bound"],
           timeout={"quick": 100, "thorough": 1000}),
    Kernel("K2b", "_get_round_keys after any request sequence (hits, misses, evictions) == _expand_key of the "
                  "requested key (fully symbolic keys)",
           k2b_round_keys, targets=_t_k2b, parts=_k2b_parts,
           perturb=["expect_first_keys_schedule"],
           symbolic=["every byte of every requested key (16/24/32 bytes): the solver decides which requests coincide"],
           choices=["number of requests (<=6, thorough 7)"],
           stubs=[],
           assumptions=["_ROUND_KEY_CACHE (an OrderedDict) replaced in symbolic runs by an insertion-ordered table "
                        "with solver-decided key comparison; S-box as an uninterpreted function (C20/K1)"],
           outside=["request sequences longer than the bound"],
           timeout={"quick": 150, "thorough": 1100}, solver_timeout_ms=60000),
    Kernel("K2c", "k threads inside the built-in AES (ECB/CBC encrypt/decrypt, 128/192/256-bit keys) at the same time "
                  "under the controlled scheduler of K1p: every thread gets what FIPS-197 prescribes for its own key "
                  "and block, whatever the others are doing; nothing raises",
           k2c_aes_concurrent, targets=_t_k2c, parts=_k2c_parts, strength="structure", max_depth=6000,
           bounds={"quick": {"threads": 2, "preemptions": "1 (4 job pairs), before every call of a function of the "
                                                         "module"},
                   "thorough": {"threads": "2 / 3", "preemptions": "2 (call granularity, all operation pairs) / 1 (line "
                                                                 "granularity; 3 threads)"}},
           perturb=[("expect_operations_atomic", {"gran": "call", "bound": 1, "warm": 0,
                                                  "jobs": [["cbc_dec", 16], ["cbc_dec", 32]]}),
                    ("expect_first_threads_result", {"gran": "call", "bound": 1, "warm": 0,
                                                     "jobs": [["ecb_enc", 16], ["ecb_enc", 32]]})],
           choices=["thread running next and the point of its run at which it is pre-empted (as K1p)",
                    "operation and key size per thread (parts)"],
           stubs=["sys.settrace in the scheduled threads (switching points only)",
                  "module-level locks of _pypdf_aes_fallback (none today) -> scheduler-aware locks"],
           assumptions=["inputs are the FIPS-197 appendix C vectors (one block per operation); the schedule, not the "
                        "data, is the quantified dimension"],
           outside=["more pre-emptions than the bound", "multi-block messages", "pypdf's own code around the provider"],
           timeout={"quick": 150, "thorough": 1000}),
    Kernel("K2m", "lru_cache'd router / content-type lookups answer as the undecorated function after any lookup "
                  "history; _get_type_registry idempotent and == the result dataclasses",
           k2m_lookups, targets=_t_k2m, parts=_k2m_parts, strength="structure", core=False,
           perturb=[("expect_previous_answer", {"facet": "archive._is_supported_file_cached", "H": 2}),
                    ("registry_expect_extra", {"facet": "registry", "H": 0})],
           choices=["history of <=2 (3) names and the queried name from a 12-name vocabulary",
                    "registry state before the call"],
           outside=["purity of the undecorated router functions (C07)", "the process-wide mimetypes database"]),
    Kernel("K3", "sequences of <=3 real extractions incl. failing documents, faults injected inside the patched "
                 "char-map builder, abandoned 7z generators, meta-less ODF packages with and without a path: each "
                 "result (to_json + file metadata) == baseline from a process that extracted nothing else; results "
                 "returned earlier are unchanged at the end; pypdf char-map attributes, archive configuration, temp "
                 "root and fd count unchanged",
           k3_residue, targets=_t_k3, parts=_k3_parts, strength="structure",
           perturb=[("expect_first_entrys_result", {"first": "pdf"}), ("expect_crypto_untouched", {"first": "pdf_aes256r5"}),
                    ("expect_earlier_results_to_change", {"first": "odt_nometa_path"})],
           choices=["sequence length", "entry at each position (quick: singles and ordered pairs of 16 entries, triples of 10 core entries; thorough: triples of 26)"],
           stubs=["every sequence and every baseline runs in a forked child of the worker (the worker never extracts)",
                  "tempfile.tempdir -> private scratch root", "fault entries: _patch_font_digit_map / "
                  "SevenZipFile.extractall raise as stated by the entry name"],
           assumptions=["the one-way AES fallback patch of pypdf._crypt_providers/_encryption is by design: its "
                        "installation is recorded as an observation (notes), only its effect on results is judged"],
           outside=["concurrent extractions of mixed formats", "fd accounting under real threads"],
           timeout={"quick": 150, "thorough": 1100}),
    Kernel("K3d", "the same document extracted twice from the same process state gives the same result (every PDF "
                  "fixture, the generated documents, archives, EPUB, ODT)",
           k3d_same_document_twice, targets=_t_k3d, parts=_k3d_parts, strength="structure", core=False,
           perturb=[("expect_two_runs_to_differ", {"doc": "doc:pdf"})],
           choices=["document (one part each)"],
           outside=["formats other than PDF / archive / EPUB / ODT (their determinism is C03's and C05's subject)"]),
]

META = {
    "level_text": "The real _patched_build_char_map context manager is driven through every enter/exit schedule of "
                  "up to 3 (4) concurrent instances with failing bodies, on the installed pypdf and on both other "
                  "module layouts, and by 2 (3) real threads under a controlled scheduler through every schedule with "
                  "at most 2 (3) pre-emptions placed before any line / shared-state byte-code operation inside "
                  "__enter__ / __exit__; the font-feature memo is executed on symbolic glyph-id lists and the AES round-key "
                  "LRU on fully symbolic keys (the solver decides which requests coincide) and each answer is compared "
                  "with the unmemoised computation; all singles and ordered pairs of a 16-entry and all triples of a 10-entry (thorough: all "
                  "triples of a 26-entry) "
                  "vocabulary (faults, truncated and encrypted PDFs, abandoned 7z generators) are compared per "
                  "document with an isolated baseline and the patched pypdf attributes, the PDF extractor's module-level "
                  "bookkeeping, archive configuration, temp root and fd count are compared with a snapshot; every PDF "
                  "fixture is extracted twice from the same state.",
    "level_note": "K1 schedules at enter/exit granularity; K1p pre-empts inside __enter__/__exit__ with a bounded number of "
                  "pre-emptions (module-level locks replaced by scheduler-aware ones); unbounded pre-emption and "
                  "free-running real-thread runs are outside. The one-way AES fallback patch is recorded as an observation. "
                  "Trusted: the insertion-ordered table model of OrderedDict (cross-checked by concrete re-execution).",
    "technique": "bounded-exhaustive schedule exploration of the real context manager (enter/exit events; "
                 "pre-emption-bounded controlled scheduling of real threads at line / byte-code granularity); symbolic execution of the memo "
                 "functions on z3 Int / bit-vector proxies with per-path equivalence queries against the unmemoised "
                 "computation; bounded-exhaustive extraction histories against isolated baselines and a state snapshot",
}
