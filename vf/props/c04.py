"""C04 - every result honours the common interface, for any input.

K1  accessor totality / typing on arbitrary state of every Unit/Image/Table class
K2  file metadata from the path argument (pathlib's own source lifted to symbolic strings)
K3  well-formed Unicode at the places that manufacture characters from numbers (RTF)
K4  textual document properties reported unchanged (ODF, DOCX, PPTX, XLSX, EPUB, HTML, RTF)

Regular expressions of the repository are executed on symbolic strings by SymRegex below: the
pattern text is taken from the repository's own compiled pattern object at run time, parsed by the
stdlib's parser (re._parser) and interpreted with Python's backtracking order; every character
test is a solver-decided fork.  `regex_selftest()` compares it with `re` on a lattice.
"""
import dataclasses
import inspect
import io
import re
import types
import typing

import z3

from vf.core import Kernel
from vf import symrun as S


# =======================================================================================
# regular expressions on bounded symbolic strings
# =======================================================================================

class _SymMatch:
    def __init__(self, s, start, end, groups):
        self._s, self._start, self._end, self._g = s, start, end, groups

    def group(self, i=0):
        if i == 0:
            return self._s[self._start:self._end]
        sp = self._g.get(i)
        return None if sp is None else self._s[sp[0]:sp[1]]

    def groups(self, default=None):
        n = max(self._g.get("n", 0), 0)
        return tuple(self.group(i) if self._g.get(i) is not None else default for i in range(1, n + 1))

    def start(self, i=0):
        return self._start if i == 0 else (self._g[i][0] if self._g.get(i) else -1)

    def end(self, i=0):
        return self._end if i == 0 else (self._g[i][1] if self._g.get(i) else -1)

    def span(self, i=0):
        return self.start(i), self.end(i)


def _truth(c):
    """python bool of a python bool / SymBool / z3 Bool (fork decided by the solver)"""
    if isinstance(c, bool):
        return c
    if isinstance(c, S.SymBool):
        return bool(c)
    return S.cur().decide(c)


def _zt(code):
    return code.z if isinstance(code, S.SymInt) else z3.IntVal(code)


_SPACE = [(9, 13), (28, 32), (0x85, 0x85), (0xA0, 0xA0)]
_DIGIT = [(48, 57)]
_WORD = [(48, 57), (65, 90), (95, 95), (97, 122)]


class SymRegex:
    """re.Pattern stand-in for CharStr / str subjects (match, search, finditer, sub, pattern,
    flags).  Supports literals, classes, categories \\d \\s \\w (ASCII view of the subject), '.',
    groups, alternation, greedy/lazy repeats, ^ $ \\b, look-ahead; IGNORECASE on ASCII letters."""

    def __init__(self, pattern, flags=0):
        if isinstance(pattern, re.Pattern):
            flags = pattern.flags
            pattern = pattern.pattern
        elif isinstance(pattern, S.CharStr):
            pattern = pattern.concrete()
        import re._parser as P
        import re._constants as C
        self.pattern = pattern
        self._C = C
        tree = P.parse(pattern, flags)
        self.flags = tree.state.flags
        self.groups = tree.state.groups - 1
        self._items = list(tree)
        self._ic = bool(self.flags & re.IGNORECASE)
        self._dotall = bool(self.flags & re.DOTALL)
        self._multiline = bool(self.flags & re.MULTILINE)

    # ---- character tests -----------------------------------------------------------------
    def _in_ranges(self, code, ranges):
        if isinstance(code, int):
            return any(lo <= code <= hi for lo, hi in ranges)
        t = _zt(code)
        return z3.Or(*[(t == lo) if lo == hi else z3.And(t >= lo, t <= hi) for lo, hi in ranges])

    def _lit(self, code, c):
        cands = {c}
        if self._ic and chr(c).isascii() and chr(c).isalpha():
            cands.add(ord(chr(c).swapcase()))
        if isinstance(code, int):
            return code in cands
        t = _zt(code)
        cs = sorted(cands)
        return z3.Or(*[t == x for x in cs]) if len(cs) > 1 else (t == cs[0])

    @staticmethod
    def _not(c):
        return (not c) if isinstance(c, bool) else z3.Not(c)

    @staticmethod
    def _or(parts):
        if any(p is True for p in parts):
            return True
        zs = [p for p in parts if p is not False]
        if not zs:
            return False
        return z3.Or(*zs) if len(zs) > 1 else zs[0]

    def _category(self, code, cat):
        C = self._C
        table = {C.CATEGORY_DIGIT: (_DIGIT, False), C.CATEGORY_NOT_DIGIT: (_DIGIT, True),
                 C.CATEGORY_SPACE: (_SPACE, False), C.CATEGORY_NOT_SPACE: (_SPACE, True),
                 C.CATEGORY_WORD: (_WORD, False), C.CATEGORY_NOT_WORD: (_WORD, True)}
        if cat not in table:
            raise S.Unsupported(f"regex category {cat}")
        rng, neg = table[cat]
        r = self._in_ranges(code, rng)
        return self._not(r) if neg else r

    def _class(self, code, av):
        C = self._C
        neg = False
        parts = []
        for op, a in av:
            if op is C.NEGATE:
                neg = True
            elif op is C.LITERAL:
                parts.append(self._lit(code, a))
            elif op is C.RANGE:
                lo, hi = a
                rr = [(lo, hi)]
                if self._ic:
                    for x, y, d in ((65, 90, 32), (97, 122, -32)):
                        l2, h2 = max(lo, x), min(hi, y)
                        if l2 <= h2:
                            rr.append((l2 + d, h2 + d))
                parts.append(self._in_ranges(code, rr))
            elif op is C.CATEGORY:
                parts.append(self._category(code, a))
            else:
                raise S.Unsupported(f"regex class item {op}")
        r = self._or(parts)
        return self._not(r) if neg else r

    def _ctest(self, code, op, av):
        """one character test; symbolic outcomes are decided once per path and remembered"""
        C = self._C
        if not isinstance(code, int):
            ctx = S.cur()
            cache = ctx.__dict__.setdefault("_rx_cache", {})
            key = (code.z.get_id(), op, av if op is not C.IN else id(av), self._ic, self._dotall)
            hit = cache.get(key)
            if hit is not None:
                return hit
        if op is C.LITERAL:
            ok = self._lit(code, av)
        elif op is C.NOT_LITERAL:
            ok = self._not(self._lit(code, av))
        elif op is C.ANY:
            ok = True if self._dotall else self._not(self._lit(code, 10))
        else:
            ok = self._class(code, av)
        ok = _truth(ok)
        if not isinstance(code, int):
            cache[key] = ok
        return ok

    def _is_word(self, s, i):
        if i < 0 or i >= len(s.c):
            return False
        return _truth(self._in_ranges(s.c[i], _WORD))

    # ---- backtracking matcher (continuation passing, Python's alternative order) -----------
    def _m(self, items, k, s, pos, groups, cont):
        C = self._C
        if k == len(items):
            return cont(pos, groups)
        op, av = items[k]
        n = len(s.c)
        nxt = lambda p, g: self._m(items, k + 1, s, p, g, cont)
        if op in (C.LITERAL, C.NOT_LITERAL, C.ANY, C.IN):
            if pos >= n:
                return None
            if not self._ctest(s.c[pos], op, av):
                return None
            return nxt(pos + 1, groups)
        if op is C.SUBPATTERN:
            gid, add_f, del_f, sub = av
            if add_f or del_f:
                raise S.Unsupported("regex scoped flags")
            start = pos

            def after(p, g):
                if gid is not None:
                    g = dict(g)
                    g[gid] = (start, p)
                return nxt(p, g)
            return self._m(list(sub), 0, s, pos, groups, after)
        if op is C.BRANCH:
            for alt in av[1]:
                r = self._m(list(alt), 0, s, pos, groups, nxt)
                if r is not None:
                    return r
            return None
        if op in (C.MAX_REPEAT, C.MIN_REPEAT):
            lo, hi, sub = av
            sub = list(sub)
            greedy = op is C.MAX_REPEAT

            def rep(count, p, g):
                def more():
                    if hi is not C.MAXREPEAT and count >= hi:
                        return None

                    def again(p2, g2):
                        if p2 == p and count >= lo:
                            return None          # zero-width iteration: stop repeating
                        return rep(count + 1, p2, g2)
                    return self._m(sub, 0, s, p, g, again)

                def stop():
                    return nxt(p, g) if count >= lo else None
                first, second = (more, stop) if greedy else (stop, more)
                r = first()
                return r if r is not None else second()
            return rep(0, pos, groups)
        if op is C.AT:
            if av in (C.AT_BEGINNING, C.AT_BEGINNING_STRING):
                ok = pos == 0 or (av is C.AT_BEGINNING and self._multiline and
                                  _truth(self._lit(s.c[pos - 1], 10)))
            elif av is C.AT_END_STRING:
                ok = pos == n
            elif av is C.AT_END:
                ok = pos == n or (pos == n - 1 and _truth(self._lit(s.c[pos], 10))) or \
                    (self._multiline and pos < n and _truth(self._lit(s.c[pos], 10)))
            elif av in (C.AT_BOUNDARY, C.AT_NON_BOUNDARY):
                b = self._is_word(s, pos - 1) != self._is_word(s, pos)
                ok = b if av is C.AT_BOUNDARY else not b
            else:
                raise S.Unsupported(f"regex anchor {av}")
            return nxt(pos, groups) if ok else None
        if op in (C.ASSERT, C.ASSERT_NOT):
            direction, sub = av
            if direction != 1:
                raise S.Unsupported("regex look-behind")
            r = self._m(list(sub), 0, s, pos, groups, lambda p, g: (p, g))
            if op is C.ASSERT:
                return nxt(pos, r[1]) if r is not None else None
            return nxt(pos, groups) if r is None else None
        raise S.Unsupported(f"regex construct {op}")

    # ---- public API -----------------------------------------------------------------------
    @staticmethod
    def _subject(s):
        return S.CharStr(s) if isinstance(s, str) else s

    def _match_at(self, s, pos, must_advance=False, full=False):
        def fin(p, g):
            if must_advance and p == pos:
                return None
            if full and p != len(s.c):
                return None
            return (p, g)
        r = self._m(self._items, 0, s, pos, {"n": self.groups}, fin)
        if r is None:
            return None
        return _SymMatch(s, pos, r[0], r[1])

    def match(self, s, pos=0):
        return self._match_at(self._subject(s), pos)

    def fullmatch(self, s, pos=0):
        return self._match_at(self._subject(s), pos, full=True)

    def _search(self, s, pos, must_advance=False):
        for i in range(pos, len(s.c) + 1):
            m = self._match_at(s, i, must_advance and i == pos)
            if m is not None:
                return m
        return None

    def search(self, s, pos=0):
        return self._search(self._subject(s), pos)

    def finditer(self, s, pos=0):
        s = self._subject(s)
        must = False
        while pos <= len(s.c):
            m = self._search(s, pos, must)
            if m is None:
                return
            yield m
            pos = m.end()
            must = m.end() == m.start()

    def findall(self, s):
        out = []
        for m in self.finditer(s):
            if self.groups == 0:
                out.append(m.group(0))
            elif self.groups == 1:
                out.append(m.group(1) if m.group(1) is not None else S.CharStr(""))
            else:
                out.append(m.groups(S.CharStr("")))
        return out

    def sub(self, repl, s, count=0):
        s = self._subject(s)
        if isinstance(repl, str):
            if "\\" in repl:
                raise S.Unsupported("regex sub template with escapes")
            repl = S.CharStr(repl)
        out, last = [], 0
        for m in self.finditer(s):
            out.extend(s.c[last:m.start()])
            r = repl(m) if callable(repl) else repl
            out.extend(S.CharStr._codes(r))
            last = m.end()
        out.extend(s.c[last:])
        return S.CharStr(out)

    def split(self, s):
        s = self._subject(s)
        out, last = [], 0
        for m in self.finditer(s):
            out.append(S.CharStr(s.c[last:m.start()]))
            for i in range(1, self.groups + 1):
                out.append(m.group(i))
            last = m.end()
        out.append(S.CharStr(s.c[last:]))
        return out


class SymReModule:
    """the name ``re`` as seen from lifted repository code"""
    IGNORECASE, I, DOTALL, S, MULTILINE, M = re.IGNORECASE, re.I, re.DOTALL, re.S, re.MULTILINE, re.M
    Pattern = re.Pattern
    error = re.error
    _cache = {}

    @classmethod
    def compile(cls, pattern, flags=0):
        if isinstance(pattern, S.CharStr):
            pattern = pattern.concrete()
        key = (pattern, int(flags))
        if key not in cls._cache:
            cls._cache[key] = SymRegex(pattern, int(flags))
        return cls._cache[key]

    @classmethod
    def search(cls, pattern, s, flags=0):
        return cls.compile(pattern, flags).search(s)

    @classmethod
    def match(cls, pattern, s, flags=0):
        return cls.compile(pattern, flags).match(s)

    @classmethod
    def sub(cls, pattern, repl, s, count=0, flags=0):
        return cls.compile(pattern, flags).sub(repl, s)

    @classmethod
    def finditer(cls, pattern, s, flags=0):
        return cls.compile(pattern, flags).finditer(s)

    @staticmethod
    def escape(x):
        return re.escape(x.concrete() if isinstance(x, S.CharStr) else x)


def regex_selftest(patterns, subjects):
    """translator validation: SymRegex == re on concrete subjects (search spans + groups, sub)"""
    n = 0
    for pat in patterns:
        real = pat if isinstance(pat, re.Pattern) else re.compile(pat)
        sym = SymRegex(real)
        for sub in subjects:
            a = [(m.span(), m.groups()) for m in real.finditer(sub)]
            b = [(m.span(), tuple(None if g is None else str(g) for g in m.groups()))
                 for m in sym.finditer(sub)]
            if a != b:
                raise AssertionError(f"SymRegex differs from re: {real.pattern!r} on {sub!r}: {a} vs {b}")
            ra, rb = real.sub("<>", sub), str(sym.sub("<>", sub))
            if ra != rb:
                raise AssertionError(f"SymRegex.sub differs from re: {real.pattern!r} on {sub!r}: {ra!r} vs {rb!r}")
            n += 1
    return n


def _regex_runtime_selftest(patterns):
    """run once per process for the patterns a kernel hands to SymRegex"""
    import itertools
    subjects = {"", "{\\rtf1{\\info{\\title  A b}{\\author x}}\\pard}", "{\\info {\\title a}{\\*\\category c}} {\\x",
                "\\emdash \\emdash\\x \\bullet}", "\\'e9\\'G1\\'0a", "\\u-123?\\u55357\\u9", "\n\n\n\n a \t\t b",
                "text/html; CHARSET=x", "charset=utf-8; x"}
    for n in range(1, 4):
        for t in itertools.product("\\u-1?'a{ }\n", repeat=n):
            subjects.add("".join(t))
    return regex_selftest(patterns, sorted(subjects))


# =======================================================================================
# shared helpers
# =======================================================================================

def _known(ctx, fid):
    return fid in ctx.params.get("known_active", [])


def _codes(x):
    """list of character codes (python ints / SymInt) of a str or CharStr"""
    if isinstance(x, S.CharStr):
        return list(x.c)
    return [ord(ch) for ch in x]


def _is_text(x):
    """str, or the engine's stand-in for str"""
    return isinstance(x, (str, S.CharStr))


def _alphabet(ctx, t, singles="", ranges=()):
    """restrict every character of a fresh string to an alphabet"""
    if ctx.concrete:
        ctx.assume(all(ch in singles or any(lo <= ord(ch) <= hi for lo, hi in ranges) for ch in t))
        return t
    if t.c:
        ctx.assume(z3.And(*[z3.Or(*([ch.z == ord(a) for a in singles] +
                                    [z3.And(ch.z >= lo, ch.z <= hi) for lo, hi in ranges])) for ch in t.c]))
    return t


def _seq_eq(a, b):
    """equality of two character sequences -> python bool or z3 Bool"""
    ca, cb = _codes(a), _codes(b)
    if len(ca) != len(cb):
        return False
    parts = []
    for x, y in zip(ca, cb):
        if isinstance(x, int) and isinstance(y, int):
            if x != y:
                return False
            continue
        parts.append(_zt(x) == _zt(y))
    if not parts:
        return True
    return z3.And(*parts) if len(parts) > 1 else parts[0]


def _show(x):
    if isinstance(x, S.CharStr):
        c = x.concrete()
        return c if c is not None else "<symbolic len=%d>" % len(x.c)
    return x


# ---------------------------------------------------------------------------------------
# K2e  every registered extractor hands the path argument to the metadata of every result
# ---------------------------------------------------------------------------------------

_FIXTURE = {
    "read_docx": "modern_ms/headings.docx", "read_pptx": "modern_ms/pptx_table.pptx", "read_xlsx": "modern_ms/mwe.xlsx",
    "read_doc": "legacy_ms/headings.doc", "read_ppt": "legacy_ms/slide_with_notes.ppt", "read_xls": "legacy_ms/mwe.xls",
    "read_rtf": "legacy_ms/2025.144.un.rtf", "read_odt": "open_office/headings.odt",
    "read_odp": "open_office/slide_with_notes.odp", "read_ods": "open_office/sample_spreadsheet.ods",
    "read_odg": "open_office/drawing.odg", "read_odf": "open_office/formular.odf", "read_pdf": "pdf/sample.pdf",
    "read_html": "html/sample.html", "read_mhtml": "html/sample.mhtml", "read_epub": "epub/sample.epub",
    "read_plain_text": "plain_text/plain.txt", "read_eml_format_mail": "mails/msg_with_attachment.eml",
    "read_mbox_format_mail": "mails/basic_email.mbox", "read_msg_format_mail": "mails/msg_with_attachment.msg",
    "read_archive": "archives/test_archive.zip",
}
_PATH_FORMS = [None, "c04-no-such-dir/sub/name.x.ext", "/c04-no-such-root/dir/name.ext",
               "c04-outer.zip!/inner/n.ext", "c04-no-such-dir/\u00fcn\u00ef c\u00f6d\u00e9.ext", "c04-no-such-file",
               "c04-no-such-dir.d/.hidden", "./c04-no-such-dir//x.tar.gz"]


def _all_extractors():
    import importlib
    from sharepoint2text.parsing import router
    out = {}
    for ft, (modname, fn) in router._EXTRACTOR_REGISTRY.items():
        out.setdefault(fn, getattr(importlib.import_module(modname), fn))
    return out


def k2_extractors(ctx):
    import os
    import logging
    logging.getLogger("pypdf").setLevel(logging.ERROR)
    name = ctx.params["extractor"]
    fn = _all_extractors()[name]
    path = _PATH_FORMS[ctx.choice("path_form", len(_PATH_FORMS))]
    with open(os.path.join(S.REPO, "sharepoint2text/tests/resources", _FIXTURE[name]), "rb") as f:
        data = f.read()
    try:
        results = list(fn(io.BytesIO(data), path))
    except Exception as e:
        ctx.fail("extractor-raised-on-fixture", extractor=name, exc=type(e).__name__, msg=str(e)[:80])
        return
    ctx.require(len(results) > 0, "fixture-gave-no-result", extractor=name)
    cwd = os.getcwd()
    for k, r in enumerate(results):
        try:
            md = r.get_metadata()
        except Exception as e:
            ctx.fail("get_metadata-raised", extractor=name, exc=type(e).__name__)
            return
        got = (md.filename, md.file_extension, md.file_path, md.folder_path)
        if name == "read_archive":
            # members are named <archive path>!/<member>
            if path is None:
                ctx.require(all(v is None or not v.startswith(cwd) for v in got),
                            "member-metadata-derived-from-working-directory", extractor=name, result=k, got=repr(got))
            else:
                norm = _ref_join(*_ref_components(path))
                ctx.require(md.file_path is not None and md.file_path.startswith(norm + "!/") and
                            md.folder_path.startswith(norm + "!") and md.file_path.endswith("/" + md.filename),
                            "member-path-not-derived-from-archive-path", extractor=name, got=repr(got))
            continue
        if path is None:
            want_none = got if ctx.perturb != "filename_expected_without_path" else ("x",)
            ctx.require(all(v is None for v in want_none), "path-fields-not-none-without-path",
                        extractor=name, result=k, got=repr(got))
            continue
        lead, comps = _ref_components(path)
        ctx.require(md.filename == comps[-1], "filename-is-not-the-final-component", extractor=name, got=repr(got))
        ctx.require(md.file_extension in _ref_extension_candidates(comps[-1]),
                    "extension-differs-from-file-name-suffix", extractor=name, got=repr(got))
        parent = _ref_join(lead, comps[:-1])
        if os.path.exists(parent or "."):
            want = [_ref_resolve(lead, comps[:-1], cwd)]
        else:
            want = [parent] if parent else [".", ""]
        ctx.require(md.folder_path in want, "folder-differs-from-path-without-final-component",
                    extractor=name, got=repr(got), want=want)


def _k2e_parts(tier):
    return [{"extractor": n} for n in sorted(_all_extractors())]


# =======================================================================================
# K3  well-formed Unicode at the decoders that manufacture characters from numbers
# =======================================================================================

F_RTF_SURR = "C04-rtf-unicode-escape-yields-surrogates"
_SURR_LO, _SURR_HI = 0xD800, 0xDFFF


def _rtf():
    from sharepoint2text.parsing.extractors.ms_legacy import rtf_extractor as m
    return m


class _ChrModel:
    """builtin chr on symbolic ints: ValueError outside range(0x110000) like the builtin; when the
    known finding is active, code points in the surrogate block coming out of chr() are excluded
    (the solver has to find ill-formed output from somewhere else)"""

    def __init__(self, ctx, exclude_surrogates):
        self.ctx, self.excl = ctx, exclude_surrogates
        self.calls = 0

    def __call__(self, x):
        self.calls += 1
        if isinstance(x, S.SymInt):
            if not self.ctx.decide(z3.And(x.z >= 0, x.z < 0x110000)):
                raise ValueError("chr() arg not in range(0x110000)")
            if self.excl:
                self.ctx.assume(z3.Not(z3.And(x.z >= _SURR_LO, x.z <= _SURR_HI)))
            return S.CharStr([x])
        return S.CharStr([ord(chr(x))])


_RTF_LIFTED = ("_strip_rtf_full_with_pages", "_remove_ignorable_groups", "_is_skip_destination",
               "_strip_rtf_simple", "_extract_metadata", "_decode_hex_escape", "_detect_code_page")


def _rtf_lifted_names(m):
    return [n for n in _RTF_LIFTED if hasattr(m._RtfParser, n)]


def _rtf_regex_globals(m):
    """names of the module's compiled patterns that the lifted methods refer to (from their own code
    objects, so a pattern added to / removed from the module is followed without editing this file)"""
    names = set()

    def walk(code):
        names.update(code.co_names)
        for c in code.co_consts:
            if isinstance(c, types.CodeType):
                walk(c)
    for name in _rtf_lifted_names(m):
        walk(getattr(m._RtfParser, name).__code__)
    return sorted(n for n in names if isinstance(getattr(m, n, None), re.Pattern))


def _utf16_round_trip_model(text):
    """``text.encode("utf-16", "surrogatepass").decode("utf-16", "replace")`` of the STANDARD LIBRARY codec on
    symbolic strings: a high surrogate directly followed by a low one is the code point they encode,
    every other code in D800..DFFF becomes U+FFFD; each test on a symbolic code is a solver fork.
    Compared with the codec itself on a lattice of concrete strings (_utf16_model_selftest) - never
    with the function under test."""
    cs = _codes(text)

    def between(c, lo, hi):
        if isinstance(c, int):
            return lo <= c <= hi
        return _truth(z3.And(c.z >= lo, c.z <= hi))
    out, i = [], 0
    while i < len(cs):
        c = cs[i]
        if between(c, 0xD800, 0xDBFF):
            if i + 1 < len(cs) and between(cs[i + 1], 0xDC00, 0xDFFF):
                out.append(0x10000 + (c - 0xD800) * 1024 + (cs[i + 1] - 0xDC00))
                i += 2
                continue
            out.append(0xFFFD)
        elif between(c, 0xDC00, 0xDFFF):
            out.append(0xFFFD)
        else:
            out.append(c)
        i += 1
    return S.CharStr(out)


_SURR_LATTICE = ["a", "\ud800", "\udbff", "\udc00", "\udfff", "\ufeff", "\ufffe", "\U0001f600", "\ud83d", "\ude00"]


def _surr_lattice(top=4):
    import itertools
    for k in range(0, top + 1):
        for t in itertools.product(_SURR_LATTICE, repeat=k):
            yield "".join(t)


def _utf16_model_selftest():
    """the codec model against python's own codec (independent of the repository)"""
    n = 0
    for sub in _surr_lattice():
        a = sub.encode("utf-16", "surrogatepass").decode("utf-16", "replace")
        b = "".join(chr(c) for c in _utf16_round_trip_model(sub).c)
        if a != b:
            raise AssertionError(f"model of the utf-16 surrogatepass/replace round trip differs on {sub!r}: {a!r} vs {b!r}")
        n += 1
    return n


class _Utf16Units:
    """what ``<symbolic str>.encode("utf-16", "surrogatepass")`` returns in lifted code: only
    ``.decode("utf-16", "replace")`` is modelled (the round trip as a whole)"""

    def __init__(self, text):
        self.text = text

    def decode(self, encoding="utf-8", errors="strict"):
        encoding, errors = _plain(encoding), _plain(errors)
        if encoding.lower().replace("_", "-") != "utf-16" or errors != "replace":
            raise S.Unsupported(f"decode({encoding!r}, {errors!r}) of modelled UTF-16 code units")
        return _utf16_round_trip_model(self.text)


class _RtfText(S.CharStr):
    """the argument handed to the lifted _combine_surrogates: a CharStr whose encode() accepts the codec
    names of lifted code (string literals arrive as CharStr constants); concrete text goes through the
    real codec, symbolic text through the round-trip model"""
    __slots__ = ()

    def encode(self, encoding="utf-8", errors="strict"):
        encoding, errors = _plain(encoding), _plain(errors)
        s_ = self.concrete()
        if s_ is not None:
            return _PlainBytes(s_.encode(encoding, errors))
        if encoding.lower().replace("_", "-") == "utf-16" and errors == "surrogatepass":
            return _Utf16Units(self)
        raise S.Unsupported(f"encode({encoding!r}, {errors!r}) of a string with symbolic characters")


def _combine_lifted_call(lifted):
    """_combine_surrogates as the lifted strippers see it: the module's own source on symbolic strings"""
    def call(text):
        out = lifted(_RtfText(_codes(text)))
        return out if isinstance(out, S.CharStr) else S.CharStr(out)
    return call


def _combine_lift_selftest(real, call):
    """translator validation: the lifted function on concrete strings returns what the real one returns
    (whatever the function currently does - this compares two executions of the same source)"""
    n = 0
    for sub in _surr_lattice(3):
        a, b = real(sub), call(S.CharStr(sub)).concrete()
        if a != b:
            raise AssertionError(f"lifted _combine_surrogates differs on {sub!r}: {a!r} vs {b!r}")
        n += 1
    return n


class _Late:
    """callable global of a lifted namespace whose target is set per explored path"""

    def __init__(self):
        self.target = None

    def __call__(self, *a, **k):
        return self.target(*a, **k)


class _CodePageByte:
    """``bytes([value])`` as seen from the lifted _decode_hex_escape when the byte is symbolic: its
    decode(codec) is the codec's own single-byte table, read off the real codec at run time
    (bytes([b]).decode(codec) for b in 0..255), as an if-chain on the symbolic value; a byte the codec
    does not decode on its own raises UnicodeDecodeError like the real call (one solver fork)"""
    _tables = {}

    def __init__(self, value):
        self.value = value

    @classmethod
    def table(cls, codec):
        if codec not in cls._tables:
            tab = []
            for b in range(256):
                try:
                    ch = bytes([b]).decode(codec)
                except UnicodeDecodeError:
                    tab.append(None)
                    continue
                if len(ch) != 1:
                    raise S.Unsupported(f"codec {codec}: byte {b:#x} decodes to {len(ch)} characters")
                tab.append(ord(ch))
            cls._tables[codec] = tab
        return cls._tables[codec]

    def decode(self, codec="utf-8", errors="strict"):
        codec, errors = _plain(codec), _plain(errors)
        if errors != "strict":
            raise S.Unsupported("bytes.decode of a symbolic byte with an error handler")
        tab = self.table(codec)
        v = self.value.z
        undefined = [b for b, cp in enumerate(tab) if cp is None]
        if undefined and S.cur().decide(z3.Or(*[v == b for b in undefined])):
            raise UnicodeDecodeError(str(codec), b"\x00", 0, 1, "symbolic byte outside the code page")
        return S.CharStr([S.SymInt(self.chain(tab, v))])

    @staticmethod
    def chain(tab, v):
        """the code point of byte v (a z3 Int term) per the table, for the bytes the codec defines"""
        term = v
        for b, cp in enumerate(tab):
            if cp is not None and cp != b:
                term = z3.If(v == b, z3.IntVal(cp), term)
        return term


def _plain(x):
    return x.concrete() if isinstance(x, S.CharStr) else x


class _PlainBytes(bytes):
    """concrete bytes made by lifted code: codec names that were string literals there arrive as
    symbolic-string constants"""

    def decode(self, encoding="utf-8", errors="strict"):
        return S.CharStr(bytes.decode(self, _plain(encoding), _plain(errors)))


def _rtf_bytes(x=b"", *a):
    """the name ``bytes`` in the lifted RTF methods: bytes([symbolic int]) -> _CodePageByte, with the
    builtin's range check; everything else is the builtin"""
    if isinstance(x, list) and len(x) == 1 and isinstance(x[0], S.SymInt) and not a:
        v = S._const_or_self(x[0])
        if isinstance(v, int):
            return _PlainBytes([v])
        if not S.cur().decide(z3.And(v.z >= 0, v.z < 256)):
            raise ValueError("bytes must be in range(0, 256)")
        return _CodePageByte(v)
    return _PlainBytes(bytes(x, *[_plain(y) for y in a]))


def _code_page_selftest(m, lifted, codecs_):
    """translator validation, all 256 bytes of each codec: (a) the if-chain of _CodePageByte, evaluated
    by z3 on a pinned byte, is what the codec itself decodes the byte to; (b) the lifted
    _decode_hex_escape on concrete digits returns what the real method returns"""
    n = 0
    v = z3.Int("b")
    for codec in codecs_:
        real = m._RtfParser(b"")
        real._codec = codec
        tab = _CodePageByte.table(codec)
        chain = _CodePageByte.chain(tab, v)
        for b in range(256):
            try:
                own = ord(bytes([b]).decode(codec))
            except UnicodeDecodeError:
                own = None
            got = z3.simplify(z3.substitute(chain, (v, z3.IntVal(b)))).as_long()
            if own != tab[b] or (own is not None and got != own):
                raise AssertionError(f"code page model differs for {codec} byte {b:#x}: {own} vs {tab[b]} / {got}")
            p = object.__new__(m._RtfParser)
            p._codec = codec
            want, have = real._decode_hex_escape("%02x" % b), str(lifted(p, S.CharStr("%02X" % b)))
            if want != have:
                raise AssertionError(f"lifted _decode_hex_escape differs for {codec} byte {b:#x}: {want!r} vs {have!r}")
            n += 1
    return n


_RTF_LIFT = {}


def _rtf_lift_once(m):
    import codecs as _codecs
    from vf import lift
    L = {"chr": _Late()}
    regex_globals = _rtf_regex_globals(m)
    codecs_ns = types.SimpleNamespace(
        lookup=lambda name: _codecs.lookup(name.concrete() if isinstance(name, S.CharStr) else name))
    ns = dict(int=S.IntShadow, chr=L["chr"], re=SymReModule, len=len, bytes=_rtf_bytes, codecs=codecs_ns)
    for g in regex_globals:
        ns[g] = SymRegex(getattr(m, g))
    if hasattr(m, "_combine_surrogates"):
        # the repair step is the module's own source too (lifted); only the standard library's UTF-16
        # codec underneath it is modelled, and that model is validated against the codec - so a change
        # of _combine_surrogates is followed and judged by the oracle, not by a self-test
        _utf16_model_selftest()
        L["combine_lifted"] = _combine_lifted_call(lift.lift(m._combine_surrogates))
        _combine_lift_selftest(m._combine_surrogates, L["combine_lifted"])
        L["combine"] = _Late()
        ns["_combine_surrogates"] = L["combine"]
    for name in _rtf_lifted_names(m):
        L[name] = lift.lift(getattr(m._RtfParser, name), **ns)
    p0 = m._RtfParser(b"")
    L["codec"] = getattr(p0, "_codec", None)
    L["special"] = [(SymRegex(rx), S.CharStr(ch)) for rx, ch in p0._special_char_patterns]
    value = r"((?:\\.|[^}\\])*)"
    _regex_runtime_selftest([getattr(m, g) for g in regex_globals] +
                            [rx for rx, _ in p0._special_char_patterns[:8]] +
                            [re.compile(r"\{\\title\s+" + value + r"\}", re.I | re.S),
                             re.compile(r"\{\\[*]?\\?category\s+" + value + r"\}", re.I | re.S)])
    if "_decode_hex_escape" in L:
        L["chr"].target = chr
        _code_page_selftest(m, L["_decode_hex_escape"], (L["codec"] or "cp1252", "cp1250", "cp1251", "cp932", "latin-1"))
    _RTF_LIFT.update(L)


def _rtf_lifted_parser(ctx, chr_model):
    """an _RtfParser whose text-stripping methods, information-group reader, \\'hh decoder and code page
    detection are the module's own source lifted to symbolic strings; regex objects -> SymRegex over
    the same pattern text (lifted once per process)"""
    m = _rtf()
    if not _RTF_LIFT:
        try:
            _rtf_lift_once(m)
        except AssertionError as e:          # a failed translator validation is a harness fault
            raise S.Unsupported("self-test failed: " + str(e))
    L = _RTF_LIFT
    L["chr"].target = chr_model
    if L.get("combine"):
        # twin: without the repair step the query must find the surrogate again
        L["combine"].target = (lambda t: t) if ctx.perturb == "without_combine_surrogates" else L["combine_lifted"]
        ctx.shadows_used.add("str.encode('utf-16','surrogatepass').decode('utf-16','replace') inside the lifted "
                             "_combine_surrogates -> code-walking model of the codec round trip (validated against the codec)")
    ctx.shadows_used.add("rtf_extractor.bytes -> bytes([symbolic byte]).decode(codec) as the codec's own 256-entry "
                         "table (read off the codec at run time)")
    p = object.__new__(m._RtfParser)
    p.data = b""
    p.pages = []
    p.metadata = m.RtfMetadata()
    p._codec = L["codec"]                      # what __init__ sets; _detect_code_page may replace it

    def bind(name):
        fn = L[name]
        return lambda *a, **k: fn(p, *a, **k)
    for name in _rtf_lifted_names(m):
        setattr(p, name, bind(name))
    p._special_char_patterns = L["special"]
    ctx.hash_universe = set(m._RtfParser.SPECIAL_CHARS)
    return p


_K3_SINGLES = "\\-?' {}uaf\n"
_K3_RANGES = ((48, 57),)


def k3_unicode(ctx):
    """every character of the stripper's output (return value and pages) is outside the surrogate
    block, i.e. the text is encodable as UTF-8.  The input characters themselves are outside it (they
    come from a bytes.decode)."""
    m = _rtf()
    site = ctx.params["site"]
    n = ctx.params["len"]
    prefix = ctx.params.get("prefix", "")
    ctx.decision_memo = {}
    if ctx.params.get("alphabet") == "num":
        free = _alphabet(ctx, ctx.fresh_chars("t", n, 1, 126), "-", _K3_RANGES)
    else:
        free = _alphabet(ctx, ctx.fresh_chars("t", n, 1, 126), _K3_SINGLES, _K3_RANGES)
    text = prefix + free + ctx.params.get("suffix", "")
    if ctx.params.get("len2"):
        # a second escape right behind the first (UTF-16 pairs are written as two \\uN)
        text = text + "\\u" + _alphabet(ctx, ctx.fresh_chars("t2", ctx.params["len2"], 1, 126), "-", _K3_RANGES)
    if ctx.concrete:
        p = m._RtfParser(b"")
    else:
        p = _rtf_lifted_parser(ctx, _ChrModel(ctx, _known(ctx, F_RTF_SURR)))
    try:
        if site == "full":
            out = [p._strip_rtf_full_with_pages(text)] + list(p.pages)
        else:
            out = [p._strip_rtf_simple(text)]
    except ValueError as e:
        # int() of an absurdly long digit run etc.; parse() has a fallback - not this kernel's subject
        ctx.require(True, "stripper-raised-valueerror")
        return
    bad = []
    for piece in out:
        ctx.require(_is_text(piece), "stripper-output-not-text", got=type(piece).__name__)
        for c in _codes(piece):
            if isinstance(c, int):
                if _SURR_LO <= c <= _SURR_HI or ctx.perturb == "demand_ascii" and c > 127:
                    bad.append(True)
            else:
                hi = 127 if ctx.perturb == "demand_ascii" else None
                bad.append(z3.And(c.z >= _SURR_LO, c.z <= _SURR_HI) if hi is None else c.z > hi)
    info = {}
    if ctx.concrete and bad:
        # the same input through the public entry point
        doc = ("{\\rtf1\\ansi " + text + "}").encode("latin-1")
        try:
            res = list(m.read_rtf(io.BytesIO(doc), "x.rtf"))
            full = res[0].get_full_text()
            try:
                full.encode("utf-8")
                for u in res[0].iterate_units():
                    u.get_text().encode("utf-8")
                info["read_rtf"] = "encodes"
            except UnicodeEncodeError as e:
                info["read_rtf"] = "get_full_text()/unit text not encodable as UTF-8: " + str(e)[:80]
        except Exception as e:
            info["read_rtf"] = "raised " + type(e).__name__
        info["document"] = doc.decode("latin-1")
    if ctx.concrete:
        ctx.require(not bad, "surrogate-code-point-in-extracted-text", **info)
    else:
        ctx.require(z3.Not(z3.Or(*bad)) if bad else True, "surrogate-code-point-in-extracted-text")


def _k3_parts(tier):
    parts = []
    q = tier == "quick"
    for site in ("full", "simple"):
        # \\u + digits / minus chosen by the solver (+ the optional '?' and following text)
        for n in range(1, (6 if q else 8) + 1):
            for suffix in ("", "?x"):
                parts.append({"site": site, "len": n, "prefix": "\\u", "alphabet": "num", "suffix": suffix})
        # two escapes in a row: \\uN[?]\\uM
        for mid in ("", "?"):
            if site == "full" or not q:
                parts.append({"site": site, "len": 5, "prefix": "\\u", "alphabet": "num", "suffix": mid, "len2": 5})
            else:
                # one half chosen by the solver next to a fixed other half
                parts.append({"site": site, "len": 5, "prefix": "\\u55357" + mid + "\\u", "alphabet": "num", "suffix": ""})
                parts.append({"site": site, "len": 5, "prefix": "\\u", "alphabet": "num", "suffix": mid + "\\u56832"})
            if not q and site == "full":
                parts.append({"site": site, "len": 6, "prefix": "\\u", "alphabet": "num", "suffix": mid, "len2": 6})
        # the escape in context: ordinary text in front of it (the repaired text does not start with the
        # escape's character) and behind it
        for suffix in ("", "?y"):
            parts.append({"site": site, "len": 5 if q else 6, "prefix": "x\\u", "alphabet": "num", "suffix": suffix})
        if site == "full":
            # the two halves of a pair on either side of a page break (each page is repaired on its own,
            # the whole text once more): one half fixed / both chosen by the solver
            if q:
                parts.append({"site": site, "len": 5, "prefix": "\\u55357\\page \\u", "alphabet": "num", "suffix": ""})
                parts.append({"site": site, "len": 5, "prefix": "\\u", "alphabet": "num", "suffix": "\\page \\u56832"})
            else:
                parts.append({"site": site, "len": 5, "prefix": "\\u", "alphabet": "num", "suffix": "\\page ", "len2": 5})
                parts.append({"site": site, "len": 5, "prefix": "y\\u", "alphabet": "num", "suffix": "\\page z", "len2": 5})
        # \\u / \\' / nothing + free characters of the RTF alphabet
        tops = {("full", True): (4, 4, 4), ("simple", True): (3, 3, 4),
                ("full", False): (5, 5, 5), ("simple", False): (4, 5, 5)}[(site, q)]
        for prefix, top in zip(("\\u", "\\'", ""), tops):
            for n in range(1, top + 1):
                parts.append({"site": site, "len": n, "prefix": prefix})
    return parts


# =======================================================================================
# K1  accessor totality and typing on arbitrary state
# =======================================================================================

F_ODF_SIZE = "C04-odf-image-size-overflow"

_UNIT_ACC = ("get_text", "get_images", "get_tables", "get_metadata", "to_json")
_IMAGE_ACC = ("get_bytes", "get_content_type", "get_caption", "get_description", "get_metadata")
_TABLE_ACC = ("get_table", "get_dim")
# fields that carry a 1-based unit / image / table number (extractor-side invariant: >= 1, or None
# where Optional); the invariant is assumed here and checked at the assignment sites by C03/C14
_NUMBER_FIELDS = {"unit_number", "page_number", "slide_number", "sheet_number", "sheet_index",
                  "chapter_number", "image_number", "image_index", "index", "unit_name", "unit_index",
                  "table_index"}
_STR_LENGTHS = {("RtfImage", "image_type"): (0, 3, 4, 7)}


def _dt():
    from sharepoint2text.parsing.extractors import data_types
    return data_types


def _k1_registry():
    """{name: (kind, cls)} for every dataclass of data_types implementing a unit / image / table
    interface (discovered, so a new class joins automatically)"""
    dt = _dt()
    out = {}
    for name, cls in sorted(vars(dt).items()):
        if not inspect.isclass(cls) or cls.__module__ != dt.__name__ or not dataclasses.is_dataclass(cls):
            continue
        if getattr(cls, "_is_protocol", False):
            continue
        for kind, acc in (("unit", _UNIT_ACC), ("image", _IMAGE_ACC), ("table", _TABLE_ACC)):
            if all(callable(getattr(cls, a, None)) for a in acc):
                out[name] = (kind, cls)
                break
    return out


def _reads(cls, method, _seen=None):
    """names of the instance attributes a method reads (transitively through self.m() calls); None
    when the method hands ``self`` to something else (then every field counts)"""
    import ast
    import textwrap
    _seen = _seen or set()
    if method in _seen:
        return set()
    _seen.add(method)
    fn = getattr(cls, method)
    fn = getattr(fn, "fget", fn)
    tree = ast.parse(textwrap.dedent(inspect.getsource(fn)))
    attrs, escapes = set(), False
    owned = set()
    for node in ast.walk(tree):
        if isinstance(node, ast.Attribute) and isinstance(node.value, ast.Name) and node.value.id == "self":
            attrs.add(node.attr)
            owned.add(id(node.value))
    for node in ast.walk(tree):
        if isinstance(node, ast.Name) and node.id == "self" and id(node) not in owned:
            escapes = True
    if escapes:
        return None
    out = set()
    for a in attrs:
        member = inspect.getattr_static(cls, a, None)
        if callable(member) or isinstance(member, property):
            sub = _reads(cls, a, _seen)
            if sub is None:
                return None
            out |= sub
        else:
            out.add(a)
    return out


def _unwrap_optional(tp):
    args = typing.get_args(tp)
    if (typing.get_origin(tp) is typing.Union or isinstance(tp, types.UnionType)) and type(None) in args:
        rest = [a for a in args if a is not type(None)]
        return (rest[0] if len(rest) == 1 else typing.Union[tuple(rest)]), True
    return tp, False


class _SymRow:
    """a table row whose length is a symbolic integer (len() is shadowed by symrun.sym_len)"""

    def __init__(self, n):
        self.n = n

    def sym_len(self):
        return self.n

    def __len__(self):
        raise S.Unsupported("builtin len() of a symbolic-length row")

    def __iter__(self):
        raise S.Unsupported("iteration over a symbolic-length row")


def _odf_length_lexemes():
    """lengths per the ODF/XSL-FO 'length' lexical form (digits, optional fraction, unit) with digit
    runs up to and beyond the range of binary64, plus strings that are no lengths"""
    out = [None, "", "abc", "-1cm", "1e5cm", "1,5cm", " 7 ", "٣cm"]
    for digits in (1, 2, 17, 308, 309, 310, 400):
        for unit in ("", "px", "in", "cm", "mm", "pt", "pc", "em", "IN"):
            out.append("9" * digits + unit)
    out += ["0.5in", " 10.25 cm ", "0cm", "1" + "0" * 309 + ".5mm"]
    # malformed numbers: several / leading / trailing / lone decimal points
    out += ["1.2.3cm", "1..2cm", ".5cm", "5.cm", ".cm", "..", "1.2.3", "1.5.px"]
    return out


class _Gen:
    def __init__(self, ctx, cls, symbolic):
        self.ctx, self.cls = ctx, cls
        self.symbolic = symbolic          # field names generated freely; None = all (bulk mode)
        self.bulk = symbolic is None
        self.hints = typing.get_type_hints(cls, vars(_dt()))
        self.slen = None
        self.none_all = None
        self.payload_len = None
        self.stream_pos0 = None
        self.rows = None
        self.size_focus = None

    def _str_len(self, name):
        opts = _STR_LENGTHS.get((self.cls.__name__, name))
        if opts:
            return opts[self.ctx.choice(f"{name}_len", len(opts))]
        if self.slen is None:
            self.slen = self.ctx.choice("str_len", self.ctx.params.get("max_str", 2) + 1)
        return self.slen

    def _text(self, name):
        n = self._str_len(name)
        return _alphabet(self.ctx, self.ctx.fresh_chars(name, n, 9, 126), "", ((9, 10), (32, 126)))

    def _none(self, name):
        if self.bulk:
            if self.none_all is None:
                self.none_all = self.ctx.flag("optionals_none")
            return self.none_all
        return self.ctx.flag(f"{name}_is_none")

    def value(self, name, tp, free):
        ctx = self.ctx
        tp, optional = _unwrap_optional(tp)
        origin = typing.get_origin(tp)
        if not free:
            return self.default(name, tp, optional)
        if optional and self._none(name):
            return None
        if (self.cls.__name__, name) in (("OpenDocumentImage", "width"), ("OpenDocumentImage", "height")):
            lex = _odf_length_lexemes()
            if self.size_focus is None:
                self.size_focus = ("width", "height")[0 if self.bulk else ctx.choice("size_focus", 2)]
            if self.bulk or name != self.size_focus:
                return "10cm"
            v = lex[ctx.choice(f"{name}_lexeme", len(lex))]
            if _known(ctx, F_ODF_SIZE) and v is not None and sum(ch.isdigit() for ch in v) > 300:
                ctx.assume(False)
            return v
        if tp is int:
            v = ctx.fresh_int(name, -2 ** 31, 2 ** 31)
            if name in _NUMBER_FIELDS:
                ctx.assume(v >= 1)
            return v
        if tp is bool:
            return ctx.flag(name)
        if tp is float:
            return 1.5
        if tp is str:
            return self._text(name)
        if tp is bytes:
            data = (b"", b"xy")[ctx.choice(f"{name}_payload", 2)]
            self.payload_len = len(data)
            return data
        if tp is io.BytesIO:
            data = (b"", b"xy")[ctx.choice(f"{name}_payload", 2)]
            st = io.BytesIO(data)
            pos = ctx.choice(f"{name}_position", len(data) + 2)      # incl. one past the end
            st.seek(pos)
            self.payload_len, self.stream_pos0 = len(data), pos
            return st
        if origin in (list, typing.List):
            return self.list_value(name, tp)
        if tp is typing.Any:
            return "v"
        raise S.Unsupported(f"K1 generator: field {self.cls.__name__}.{name}: {tp!r}")

    def list_value(self, name, tp):
        ctx = self.ctx
        (elem,) = typing.get_args(tp) or (typing.Any,)
        eo = typing.get_origin(elem)
        if eo in (list, typing.List):                       # a table: list of rows
            inner = (typing.get_args(elem) or (typing.Any,))[0]
            if typing.get_origin(inner) in (list, typing.List):      # list of tables (EpubChapter.tables)
                k = ctx.choice(f"{name}_n_tables", 2 if self.bulk else 3)
                return [self._rows(f"{name}{i}") for i in range(k)]
            return self._rows(name)
        if eo in (dict, typing.Dict):                       # XlsSheet rows keyed by header text
            keysets = ((), ("a",), ("a", "b"), ("b",))
            k = ctx.choice(f"{name}_n_rows", ctx.params.get("max_rows", 3) + 1)
            return [{h: "v" for h in keysets[ctx.choice(f"{name}_row{i}_keys", len(keysets))]} for i in range(k)]
        k = ctx.choice(f"{name}_n", 2 if self.bulk else 3)
        return [self.element(name, elem, i) for i in range(k)]

    def _rows(self, name):
        ctx = self.ctx
        k = ctx.choice(f"{name}_n_rows", (1 if self.bulk else ctx.params.get("max_rows", 3)) + 1)
        lens = [ctx.fresh_int(f"{name}_row{i}_len", 0, 2 ** 31) for i in range(k)]
        if ctx.concrete:
            ctx.assume(all(x <= 64 for x in lens))
            return [["c"] * x for x in lens]
        return [_SymRow(x) for x in lens]

    def element(self, name, elem, i):
        dt = _dt()
        if elem is str:
            return "s%d" % i
        if elem is int:
            return i
        if inspect.isclass(elem) and dataclasses.is_dataclass(elem) and not getattr(elem, "_is_protocol", False):
            if all(callable(getattr(elem, a, None)) for a in _TABLE_ACC):
                return _Gen(self.ctx, elem, None).build_default(data=self._rows(f"{name}{i}"))
            return _Gen(self.ctx, elem, set()).build_default()
        if elem is dt.ImageInterface:
            return dt.PdfImage(index=1)
        return "e%d" % i

    def default(self, name, tp, optional):
        f = {x.name: x for x in dataclasses.fields(self.cls)}[name]
        if f.default is not dataclasses.MISSING:
            return f.default
        if f.default_factory is not dataclasses.MISSING:
            return f.default_factory()
        if optional:
            return None
        return {int: 1, str: "", bytes: b"", bool: False, float: 0.0}.get(tp, None)

    def build(self):
        kw = {}
        for f in dataclasses.fields(self.cls):
            if not f.init:
                continue
            free = self.bulk or f.name in self.symbolic
            kw[f.name] = self.value(f.name, self.hints[f.name], free)
        # extractor-side invariant: the reported size is the payload's length
        if "size_bytes" in kw and self.payload_len is not None:
            kw["size_bytes"] = self.payload_len
        return self.cls(**kw)

    def build_default(self, **over):
        kw = {}
        for f in dataclasses.fields(self.cls):
            if f.init:
                tp, opt = _unwrap_optional(self.hints[f.name])
                kw[f.name] = self.default(f.name, tp, opt)
        kw.update(over)
        return self.cls(**kw)


def _zmax(terms):
    out = z3.IntVal(0)
    for t in terms:
        out = z3.If(t > out, t, out)
    return out


def _check_table(ctx, tb, where):
    """get_dim() == (number of rows, longest row, 0 when empty) of get_table()"""
    try:
        t = tb.get_table()
        d = tb.get_dim()
    except S.Unsupported:
        raise
    except Exception as e:
        ctx.fail("accessor-raised", where=where, exc=type(e).__name__, msg=str(e)[:80])
        return
    ctx.require(isinstance(t, list), "get_table-not-a-list", where=where, got=type(t).__name__)
    ctx.require(hasattr(d, "rows") and hasattr(d, "columns"), "get_dim-not-a-TableDim", where=where)
    rows_expected = len(t)
    if ctx.perturb == "columns_of_first_row":
        lens = [S.sym_len(r) for r in t[:1]]
    else:
        lens = [S.sym_len(r) for r in t]
    ctx.require(d.rows == rows_expected, "get_dim-rows-differ-from-get_table", where=where,
                rows=_show(d.rows), expected=rows_expected)
    if all(isinstance(x, int) for x in lens):
        ctx.require(d.columns == max(lens, default=0), "get_dim-columns-differ-from-get_table", where=where)
    else:
        exp = _zmax([_zt(x) for x in lens])
        got = d.columns
        ctx.require(_zt(got) == exp, "get_dim-columns-differ-from-get_table", where=where)


def _positive_number(ctx, v, label, where, optional):
    if v is None:
        ctx.require(optional, label, where=where, got=None)
        return
    if isinstance(v, S.SymInt):
        ctx.require(v.z >= 1, label, where=where)
        return
    ctx.require(isinstance(v, int) and not isinstance(v, bool) and v >= 1, label, where=where, got=repr(v)[:40])


def k1_accessors(ctx):
    dt = _dt()
    reg = _k1_registry()
    kind, cls = reg[ctx.params["cls"]]
    accs = {"unit": _UNIT_ACC, "image": _IMAGE_ACC, "table": _TABLE_ACC}[kind]
    acc = accs[ctx.choice("accessor", len(accs))]
    where = f"{cls.__name__}.{acc}"
    ctx.decision_memo = {}
    reads = _reads(cls, acc)
    field_names = {f.name for f in dataclasses.fields(cls)}
    g = _Gen(ctx, cls, None if reads is None else (reads & field_names))
    x = g.build()
    if cls.__name__ == "RtfImage":
        ctx.hash_universe = set(cls._CONTENT_TYPES)
    with ctx.shadow(dt, len=S.sym_len):
        try:
            r = getattr(x, acc)()
            r2 = None
            if acc == "get_bytes":
                first = r.read()
                at0 = r.seek(0) == 0 and r.tell() == 0
                first_pos = 0 if at0 else -1
                r.seek(0, 2)
                r2 = getattr(x, acc)()             # once more, after the caller has consumed the stream
        except S.Unsupported:
            raise
        except Exception as e:
            ctx.fail("accessor-raised", where=where, exc=type(e).__name__, msg=str(e)[:80])
            return
        if acc in ("get_text", "get_content_type", "get_caption", "get_description"):
            ctx.require(_is_text(r), "text-accessor-not-str", where=where, got=type(r).__name__)
            if ctx.perturb == "text_is_stripped":
                ctx.require(_seq_eq(r, r.strip()), "twin", where=where)
        elif acc in ("get_images", "get_tables"):
            ctx.require(isinstance(r, list), "accessor-not-a-list", where=where, got=type(r).__name__)
            for i, el in enumerate(r):
                if acc == "get_tables":
                    _check_table(ctx, el, f"{where}[{i}]")
                else:
                    ctx.require(all(callable(getattr(el, a, None)) for a in _IMAGE_ACC),
                                "image-without-interface", where=where)
        elif acc == "to_json":
            ctx.require(isinstance(r, dict), "to_json-not-a-dict", where=where)
        elif acc == "get_metadata" and kind == "unit":
            ctx.require(hasattr(r, "unit_number"), "unit-metadata-without-number", where=where)
            _positive_number(ctx, r.unit_number, "unit-number-not-positive", where, optional=False)
        elif acc == "get_metadata" and kind == "image":
            ctx.require(isinstance(r, dt.ImageMetadata), "image-metadata-wrong-type", where=where)
            _positive_number(ctx, r.image_number, "image-number-not-positive", where, optional=False)
            _positive_number(ctx, r.unit_number, "image-unit-number-not-positive", where, optional=True)
            ctx.require(_is_text(r.content_type), "image-metadata-content-type-not-str", where=where)
        elif acc == "get_bytes":
            size = getattr(x, "size_bytes", None)
            for k, (st, data) in enumerate(((r, first), (r2, None))):
                ctx.require(all(callable(getattr(st, a, None)) for a in ("read", "seek", "tell")),
                            "get_bytes-not-a-stream", where=where, call=k)
                if data is None:
                    pos = st.tell()
                    data = st.read()
                else:
                    pos = None
                ctx.require(isinstance(data, bytes), "get_bytes-not-binary", where=where, call=k)
                if pos is not None:
                    want = g.stream_pos0 if ctx.perturb == "stream_position_kept" and g.stream_pos0 else 0
                    ctx.require(pos == want, "get_bytes-not-positioned-at-0", where=where, call=k, pos=pos)
                if size is not None:
                    want = size + (1 if ctx.perturb == "size_plus_one" else 0)
                    ctx.require(len(data) == want, "get_bytes-length-differs-from-size_bytes",
                                where=where, call=k, size=_show(size), length=len(data))
            ctx.require(r2.getvalue() == first if hasattr(r2, "getvalue") else True,
                        "get_bytes-second-call-differs", where=where)
        elif acc in ("get_table", "get_dim"):
            _check_table(ctx, x, where)
    ctx.require(True, "accessor-returned")


def _k1_parts(tier):
    return [{"cls": n} for n in sorted(_k1_registry())]


def _k1_targets():
    out = []
    for name, (kind, cls) in sorted(_k1_registry().items()):
        for a in {"unit": _UNIT_ACC, "image": _IMAGE_ACC, "table": _TABLE_ACC}[kind]:
            out.append(getattr(cls, a))
    out.append(_dt()._odf_length_to_px)
    return out


# =======================================================================================
# K2  file metadata from the path argument
# =======================================================================================

_CWD = "/cwd"
_SYMPATH = {}


def _sym_str(x=""):
    """the name ``str`` as seen from lifted / shadowed code: proxies stay proxies"""
    if isinstance(x, S.CharStr):
        return x
    if hasattr(x, "__symstr__"):
        return x.__symstr__()
    return S.CharStr(str(x))


def _sympath_class():
    """pathlib.PurePosixPath on symbolic strings: the methods populate_from_path uses (parsing, name,
    suffix, parent, str) are pathlib's OWN source lifted by vf/lift.py (string literals -> symbolic
    string constants); the flavour module is vf/pathmodel.py (posixpath's own source, lifted).  Only
    the constructor and the two file-system queries are written here (the environment model)."""
    if "cls" in _SYMPATH:
        return _SYMPATH["cls"]
    import pathlib
    from vf import lift, pathmodel
    pp = pathmodel.PosixPath(cwd=_CWD)

    class Flavour:
        sep = S.CharStr("/")
        altsep = None

        @staticmethod
        def splitroot(p):
            return pp._splitroot(pp._in(p))

        @staticmethod
        def splitdrive(p):
            return pp.splitdrive(p)

        @staticmethod
        def join(a, *p):
            return pp.join(a, *p)

    class SymPath:
        _flavour = Flavour
        env = None                      # per-path environment (exists answers), set by the harness

        def __init__(self, *args):
            paths = []
            for a in args:
                if isinstance(a, SymPath):
                    paths.extend(a._raw_paths)
                elif isinstance(a, (S.CharStr, str)):
                    paths.append(S.CharStr(a) if isinstance(a, str) else a)
                else:
                    raise TypeError("argument should be a str or an os.PathLike object")
            self._raw_paths = paths

        def __symstr__(self):
            return self.__str__()

        def __fspath__(self):
            return self.__str__()

        # -- environment ------------------------------------------------------------------
        def exists(self):
            return SymPath.env.exists(self)

        def resolve(self, strict=False):
            # no symbolic links in the modelled file system: resolve == absolute + normalised
            return SymPath(pp.abspath(self.__str__()))

    ns = dict(sys=types.SimpleNamespace(intern=lambda x: x), str=_sym_str)
    P = pathlib.PurePath
    for name in ("_parse_path", "_load_parts", "_from_parsed_parts", "_format_parsed_parts", "__str__",
                 "drive", "root", "_tail", "name", "suffix", "parent", "with_segments"):
        raw = inspect.getattr_static(P, name)
        if isinstance(raw, property):
            setattr(SymPath, name, property(lift.lift(raw.fget, **ns)))
        elif isinstance(raw, classmethod):
            setattr(SymPath, name, classmethod(lift.lift(raw.__func__, **ns)))
        else:
            setattr(SymPath, name, lift.lift(raw, **ns))
    _SYMPATH["cls"] = SymPath
    _SYMPATH["targets"] = [getattr(inspect.getattr_static(P, n), "fget", None) or
                           getattr(inspect.getattr_static(P, n), "__func__", None) or
                           inspect.getattr_static(P, n)
                           for n in ("_parse_path", "name", "suffix", "parent", "_format_parsed_parts")]
    return SymPath


def _sympath_selftest():
    """translator validation: lifted pathlib == pathlib.PurePosixPath on a lattice of paths"""
    if _SYMPATH.get("validated"):
        return _SYMPATH["validated"]
    import pathlib
    SP = _sympath_class()
    segs = ["", ".", "..", "a", "b.c", ".h", "x.", "a!b", "d.e.f", "é"]
    paths = set()
    for a in segs:
        for b in segs:
            for lead in ("", "/", "//", "///"):
                for trail in ("", "/"):
                    paths.add(lead + a + "/" + b + trail)
                    paths.add(lead + a + trail)
    n = 0
    for p in sorted(paths):
        real, sym = pathlib.PurePosixPath(p), SP(p)
        got = (str(sym.name), str(sym.suffix), str(sym.__str__()), str(sym.parent.__str__()),
               str(sym.resolve().__str__()), str(sym.parent.resolve().__str__()))
        import posixpath
        exp = (real.name, real.suffix, str(real), str(real.parent),
               posixpath.normpath(posixpath.join(_CWD, str(real))),
               posixpath.normpath(posixpath.join(_CWD, str(real.parent))))
        if got != exp:
            raise AssertionError(f"lifted pathlib differs on {p!r}: {got} vs {exp}")
        n += 1
    _SYMPATH["validated"] = n
    return n


class _FsEnv:
    """the file system as far as populate_from_path can see it: one answer per exists() question,
    in the order asked (the file first, then its folder)"""

    def __init__(self, answers):
        self.answers = list(answers)
        self.asked = 0

    def exists(self, p):
        i = min(self.asked, len(self.answers) - 1)
        self.asked += 1
        return self.answers[i]


def _ref_components(path):
    """(absolute?, components) of a POSIX path, written from POSIX pathname resolution: empty
    components and '.' components carry no meaning.  Works on str and CharStr (comparisons fork)."""
    n = len(path)
    lead = 0
    while lead < n and path[lead] == "/":
        lead += 1
    comps = []
    for c in path.split("/"):
        if len(c) == 0:
            continue
        if len(c) == 1 and c == ".":
            continue
        comps.append(c)
    return lead, comps


def _ref_extension_candidates(name):
    """the extension of a file name: from its last dot on, when that dot is neither the first nor
    the last character.  For names whose only dots lead or trail ('.bashrc', 'a.', '..a') conventions
    differ (none / the dot / the rest): every convention is accepted."""
    n = len(name)
    last = -1
    for i in range(n - 1, -1, -1):
        if name[i] == ".":
            last = i
            break
    if last < 0:
        return [""]
    lead = 0
    while lead < n and name[lead] == ".":
        lead += 1
    if last == n - 1:
        return ["", "."]
    if last < lead:                       # only leading dots before the last one: '.bashrc', '..a'
        return ["", name[last:]] if last > 0 else [""]
    return [name[last:]]


def _ref_resolve(lead, comps, cwd):
    """absolute, normalised form in a file system without symbolic links"""
    stack = [] if lead else [c for c in cwd.split("/") if c]
    for c in comps:
        if len(c) == 2 and c == "..":
            if stack:
                stack.pop()
        else:
            stack.append(c)
    root = "//" if lead == 2 else "/"
    out = root
    for i, c in enumerate(stack):
        out = out + ("/" if i else "") + c
    return out


def _ref_join(lead, comps):
    root = "" if lead == 0 else ("//" if lead == 2 else "/")
    out = root
    for i, c in enumerate(comps):
        out = out + ("/" if i else "") + c
    return out


_K2_SINGLES = "/.ab!é "


def k2_path_metadata(ctx):
    dt = _dt()
    import pathlib
    ctx.decision_memo = {}
    n = ctx.params["len"]
    md = dt.FileMetadataInterface()
    if n < 0:
        # no path given
        try:
            md.populate_from_path(None)
        except Exception as e:
            ctx.fail("populate_from_path-raised", exc=type(e).__name__)
        vals = (md.filename, md.file_extension, md.file_path, md.folder_path)
        if ctx.perturb == "none_gives_empty_strings":
            ctx.require(all(v == "" for v in vals), "twin")
        ctx.require(all(v is None for v in vals), "path-fields-not-none-without-path", got=repr(vals))
        return
    path = _alphabet(ctx, ctx.fresh_chars("path", n, 1, 255), _K2_SINGLES)
    # the file system's answers are symbolic booleans: the branch in populate_from_path is a solver fork
    file_exists = ctx.fresh_bool("file_exists")
    folder_exists = ctx.fresh_bool("folder_exists")
    if ctx.concrete:
        ctx.assume(folder_exists or not file_exists)
    else:
        ctx.assume(z3.Implies(file_exists.z, folder_exists.z))
    lead, comps = _ref_components(path)
    # the path names a file: it has a final component, which is not '..'
    ctx.assume(len(comps) > 0)
    last = comps[-1]
    ctx.assume(not (len(last) == 2 and last == ".."))
    as_object = ctx.flag("given_as_path_object")
    env = _FsEnv([file_exists, folder_exists])
    try:
        if ctx.concrete:
            arg = pathlib.Path(path) if as_object else path
            cwd = _CWD
            import posixpath
            with ctx.stub(pathlib.Path, exists=lambda self: env.exists(self),
                          resolve=lambda self, strict=False: pathlib.Path(
                              posixpath.normpath(posixpath.join(cwd, str(self))))):
                md.populate_from_path(arg)
        else:
            _sympath_selftest()
            SP = _sympath_class()
            SP.env = env
            arg = SP(path) if as_object else path
            with ctx.shadow(dt, Path=SP, str=_sym_str):
                md.populate_from_path(arg)
    except S.Unsupported:
        raise
    except Exception as e:
        ctx.fail("populate_from_path-raised", exc=type(e).__name__, msg=str(e)[:80])
        return
    for nm in ("filename", "file_extension", "file_path", "folder_path"):
        ctx.require(_is_text(getattr(md, nm)), "path-field-not-str", field=nm, got=type(getattr(md, nm)).__name__)
    # file name = the final component
    ctx.require(_seq_eq(md.filename, last), "filename-is-not-the-final-component",
                filename=_show(md.filename), path=_show(path))
    # extension
    cands = _ref_extension_candidates(last)
    if ctx.perturb == "extension_without_dot":
        cands = [c[1:] if len(c) else c for c in cands]
    oks = [_seq_eq(md.file_extension, c) for c in cands]
    ok = True if any(o is True for o in oks) else [o for o in oks if o is not False]
    ctx.require(ok if ok is True else (z3.Or(*ok) if ok else False), "extension-differs-from-file-name-suffix",
                extension=_show(md.file_extension), path=_show(path))
    # folder = everything before the final component (resolved against the working directory when
    # it exists); a relative single-component path has the current directory as folder
    if folder_exists:
        want = [_ref_resolve(lead, comps[:-1], _CWD)]
    else:
        j = _ref_join(lead, comps[:-1])
        want = [j] if len(j) else [".", ""]
    if ctx.perturb == "folder_is_full_path":
        want = [_ref_join(lead, comps)]
    oks = [_seq_eq(md.folder_path, w) for w in want]
    ok = True if any(o is True for o in oks) else [o for o in oks if o is not False]
    ctx.require(ok if ok is True else (z3.Or(*ok) if ok else False), "folder-differs-from-path-without-final-component",
                folder=_show(md.folder_path), path=_show(path))


def _k2_parts(tier):
    top = 6 if tier == "quick" else 8
    return [{"len": n} for n in range(-1, top + 1) if n != 0]


def _k2_targets():
    _sympath_class()
    return [_dt().FileMetadataInterface.populate_from_path] + _SYMPATH["targets"]


# =======================================================================================
# K4  textual document properties reported unchanged
# =======================================================================================

F_XLSX_SUBJECT = "C04-xlsx-subject-not-reported"
F_ODF_KEYWORDS = "C04-odf-only-first-keyword-reported"

_PROPS = ("title", "author", "subject", "keywords", "description")
# attribute of the metadata object that may carry a property (either name is accepted)
_ATTR_CANDIDATES = {"title": ("title",), "author": ("author", "creator"), "subject": ("subject",),
                    "keywords": ("keywords",), "description": ("description", "comments")}
_FIXED = {"title": "Ttl", "author": "Ath", "subject": "Sbj", "keywords": "Kwd", "description": "Dsc"}

_NS_DC = "http://purl.org/dc/elements/1.1/"
_NS_CP = "http://schemas.openxmlformats.org/package/2006/metadata/core-properties"      # ECMA-376 part 2
_NS_OFFICE = "urn:oasis:names:tc:opendocument:xmlns:office:1.0"                           # ODF 1.2 part 1
_NS_META = "urn:oasis:names:tc:opendocument:xmlns:meta:1.0"
_NS_OPF = "http://www.idpf.org/2007/opf"                                                  # EPUB 3 packages

# format -> (root builder, element of each property, properties that may repeat, exact?)
_XML_FORMATS = {
    # ECMA-376 part 2, 11: core properties part
    "docx": dict(container=(f"{{{_NS_CP}}}coreProperties",), exact=True, repeatable=(),
                 elements={"title": f"{{{_NS_DC}}}title", "author": f"{{{_NS_DC}}}creator",
                           "subject": f"{{{_NS_DC}}}subject", "keywords": f"{{{_NS_CP}}}keywords",
                           "description": f"{{{_NS_DC}}}description"}),
    # ODF 1.2 part 1, 4.3: <office:document-meta><office:meta> ; keywords: one <meta:keyword> each
    "odf": dict(container=(f"{{{_NS_OFFICE}}}document-meta", f"{{{_NS_OFFICE}}}meta"), exact=True,
                repeatable=("keywords",),
                elements={"title": f"{{{_NS_DC}}}title", "author": f"{{{_NS_DC}}}creator",
                          "subject": f"{{{_NS_DC}}}subject", "keywords": f"{{{_NS_META}}}keyword",
                          "description": f"{{{_NS_DC}}}description"}),
    # EPUB 3.3 package document: <package><metadata> with Dublin Core elements; creator and subject
    # may repeat; values are white-space trimmed by the specification
    "epub": dict(container=(f"{{{_NS_OPF}}}package", f"{{{_NS_OPF}}}metadata"), exact=False,
                 repeatable=("author", "subject"),
                 elements={"title": f"{{{_NS_DC}}}title", "author": f"{{{_NS_DC}}}creator",
                           "subject": f"{{{_NS_DC}}}subject", "description": f"{{{_NS_DC}}}description"}),
}
_XML_FORMATS["pptx"] = _XML_FORMATS["docx"]
_XML_FORMATS["xlsx"] = _XML_FORMATS["docx"]


def _k4_text(ctx, name, n):
    return _alphabet(ctx, ctx.fresh_chars(name, n, 32, 126), "", ((32, 126),))


def _strip_sp(x):
    """value with leading / trailing white space removed (str or CharStr)"""
    return x.strip()


def _k4_compare(ctx, reported, stored, exact, label, **info):
    if reported is None and len(stored) == 0:
        return
    ctx.require(_is_text(reported), "property-not-text", prop=info.get("prop"), got=type(reported).__name__)
    if ctx.perturb == "expect_upper":
        stored = stored.upper()
    if exact:
        ok = _seq_eq(reported, stored)
    else:
        ok = _seq_eq(_strip_sp(reported), _strip_sp(stored))
    ctx.require(ok, label, reported=_show(reported), stored=_show(stored), **info)


def _k4_reported(md, prop):
    for a in _ATTR_CANDIDATES[prop]:
        if hasattr(md, a):
            return True, getattr(md, a)
    return False, None


class _JoinStr(str):
    """string literal of lifted code that stays a real str (ElementTree wants one) but joins
    symbolic parts symbolically"""

    def join(self, parts):
        parts = list(parts)
        if any(isinstance(x, S.CharStr) for x in parts):
            return S.CharStr(str(self)).join(parts)
        return str.join(self, parts)


_ODF_LIFT = {}


def _odf_lifted_reader():
    import importlib
    from vf import lift
    if "fn" not in _ODF_LIFT:
        sh = importlib.import_module("sharepoint2text.parsing.extractors.open_office._shared")
        _ODF_LIFT["fn"] = lift.lift(sh.extract_odf_metadata, _CS=_JoinStr, int=S.IntShadow)
    return _ODF_LIFT["fn"]


def _join_fstr(*parts):
    """f-string of lifted code whose pieces are all concrete: a real str (ElementTree paths)"""
    if any(isinstance(x, S.CharStr) and x.concrete() is None for x in parts):
        from vf import lift
        return lift._csf(*parts)
    return _JoinStr("".join(str(x) for x in parts))


def _epub_lifted_reader():
    import importlib
    from vf import lift
    if "epub" not in _ODF_LIFT:
        m = importlib.import_module("sharepoint2text.parsing.extractors.epub_extractor")
        _ODF_LIFT["epub"] = lift.lift(m._EpubContext._parse_metadata, _CS=_JoinStr, _CSF=_join_fstr)
    return _ODF_LIFT["epub"]


def _k4_run_xml(ctx, fmt, root):
    """hand the (parsed) properties part to the format's own reader"""
    import importlib
    ex = "sharepoint2text.parsing.extractors."
    if fmt == "odf":
        m = importlib.import_module(ex + "open_office." + ctx.params.get("odf_module", "odt_extractor"))
        # symbolic run: the shared reader is its own source lifted to symbolic strings
        with ctx.shadow(m, extract_odf_metadata=_odf_lifted_reader() if not ctx.concrete else None):
            return m._extract_metadata_from_context(types.SimpleNamespace(meta_root=root)) \
                if hasattr(m, "_extract_metadata_from_context") else m._extract_metadata(root)
    if fmt in ("docx", "pptx"):
        m = importlib.import_module(ex + f"ms_modern.{fmt}_extractor")
        with ctx.shadow(m, int=S.IntShadow):
            return m._extract_metadata_from_context(types.SimpleNamespace(_core_root=root))
    if fmt == "epub":
        m = importlib.import_module(ex + "epub_extractor")
        c = object.__new__(m._EpubContext)
        c._opf_root = root
        c._metadata = m.EpubMetadata()
        if ctx.concrete:
            c._parse_metadata()
        else:
            # symbolic run: the reader's own source lifted (", ".join of symbolic element texts)
            _epub_lifted_reader()(c)
        return c._metadata
    raise KeyError(fmt)


def _k4_xlsx_props(values):
    """what openpyxl hands over as workbook.properties for a core-properties part (symbolic run; the
    concrete run reads the written package with read_xlsx, i.e. through openpyxl itself)"""
    one = lambda p: (values[p][0] if values[p] and len(values[p][0]) else None)
    return types.SimpleNamespace(title=one("title"), creator=one("author"), subject=one("subject"),
                                 keywords=one("keywords"), description=one("description"),
                                 lastModifiedBy=None, created=None, modified=None, language=None,
                                 revision=None, category=None, contentStatus=None, identifier=None,
                                 version=None, lastPrinted=None)


# minimal containers around a properties part (written from the package specifications), so that the
# concrete run goes through the public readers
_CT = ('<?xml version="1.0"?><Types xmlns="http://schemas.openxmlformats.org/package/2006/content-types">'
       '<Default Extension="rels" ContentType="application/vnd.openxmlformats-package.relationships+xml"/>'
       '<Default Extension="xml" ContentType="application/xml"/>%s</Types>')
_RELS = '<?xml version="1.0"?><Relationships xmlns="http://schemas.openxmlformats.org/package/2006/relationships">%s</Relationships>'
_REL = '<Relationship Id="%s" Type="%s" Target="%s"/>'
_OD = "http://schemas.openxmlformats.org/officeDocument/2006/relationships"
_CORE_REL = "http://schemas.openxmlformats.org/package/2006/relationships/metadata/core-properties"
_ODF_NS = ('xmlns:office="urn:oasis:names:tc:opendocument:xmlns:office:1.0" '
           'xmlns:text="urn:oasis:names:tc:opendocument:xmlns:text:1.0" '
           'xmlns:table="urn:oasis:names:tc:opendocument:xmlns:table:1.0" '
           'xmlns:draw="urn:oasis:names:tc:opendocument:xmlns:drawing:1.0"')
_ODF_KINDS = {
    "odt_extractor": ("read_odt", "application/vnd.oasis.opendocument.text",
                      "<office:text><text:p>x</text:p></office:text>"),
    "ods_extractor": ("read_ods", "application/vnd.oasis.opendocument.spreadsheet",
                      '<office:spreadsheet><table:table table:name="S"><table:table-row><table:table-cell>'
                      "<text:p>x</text:p></table:table-cell></table:table-row></table:table></office:spreadsheet>"),
    "odp_extractor": ("read_odp", "application/vnd.oasis.opendocument.presentation",
                      '<office:presentation><draw:page draw:name="p1"/></office:presentation>'),
    "odg_extractor": ("read_odg", "application/vnd.oasis.opendocument.graphics",
                      '<office:drawing><draw:page draw:name="p1"/></office:drawing>'),
}


def _zip(files):
    import zipfile
    b = io.BytesIO()
    with zipfile.ZipFile(b, "w", zipfile.ZIP_DEFLATED) as zf:
        for name, data in files:
            if name == "mimetype":
                zf.writestr(zipfile.ZipInfo(name), data)
            else:
                zf.writestr(name, data)
    b.seek(0)
    return b


def _xlsx_package(part):
    """a one-sheet workbook package (ECMA-376 part 1, 18.2 / part 2) around a core-properties part"""
    X = "http://schemas.openxmlformats.org/spreadsheetml/2006/main"
    return _zip([("[Content_Types].xml", _CT % (
        '<Override PartName="/xl/workbook.xml" ContentType="application/vnd.openxmlformats-officedocument.'
        'spreadsheetml.sheet.main+xml"/><Override PartName="/xl/worksheets/sheet1.xml" ContentType='
        '"application/vnd.openxmlformats-officedocument.spreadsheetml.worksheet+xml"/><Override PartName='
        '"/docProps/core.xml" ContentType="application/vnd.openxmlformats-package.core-properties+xml"/>')),
        ("_rels/.rels", _RELS % (_REL % ("rId1", _OD + "/officeDocument", "xl/workbook.xml") +
                                 _REL % ("rId2", _CORE_REL, "docProps/core.xml"))),
        ("xl/workbook.xml", f'<workbook xmlns="{X}" xmlns:r="{_OD}"><sheets><sheet name="S" sheetId="1" '
                            'r:id="rId1"/></sheets></workbook>'),
        ("xl/_rels/workbook.xml.rels", _RELS % (_REL % ("rId1", _OD + "/worksheet", "worksheets/sheet1.xml"))),
        ("xl/worksheets/sheet1.xml", f'<worksheet xmlns="{X}"><sheetData><row r="1"><c r="A1" t="inlineStr"><is>'
                                     "<t>x</t></is></c></row></sheetData></worksheet>"),
        ("docProps/core.xml", part)])


def _k4_public(ctx, fmt, part):
    """(reader name, metadata object) from the public reader on a minimal container holding the
    properties part; None when this format has no writer here"""
    import importlib
    ex = "sharepoint2text.parsing.extractors."
    if fmt == "docx":
        W = "http://schemas.openxmlformats.org/wordprocessingml/2006/main"
        f = _zip([("[Content_Types].xml", _CT % (
            '<Override PartName="/word/document.xml" ContentType="application/vnd.openxmlformats-officedocument.'
            'wordprocessingml.document.main+xml"/><Override PartName="/docProps/core.xml" ContentType='
            '"application/vnd.openxmlformats-package.core-properties+xml"/>')),
            ("_rels/.rels", _RELS % (_REL % ("rId1", _OD + "/officeDocument", "word/document.xml") +
                                     _REL % ("rId2", _CORE_REL, "docProps/core.xml"))),
            ("word/document.xml", f'<w:document xmlns:w="{W}"><w:body><w:p><w:r><w:t>x</w:t></w:r></w:p></w:body></w:document>'),
            ("docProps/core.xml", part)])
        reader = importlib.import_module(ex + "ms_modern.docx_extractor").read_docx
    elif fmt == "pptx":
        P = "http://schemas.openxmlformats.org/presentationml/2006/main"
        f = _zip([("[Content_Types].xml", _CT % (
            '<Override PartName="/ppt/presentation.xml" ContentType="application/vnd.openxmlformats-officedocument.'
            'presentationml.presentation.main+xml"/><Override PartName="/ppt/slides/slide1.xml" ContentType='
            '"application/vnd.openxmlformats-officedocument.presentationml.slide+xml"/><Override PartName='
            '"/docProps/core.xml" ContentType="application/vnd.openxmlformats-package.core-properties+xml"/>')),
            ("_rels/.rels", _RELS % (_REL % ("rId1", _OD + "/officeDocument", "ppt/presentation.xml") +
                                     _REL % ("rId2", _CORE_REL, "docProps/core.xml"))),
            ("ppt/presentation.xml", f'<p:presentation xmlns:p="{P}" xmlns:r="{_OD}"><p:sldIdLst>'
                                     '<p:sldId id="256" r:id="rId1"/></p:sldIdLst></p:presentation>'),
            ("ppt/_rels/presentation.xml.rels", _RELS % (_REL % ("rId1", _OD + "/slide", "slides/slide1.xml"))),
            ("ppt/slides/slide1.xml", f'<p:sld xmlns:p="{P}"><p:cSld><p:spTree/></p:cSld></p:sld>'),
            ("docProps/core.xml", part)])
        reader = importlib.import_module(ex + "ms_modern.pptx_extractor").read_pptx
    elif fmt == "xlsx":
        f = _xlsx_package(part)
        reader = importlib.import_module(ex + "ms_modern.xlsx_extractor").read_xlsx
    elif fmt == "odf":
        kind = _ODF_KINDS.get(ctx.params.get("odf_module", "odt_extractor"))
        if kind is None:
            return None
        rname, mime, body = kind
        f = _zip([("mimetype", mime),
                  ("content.xml", f'<office:document-content {_ODF_NS} office:version="1.2"><office:body>{body}'
                                  "</office:body></office:document-content>"),
                  ("meta.xml", part),
                  ("META-INF/manifest.xml",
                   '<manifest:manifest xmlns:manifest="urn:oasis:names:tc:opendocument:xmlns:manifest:1.0" '
                   f'manifest:version="1.2"><manifest:file-entry manifest:full-path="/" manifest:media-type="{mime}"/>'
                   '<manifest:file-entry manifest:full-path="content.xml" manifest:media-type="text/xml"/>'
                   '<manifest:file-entry manifest:full-path="meta.xml" manifest:media-type="text/xml"/>'
                   "</manifest:manifest>")])
        reader = getattr(importlib.import_module(ex + "open_office." + ctx.params.get("odf_module", "odt_extractor")), rname)
    elif fmt == "epub":
        f = _zip([("mimetype", "application/epub+zip"),
                  ("META-INF/container.xml",
                   '<container xmlns="urn:oasis:names:tc:opendocument:xmlns:container" version="1.0"><rootfiles>'
                   '<rootfile full-path="OEBPS/content.opf" media-type="application/oebps-package+xml"/>'
                   "</rootfiles></container>"),
                  ("OEBPS/content.opf", part),
                  ("OEBPS/c1.xhtml", '<html xmlns="http://www.w3.org/1999/xhtml"><head><title>c</title></head>'
                                     "<body><p>x</p></body></html>")])
        reader = importlib.import_module(ex + "epub_extractor").read_epub
    else:
        return None
    res = list(reader(f, None))
    return reader.__name__, res[0].get_metadata()


def k4_xml_properties(ctx):
    import xml.etree.ElementTree as ET
    fmt = ctx.params["fmt"]
    spec = _XML_FORMATS[fmt]
    ctx.decision_memo = {}
    props = [p for p in _PROPS if p in spec["elements"]]
    focus = props[ctx.choice("focus", len(props))]
    states = ["absent", "empty", "text"] + (["repeated"] if focus in spec["repeatable"] else [])
    state = states[ctx.choice("state", len(states))]
    values = {p: [_FIXED[p]] for p in props}
    if state == "absent":
        values[focus] = []
    elif state == "empty":
        values[focus] = [""]
    elif state == "text":
        n = 1 + ctx.choice("text_len", ctx.params.get("max_text", 3))
        values[focus] = [_k4_text(ctx, "text", n)]
    else:
        values[focus] = [_k4_text(ctx, "first", 2), _k4_text(ctx, "second", 2)]
    root = ET.Element(spec["container"][0])
    if fmt == "epub":
        root.set("version", "3.0")
    holder = root
    for tag in spec["container"][1:]:
        holder = ET.SubElement(holder, tag)
    for p in props:
        for v in values[p]:
            ET.SubElement(holder, spec["elements"][p]).text = v
    if fmt == "epub":
        # a package document also needs manifest and spine to be read as a book
        man = ET.SubElement(root, f"{{{_NS_OPF}}}manifest")
        ET.SubElement(man, f"{{{_NS_OPF}}}item", {"id": "c1", "href": "c1.xhtml", "media-type": "application/xhtml+xml"})
        ET.SubElement(ET.SubElement(root, f"{{{_NS_OPF}}}spine"), f"{{{_NS_OPF}}}itemref", {"idref": "c1"})
    try:
        md = None
        if ctx.concrete:
            # the written part inside a minimal container, through the public reader
            pub = _k4_public(ctx, fmt, ET.tostring(root, encoding="unicode"))
            if pub is not None:
                md = pub[1]
            else:
                root = ET.fromstring(ET.tostring(root, encoding="unicode"))
        if md is None and fmt == "xlsx":
            # symbolic run: the reader proper on what openpyxl hands over; its two flags are derived
            # the way read_xlsx derives them, from the package (the part with the symbolic characters
            # replaced by a placeholder: the flags depend on the dcterms elements only)
            import importlib
            m = importlib.import_module("sharepoint2text.parsing.extractors.ms_modern.xlsx_extractor")
            for el in root.iter():
                if isinstance(el.text, S.CharStr):
                    el.text = "x" * len(el.text)
            has_created, has_modified = m._core_dates_present(_xlsx_package(ET.tostring(root, encoding="unicode")))
            wb = types.SimpleNamespace(properties=_k4_xlsx_props(values))
            md = m._extract_metadata_from_workbook(wb, has_created, has_modified)
        if md is None:
            md = _k4_run_xml(ctx, fmt, root)
    except S.Unsupported:
        raise
    except Exception as e:
        ctx.fail("metadata-reader-raised", fmt=fmt, exc=type(e).__name__, msg=str(e)[:80])
        return
    for p in props:
        has, rep = _k4_reported(md, p)
        if not has:
            if fmt == "xlsx" and p == "subject" and _known(ctx, F_XLSX_SUBJECT):
                continue
            ctx.fail("property-has-no-field-in-metadata", fmt=fmt, prop=p, metadata=type(md).__name__)
            continue
        stored = values[p]
        if len(stored) == 0:
            _k4_compare(ctx, rep, "", spec["exact"], "absent-property-reported-non-empty", fmt=fmt, prop=p)
        elif len(stored) == 1:
            _k4_compare(ctx, rep, stored[0], spec["exact"], "property-not-reported-unchanged", fmt=fmt, prop=p)
        elif fmt == "odf":
            # one meta:keyword element per keyword: all of them, in document order, separated by ", "
            joined = stored[0]
            for v in stored[1:]:
                joined = joined + ", " + v
            _k4_compare(ctx, rep, joined, True, "repeated-property-value-not-reported", fmt=fmt, prop=p)
        elif fmt == "epub":
            # one dc:creator / dc:subject element per value: every non-blank value (white space trimmed,
            # EPUB 3.3), in document order; the accepted rendering separates them by ", "
            joined = None
            for v in stored:
                v = _strip_sp(v)
                if len(v) == 0:
                    continue
                joined = v if joined is None else joined + ", " + v
            _k4_compare(ctx, rep, joined if joined is not None else "", False,
                        "repeated-property-value-not-reported", fmt=fmt, prop=p,
                        values=[_show(x) for x in stored])
        else:
            # several values stored: each of them has to be found in what is reported
            ctx.require(_is_text(rep), "property-not-text", prop=p)
            for k, v in enumerate(stored):
                v = _strip_sp(v)
                if len(v) == 0:
                    continue
                found = (v in rep) if isinstance(rep, str) and isinstance(v, str) else S.CharStr(_codes(rep))._contains(v)
                if isinstance(found, S.SymBool):
                    found = found.z
                ctx.require(found, "repeated-property-value-not-reported", fmt=fmt, prop=p, which=k,
                            reported=_show(rep), stored=[_show(s) for s in stored])


def _k4x_parts(tier):
    parts = [{"fmt": f} for f in ("docx", "pptx", "xlsx", "epub")]
    parts += [{"fmt": "odf", "odf_module": m} for m in ("odt_extractor", "ods_extractor", "odp_extractor",
                                                          "odg_extractor", "odf_extractor")]
    return parts


def _k4x_targets():
    import importlib
    ex = "sharepoint2text.parsing.extractors."
    out = [importlib.import_module(ex + "open_office._shared").extract_odf_metadata]
    for f in ("docx", "pptx"):
        out.append(importlib.import_module(ex + f"ms_modern.{f}_extractor")._extract_metadata_from_context)
    out.append(importlib.import_module(ex + "ms_modern.xlsx_extractor")._extract_metadata_from_workbook)
    out.append(importlib.import_module(ex + "ms_modern.xlsx_extractor")._core_dates_present)
    out.append(importlib.import_module(ex + "epub_extractor")._EpubContext._parse_metadata)
    return out


# ---------------------------------------------------------------------------------------
# K4 / HTML
# ---------------------------------------------------------------------------------------

_HTML_LIFT = {}
_HTML_META = {"author": "author", "keywords": "keywords", "description": "description"}


def _html():
    from sharepoint2text.parsing.extractors import html_extractor
    return html_extractor


def _html_lifted_extractor(root):
    from vf import lift
    h = _html()
    L = _HTML_LIFT
    if not L:
        ns = dict(_RE_CHARSET_IN_CONTENT=SymRegex(h._RE_CHARSET_IN_CONTENT))
        _regex_runtime_selftest([h._RE_CHARSET_IN_CONTENT])
        L["meta"] = lift.lift(h._HtmlTextExtractor._extract_metadata, **ns)
        L["text"] = lift.lift(h._HtmlTextExtractor._get_node_text, **ns)
    ex = h._HtmlTextExtractor(root)
    ex._get_node_text = lambda node, include_children=True, include_tail=False: \
        L["text"](ex, node, include_children, include_tail)
    ex._extract_metadata = lambda path: L["meta"](ex, path)
    return ex


def _html_substitute(node, table):
    """replace placeholder strings in the tree the real tree builder produced"""
    for key in ("text", "tail"):
        if node.get(key) in table:
            node[key] = table[node[key]]
    for a, v in list(node.get("attrs", {}).items()):
        if v in table:
            node["attrs"][a] = table[v]
    for ch in node.get("children", []):
        _html_substitute(ch, table)


def _ascii_ci_equal(s, word):
    """ASCII case-insensitive equality (HTML: meta names are compared that way)"""
    cs = _codes(s)
    if len(cs) != len(word):
        return False
    parts = []
    for c, w in zip(cs, word):
        alts = {ord(w.lower()), ord(w.upper())}
        if isinstance(c, int):
            if c not in alts:
                return False
        else:
            parts.append(z3.Or(*[c.z == a for a in sorted(alts)]))
    return True if not parts else z3.And(*parts)


def k4_html_properties(ctx):
    import html as _htmlmod
    h = _html()
    ctx.decision_memo = {}
    targets = ("title", "author", "keywords", "description", "meta-name")
    focus = targets[ctx.choice("focus", len(targets))]
    values = {"title": "Ttl", "author": "Ath", "keywords": "Kwd", "description": "Dsc"}
    names = dict(_HTML_META)
    sym_name_for = None
    if focus == "meta-name":
        sym_name_for = ("author", "keywords", "description")[ctx.choice("name_of", 3)]
        names[sym_name_for] = _k4_text(ctx, "name", len(sym_name_for))
        state = "text"
    else:
        state = ("absent", "empty", "text")[ctx.choice("state", 3)]
        if state == "absent":
            values[focus] = None
        elif state == "empty":
            values[focus] = ""
        else:
            values[focus] = _k4_text(ctx, "text", 1 + ctx.choice("text_len", ctx.params.get("max_text", 3)))
    # the document (HTML living standard 4.2.2 title, 4.2.5 meta with standard metadata names)
    table = {}

    def lit(v, tag):
        if ctx.concrete or isinstance(v, str):
            return _htmlmod.escape(v, quote=True)
        token = "@@%s@@" % tag
        table[token] = v
        return token
    head = []
    if values["title"] is not None:
        head.append("<title>%s</title>" % lit(values["title"], "title"))
    for p in ("author", "keywords", "description"):
        if values[p] is not None:
            head.append('<meta name="%s" content="%s">' % (lit(names[p], "n" + p), lit(values[p], "c" + p)))
    doc = "<!DOCTYPE html><html><head>%s</head><body><p>x</p></body></html>" % "".join(head)
    try:
        if ctx.concrete:
            res = list(h.read_html(io.BytesIO(doc.encode("utf-8")), None))
            md = res[0].get_metadata()
        else:
            b = h._HtmlTreeBuilder()
            b.feed(doc)
            root = b.get_tree()
            _html_substitute(root, table)
            ex = _html_lifted_extractor(root)
            ex._extract_metadata(None)
            md = ex.metadata
    except S.Unsupported:
        raise
    except Exception as e:
        ctx.fail("metadata-reader-raised", fmt="html", exc=type(e).__name__, msg=str(e)[:80])
        return
    for p in ("title", "author", "keywords", "description"):
        rep = getattr(md, p, None)
        stored = values[p] if values[p] is not None else ""
        if p == sym_name_for:
            # the meta element counts for p iff its name is p in any letter case
            is_p = _ascii_ci_equal(names[p], p)
            ok_yes = _seq_eq(_strip_ws(rep), _strip_ws(stored))
            ok_no = _seq_eq(rep, "")
            if is_p is True or is_p is False:
                ctx.require(ok_yes if is_p else ok_no, "meta-name-matching-differs-from-html", prop=p,
                            name=_show(names[p]), reported=_show(rep))
            else:
                z = lambda c: z3.BoolVal(c) if isinstance(c, bool) else c
                ctx.require(z3.If(is_p, z(ok_yes), z(ok_no)), "meta-name-matching-differs-from-html", prop=p,
                            name=_show(names[p]), reported=_show(rep))
            continue
        _k4_compare(ctx, rep, stored, False, "property-not-reported-unchanged", fmt="html", prop=p)


# ---------------------------------------------------------------------------------------
# K4 / RTF
# ---------------------------------------------------------------------------------------

# Windows-1252, bytes 0x80..0x9F (the rest of the code page equals ISO 8859-1); None = undefined
_CP1252_HIGH = [0x20AC, None, 0x201A, 0x0192, 0x201E, 0x2026, 0x2020, 0x2021, 0x02C6, 0x2030, 0x0160, 0x2039,
                0x0152, None, 0x017D, None, None, 0x2018, 0x2019, 0x201C, 0x201D, 0x2022, 0x2013, 0x2014,
                0x02DC, 0x2122, 0x0161, 0x203A, 0x0153, None, 0x017E, 0x0178]
_RTF_KEYWORD = {"title": "title", "author": "author", "subject": "subject", "keywords": "keywords",
                "description": "doccomm"}        # RTF 1.9.1, information group
_RTF_ATTR = {"title": "title", "author": "author", "subject": "subject", "keywords": "keywords",
             "description": "doc_comment"}
# white space as str.strip() understands it (U+0009..U+000D, U+001C..U+0020, U+0085, U+00A0, U+1680,
# U+2000..U+200A, U+2028, U+2029, U+202F, U+205F, U+3000)
_WS_CODES = tuple(c for c in range(0x110000) if chr(c).isspace())


def _strip_ws(x):
    """leading / trailing white space removed, on code lists (white space as str.strip)"""
    if x is None:
        return ""
    cs = _codes(x)

    def ws(c):
        if isinstance(c, int):
            return c in _WS_CODES
        return _truth(z3.Or(*[c.z == w for w in _WS_CODES]))
    i, j = 0, len(cs)
    while i < j and ws(cs[i]):
        i += 1
    while j > i and ws(cs[j - 1]):
        j -= 1
    return S.CharStr(cs[i:j])


F_RTF_INFO_CUT = "C04-rtf-info-group-cut-at-escaped-closing-brace"
_RTF_PROPS = ("title", "author", "subject", "keywords", "description")
_RTF_LEXEME_KINDS = ("plain", "hex", "unicode", "escaped")


def _k4r_parts(tier):
    return [{"focus": f, "kind0": k} for f in range(len(_RTF_PROPS)) for k in range(len(_RTF_LEXEME_KINDS))]


def _hex_digit(ctx, name):
    """one hexadecimal digit chosen by the solver: (character, value)"""
    c = ctx.fresh_int(name, 48, 102)
    if ctx.concrete:
        ctx.assume(chr(c) in "0123456789abcdefABCDEF")
        return chr(c), int(chr(c), 16)
    ctx.assume(z3.Or(z3.And(c.z >= 48, c.z <= 57), z3.And(c.z >= 65, c.z <= 70), z3.And(c.z >= 97, c.z <= 102)))
    val = z3.If(c.z <= 57, c.z - 48, z3.If(c.z <= 70, c.z - 55, c.z - 87))
    return S.CharStr([c]), S.SymInt(val)


def k4_rtf_properties(ctx):
    """the value of an information-group property is written as a sequence of RTF lexemes; the
    reference decoder follows RTF 1.9.1 (\\'hh = byte in the document code page, \\uN + one fallback
    character, \\\\ \\{ \\} literal characters)"""
    m = _rtf()
    ctx.decision_memo = {}
    props = _RTF_PROPS
    # the property under focus and the kind of the first lexeme come with the part (parallel parts)
    focus = props[ctx.params["focus"] if "focus" in ctx.params else ctx.choice("focus", len(props))]
    K = 1 + ctx.choice("n_lexemes", ctx.params.get("max_lexemes", 2))
    kinds = _RTF_LEXEME_KINDS
    src = "" if ctx.concrete else S.CharStr("")
    expected = []              # code points (python int / z3 term)
    free = []                  # indices in `expected` left unconstrained (undefined code page bytes)
    shape = []                 # per lexeme: (kind, escaped character or None, "is a blank": bool / z3 Bool)
    for i in range(K):
        if i == 0 and "kind0" in ctx.params:
            kind = kinds[ctx.params["kind0"]]
        else:
            kind = kinds[ctx.choice(f"kind{i}", len(kinds))]
        if kind == "plain":
            t = ctx.fresh_chars(f"plain{i}", 1, 32, 126)
            if ctx.concrete:
                ctx.assume(t not in "\\{}")
                expected.append(ord(t))
                shape.append((kind, None, t == " "))
            else:
                ctx.assume(z3.And(*[t.c[0].z != ord(x) for x in "\\{}"]))
                expected.append(t.c[0].z)
                shape.append((kind, None, t.c[0].z == 32))
            src = src + t
        elif kind == "hex":
            (c1, v1), (c2, v2) = _hex_digit(ctx, f"hex{i}a"), _hex_digit(ctx, f"hex{i}b")
            byte = v1 * 16 + v2
            if ctx.concrete:
                ctx.assume(byte >= 32)
                cp = byte if not (0x80 <= byte <= 0x9F) else _CP1252_HIGH[byte - 0x80]
                if cp is None:
                    free.append(len(expected))
                    cp = byte
                expected.append(cp)
            else:
                ctx.assume(byte.z >= 32)
                # undefined bytes of the code page: nothing is demanded (path aborted for simplicity)
                ctx.assume(z3.And(*[byte.z != 0x80 + k for k, v in enumerate(_CP1252_HIGH) if v is None]))
                cp = byte.z
                for k, v in enumerate(_CP1252_HIGH):
                    if v is not None:
                        cp = z3.If(byte.z == 0x80 + k, z3.IntVal(v), cp)
                expected.append(cp)
            src = src + "\\'" + c1 + c2
            shape.append((kind, None, False))
        elif kind == "unicode":
            nd = 3 + ctx.choice(f"uni{i}_digits", 3)
            d = _alphabet(ctx, ctx.fresh_chars(f"uni{i}", nd, 48, 57), "", ((48, 57),))
            if ctx.concrete:
                ctx.assume(d[0] != "0")
                n = int(d)
                ctx.assume(n < 65536 and not (0xD800 <= n <= 0xDFFF) and n >= 32)
                expected.append(n)
            else:
                ctx.assume(d.c[0].z != 48)
                n = z3.IntVal(0)
                for ch in d.c:
                    n = n * 10 + (ch.z - 48)
                ctx.assume(z3.And(n < 65536, n >= 32, z3.Not(z3.And(n >= 0xD800, n <= 0xDFFF))))
                expected.append(n)
            src = src + "\\u" + d + "?"
            shape.append((kind, None, False))
        else:
            ch = "\\{}"[ctx.choice(f"esc{i}", 3)]
            expected.append(ord(ch))
            src = src + "\\" + ch
            shape.append((kind, ch, False))
    if _known(ctx, F_RTF_INFO_CUT):
        # excluded class (recorded finding): an escaped closing brace followed, after blanks only, by
        # a lexeme that starts with a backslash
        hits = []
        for a, (kind_a, ch_a, _) in enumerate(shape):
            if ch_a != "}":
                continue
            for b in range(a + 1, len(shape)):
                if shape[b][0] != "plain":
                    blanks = [shape[t][2] for t in range(a + 1, b)]
                    if not any(x is False for x in blanks):
                        zs = [x for x in blanks if x is not True]
                        hits.append(True if not zs else (z3.And(*zs) if len(zs) > 1 else zs[0]))
                    break
        if any(h is True for h in hits):
            ctx.assume(False)
        elif hits:
            ctx.assume(z3.Not(z3.Or(*hits)))
    fixed = dict(_FIXED)
    groups = []
    for p in props:
        groups.append(("{\\" + _RTF_KEYWORD[p] + " ") + (src if p == focus else fixed[p]) + "}")
    text = "{\\rtf1\\ansi\\ansicpg1252\\deff0{\\fonttbl{\\f0 Arial;}}{\\info"
    for g in groups:
        text = text + g
    text = text + "}\\pard\\plain x\\par}"
    try:
        if ctx.concrete:
            res = list(m.read_rtf(io.BytesIO(text.encode("ascii")), None))
            md = res[0].get_metadata()
        else:
            p = _rtf_lifted_parser(ctx, _ChrModel(ctx, False))
            if hasattr(p, "_detect_code_page"):
                p._detect_code_page(text)      # as parse() does before it reads the information group
            p._extract_metadata(text)
            md = p.metadata
    except S.Unsupported:
        raise
    except Exception as e:
        ctx.fail("metadata-reader-raised", fmt="rtf", exc=type(e).__name__, msg=str(e)[:80])
        return
    for p in props:
        rep = getattr(md, _RTF_ATTR[p], None)
        if p != focus:
            _k4_compare(ctx, rep, fixed[p], False, "property-not-reported-unchanged", fmt="rtf", prop=p)
            continue
        ctx.require(_is_text(rep), "property-not-text", prop=p)
        if ctx.perturb == "expect_upper":
            expected = [c - 32 if isinstance(c, int) and 97 <= c <= 122 else
                        (z3.If(z3.And(c >= 97, c <= 122), c - 32, c) if not isinstance(c, int) else c) for c in expected]
        exp = S.CharStr([c if isinstance(c, int) else S.SymInt(c) for c in expected])
        a, b = _strip_ws(rep), _strip_ws(exp)
        if free and ctx.concrete:
            continue
        ctx.require(_seq_eq(a, b), "property-not-reported-unchanged", fmt="rtf", prop=p,
                    source=_show(src), reported=_show(rep),
                    expected="".join(chr(c) for c in expected) if all(isinstance(c, int) for c in expected) else "<symbolic>")


def _k4r_targets():
    m = _rtf()
    return [getattr(m._RtfParser, n) for n in _rtf_lifted_names(m)
            if n not in ("_strip_rtf_simple", "_remove_ignorable_groups")]


def _k4_other_targets():
    h = _html()
    return [h._HtmlTextExtractor._extract_metadata, h._HtmlTextExtractor._get_node_text]


# =======================================================================================
# kernels
# =======================================================================================

def _k3_targets():
    m = _rtf()
    return [m._RtfParser._strip_rtf_full_with_pages, m._RtfParser._strip_rtf_simple,
            m._RtfParser._remove_ignorable_groups, m._RtfParser._is_skip_destination] + \
        [getattr(m._RtfParser, n) for n in ("_decode_hex_escape",) if hasattr(m._RtfParser, n)] + \
        [getattr(m, n) for n in ("_combine_surrogates",) if hasattr(m, n)]


KERNELS = [
    Kernel("K1", "every accessor of every unit / image / table class on arbitrary field state: total, "
                 "typed, stream at 0 with the reported length, get_dim == shape of get_table, numbers positive",
           k1_accessors, targets=_k1_targets, parts=_k1_parts,
           bounds={"quick": {"max_str": 3, "max_rows": 4}, "thorough": {"max_str": 5, "max_rows": 6}},
           perturb=[("stream_position_kept", {"cls": "DocxImage"}), ("size_plus_one", {"cls": "DocxImage"}),
                    ("columns_of_first_row", {"cls": "TableData"}), ("text_is_stripped", {"cls": "PlainTextUnit"})],
           symbolic=["every int field read by the accessor (incl. <= 0; number fields >= 1)",
                     "every character of every str field read by the accessor (tab, newline, 32..126)",
                     "the length of every table row (0 .. 2^31)"],
           choices=["accessor", "Optional field None / set", "string length", "payload b'' / b'xy'",
                    "stream position 0 .. len+1", "number of rows / list elements", "XLS row key sets",
                    "ODF svg:width / svg:height lexeme (digits x unit x junk)"],
           assumptions=["extractor-side invariants: unit / image / table number fields are >= 1 (or None where "
                        "Optional) and size_bytes == len(payload); both are established at the construction "
                        "sites, which C03 / C14 check",
                        "only the fields an accessor reads (from its own source text, transitively) are varied; "
                        "the others keep their defaults; to_json / accessors that hand self on vary all fields",
                        "fields hold values of their declared types"],
           outside=["ODF image sizes are taken from a lexeme grammar (digit-run lengths 1..400 x units x junk), "
                    "not from symbolic characters (the conversion goes through float())",
                    "JSON-serialisability of to_json() (C05)", "the Content classes (C03)"],
           stubs=["data_types.len -> symrun.sym_len (rows of symbolic length)"]),
    Kernel("K2", "file name, extension and folder derived from the path argument; all None without a path",
           k2_path_metadata, targets=_k2_targets, parts=_k2_parts,
           perturb=[("extension_without_dot", {"len": 3}), ("folder_is_full_path", {"len": 3}),
                    ("none_gives_empty_strings", {"len": -1})],
           symbolic=["every character of the path, from { / . a b ! e-acute space } (relative, absolute, "
                     "//, trailing /, ./, ../, hidden, trailing dot, several dots, archive!/member, non-ASCII)"],
           choices=["file exists", "folder exists", "path given as str or as Path object"],
           stubs=["data_types.Path -> pathlib.PurePath's own source lifted to symbolic strings (vf/lift.py) over "
                  "posixpath's own source (vf/pathmodel.py); validated against pathlib on a lattice every run",
                  "Path.exists -> symbolic answer; Path.resolve -> absolute + normalised (no symbolic links)",
                  "data_types.str -> identity on symbolic strings"],
           assumptions=["POSIX path flavour; the path names a file (it has a final component other than '..')",
                        "working directory /cwd; no symbolic links on the way (resolve == abspath + normpath)",
                        "a file that exists has an existing folder",
                        "extension of names whose only dots lead or trail ('.bashrc', 'a.', '..a'): any convention accepted"],
           outside=["Windows path flavour", "paths longer than the bound"],
           timeout={"quick": 200, "thorough": 1500}),
    Kernel("K2e", "every registered extractor hands its path argument to the metadata of every result it yields",
           k2_extractors, targets=lambda: list(_all_extractors().values()), parts=_k2e_parts,
           strength="structure", core=False,
           perturb=[("filename_expected_without_path", {"extractor": "read_plain_text"})],
           choices=["extractor (router registry)", "path form: None, relative, absolute, archive!/member, non-ASCII, "
                    "no extension, hidden file, ./ and // and compound extension"],
           assumptions=["one fixture file of the repository's test resources per extractor",
                        "archive members: named <archive path>!/<member>; without an archive path: no field "
                        "derived from the working directory"],
           outside=["results of damaged-but-accepted files"]),
    Kernel("K3", "RTF strippers never put a surrogate code point into extracted text (UTF-8 encodable)",
           k3_unicode, targets=_k3_targets, parts=_k3_parts,
           perturb=[("demand_ascii", {"site": "full", "len": 3, "prefix": "\\u", "alphabet": "num", "suffix": ""}),
                    ("without_combine_surrogates", {"site": "full", "len": 5, "prefix": "\\u", "alphabet": "num", "suffix": ""}),
                    ("without_combine_surrogates", {"site": "simple", "len": 5, "prefix": "\\u", "alphabet": "num", "suffix": ""})],
           symbolic=["every free character of the RTF fragment (digits, - ? ' space \\ { } u a f newline)",
                     "so the number N of \\uN and the byte of \\'hh are chosen by the solver"],
           stubs=["regex objects of rtf_extractor -> SymRegex over the same pattern text (stdlib parser, "
                  "backtracking order of re; validated against re)",
                  "int -> symrun.IntShadow, chr -> range-checked chr on symbolic ints",
                  "bytes([b]).decode(codec) on a symbolic byte (_decode_hex_escape) -> the codec's own 256-entry "
                  "table read off the codec at run time; lifted decoder compared with the real one on all bytes",
                  "_combine_surrogates is the module's own source lifted to symbolic strings; only the standard "
                  "library's UTF-16 surrogatepass/replace round trip inside it -> code-walking model, compared with "
                  "the codec itself on all strings of <= 4 items over a surrogate / BOM / astral alphabet in every "
                  "run (lifted vs real function: <= 3 items); concrete replay uses the real function, also through read_rtf"],
           assumptions=["input characters are no surrogates (they come out of bytes.decode)",
                        "_strip_rtf_full_with_pages / _strip_rtf_simple / _remove_ignorable_groups / "
                        "_is_skip_destination / _decode_hex_escape are the module's own source lifted to symbolic "
                        "strings; code page cp1252 (what the parser starts with)"],
           outside=["fragments longer than the bound", "doc / ppt decoders with errors='replace' (decoder contract)",
                    "7z member names (util/sevenzip.py builds names with chr() of UTF-16 code units; a name is "
                    "not a text accessor)"],
           timeout={"quick": 200, "thorough": 1500}),
    Kernel("K4", "title / author / subject / keywords / description of the properties part reported unchanged "
                 "(DOCX, PPTX, XLSX, EPUB, ODT, ODS, ODP, ODG, ODF)",
           k4_xml_properties, targets=_k4x_targets, parts=_k4x_parts,
           bounds={"quick": {"max_text": 4}, "thorough": {"max_text": 8}},
           perturb=[("expect_upper", {"fmt": "docx"})],
           symbolic=["every character (32..126) of the property under focus"],
           choices=["property under focus", "absent / empty / text / repeated element", "text length"],
           stubs=["ms_modern.*.int -> symrun.IntShadow",
                  "ODF: extract_odf_metadata runs as its own source lifted to symbolic strings (vf/lift.py) in "
                  "symbolic runs",
                  "EPUB: _EpubContext._parse_metadata runs as its own source lifted in symbolic runs",
                  "XLSX: symbolic run: _extract_metadata_from_workbook on workbook.properties as openpyxl hands it "
                  "over (attribute bag), its two date flags from _core_dates_present on the written package, as "
                  "read_xlsx does; concrete run: read_xlsx on the written package"],
           assumptions=["the properties part is written from the format specifications (ECMA-376-2 core properties, "
                        "ODF 1.2 office:meta, EPUB 3 package metadata), not from the readers' tag tables",
                        "EPUB values compare modulo surrounding white space (EPUB 3.3 trims them)",
                        "repeated ODF meta:keyword elements and repeated EPUB dc:creator / dc:subject elements are "
                        "reported joined by ', ' in document order (EPUB: blank values left out)"],
           outside=["OLE summary information (doc, xls, ppt, msg)", "PDF document information",
                    "characters outside 32..126"]),
    Kernel("K4h", "HTML: title and meta author / keywords / description reported unchanged; meta names match "
                  "ASCII case-insensitively", k4_html_properties, targets=_k4_other_targets,
           bounds={"quick": {"max_text": 3}, "thorough": {"max_text": 6}},
           perturb=["expect_upper"],
           symbolic=["every character (32..126) of the title / content under focus",
                     "every character of a meta element's name attribute"],
           choices=["property under focus", "absent / empty / text", "text length"],
           stubs=["symbolic run: the real _HtmlTreeBuilder parses the document with placeholders, which are then "
                  "replaced by symbolic strings; _extract_metadata / _get_node_text are their own source lifted; "
                  "concrete run: read_html on the written document"],
           assumptions=["values compare modulo surrounding white space"],
           outside=["characters outside 32..126", "more than one meta element of a name"]),
    Kernel("K4r", "RTF information group: title / author / subject / keywords / doccomm decoded per RTF 1.9.1",
           k4_rtf_properties, targets=_k4r_targets, parts=_k4r_parts,
           bounds={"quick": {"max_lexemes": 2}, "thorough": {"max_lexemes": 3}},
           perturb=["expect_upper"],
           symbolic=["plain characters (32..126 without \\ { })", "both hex digits of \\'hh", "the digits of \\uN"],
           choices=["property under focus and kind of the first lexeme (one part each)",
                    "number and kind of lexemes (plain, \\'hh, \\uN?, \\\\ \\{ \\})"],
           stubs=["_extract_metadata, the body scanner it calls (_strip_rtf_full_with_pages, _is_skip_destination), "
                  "_decode_hex_escape and _detect_code_page are the module's own source lifted to symbolic strings; "
                  "regex objects and re.search calls -> SymRegex; int / chr shadows",
                  "bytes([b]).decode(codec) on a symbolic byte -> the codec's own 256-entry table, read off the "
                  "codec at run time (if-chain; undefined bytes raise UnicodeDecodeError); the lifted decoder is "
                  "compared with the real one on all 256 bytes of cp1252, cp1250, cp1251, cp932, latin-1 in every run",
                  "concrete run: read_rtf on the written document"],
           assumptions=["document declares \\ansi\\ansicpg1252; bytes undefined in Windows-1252 are not judged",
                        "values compare modulo surrounding white space (as str.strip); \\uc1 (one fallback character)",
                        "the reference decoder (code page table included) is written from RTF 1.9.1 / the "
                        "Windows-1252 definition, not taken from the codec",
                        "while the recorded finding C04-rtf-info-group-cut-at-escaped-closing-brace reproduces: "
                        "values in which an escaped closing brace is followed, after blanks only, by a lexeme that "
                        "starts with a backslash are left out (nothing else is)"],
           outside=["\\~ \\_ \\- and other symbol control words inside values", "other code pages"],
           timeout={"quick": 200, "thorough": 1500}),
]

META = {
    "level_text": "The accessors of all 33 unit / image / table classes are executed on instances whose fields are "
                  "symbolic within their declared types (ints, characters, row lengths; z3 decides every comparison "
                  "in the accessors and proves get_dim == shape of get_table, positive numbers, stream at 0 with "
                  "the reported length). populate_from_path runs on paths whose every character is symbolic "
                  "(length <= 6, thorough 8) over pathlib's and posixpath's own source lifted to symbolic "
                  "strings. The RTF strippers and the RTF / HTML metadata readers run as their own lifted "
                  "source with the module's regular expressions interpreted on symbolic strings, so the solver "
                  "picks the number in \\\\uN, the byte in \\\\'hh and the letter case of a meta name; "
                  "property readers of the XML formats run on parts written from the format specifications.",
    "level_note": "Trusted: lifted pathlib/posixpath and the regex interpreter (both compared with the stdlib on a "
                  "lattice at run time), extractor-side invariants of numbers and size_bytes (checked by C03/C14), "
                  "openpyxl's reading of core.xml. Outside: OLE summary information, PDF information dictionary, "
                  "characters outside the stated ranges, inputs longer than the bounds, ODF image sizes as "
                  "symbolic characters (lexeme grammar instead).",
    "technique": "symbolic execution of the real accessors / lifted repository source on z3 Int and bounded-string "
                 "proxies (symrun), regular expressions interpreted over symbolic strings from the stdlib's own "
                 "parse tree, per-path SMT queries against reference decoders written from the specifications",
}
