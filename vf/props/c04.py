"""C04 - every result honours the common interface, for any input.

K1  accessor totality / typing on arbitrary state of every Unit/Image/Table class
K2  file metadata from the path argument (pathlib's own source lifted to symbolic strings)
K3  well-formed Unicode at the places that manufacture characters from numbers (RTF)
K4  textual document properties reported unchanged (ODF, DOCX, PPTX, XLSX, EPUB, HTML, RTF)

Regular expressions of the repository are executed on symbolic strings by SymRegex below: the
pattern text is taken from the repository's own compiled pattern object at run time, parsed by the
stdlib's parser (re._parser) and interpreted with Python's backtracking order; every character
test is a solver-decided fork.  `regex_selftest()` compares it with `re` on a lattice.
"""
import dataclasses
import inspect
import io
import re
import types
import typing

import z3

from vf.core import Kernel
from vf import symrun as S


# =======================================================================================
# regular expressions on bounded symbolic strings
# =======================================================================================

class _SymMatch:
    def __init__(self, s, start, end, groups):
        self._s, self._start, self._end, self._g = s, start, end, groups

    def group(self, i=0):
        if i == 0:
            return self._s[self._start:self._end]
        sp = self._g.get(i)
        return None if sp is None else self._s[sp[0]:sp[1]]

    def groups(self, default=None):
        n = max(self._g.get("n", 0), 0)
        return tuple(self.group(i) if self._g.get(i) is not None else default for i in range(1, n + 1))

    def start(self, i=0):
        return self._start if i == 0 else (self._g[i][0] if self._g.get(i) else -1)

    def end(self, i=0):
        return self._end if i == 0 else (self._g[i][1] if self._g.get(i) else -1)

    def span(self, i=0):
        return self.start(i), self.end(i)


def _truth(c):
    """python bool of a python bool / SymBool / z3 Bool (fork decided by the solver)"""
    if isinstance(c, bool):
        return c
    if isinstance(c, S.SymBool):
        return bool(c)
    return S.cur().decide(c)


def _zt(code):
    return code.z if isinstance(code, S.SymInt) else z3.IntVal(code)


_SPACE = [(9, 13), (28, 32), (0x85, 0x85), (0xA0, 0xA0)]
_DIGIT = [(48, 57)]
_WORD = [(48, 57), (65, 90), (95, 95), (97, 122)]


class SymRegex:
    """re.Pattern stand-in for CharStr / str subjects (match, search, finditer, sub, pattern,
    flags).  Supports literals, classes, categories \\d \\s \\w (ASCII view of the subject), '.',
    groups, alternation, greedy/lazy repeats, ^ $ \\b, look-ahead; IGNORECASE on ASCII letters."""

    def __init__(self, pattern, flags=0):
        if isinstance(pattern, re.Pattern):
            flags = pattern.flags
            pattern = pattern.pattern
        elif isinstance(pattern, S.CharStr):
            pattern = pattern.concrete()
        import re._parser as P
        import re._constants as C
        self.pattern = pattern
        self._C = C
        tree = P.parse(pattern, flags)
        self.flags = tree.state.flags
        self.groups = tree.state.groups - 1
        self._items = list(tree)
        self._ic = bool(self.flags & re.IGNORECASE)
        self._dotall = bool(self.flags & re.DOTALL)
        self._multiline = bool(self.flags & re.MULTILINE)

    # ---- character tests -----------------------------------------------------------------
    def _in_ranges(self, code, ranges):
        if isinstance(code, int):
            return any(lo <= code <= hi for lo, hi in ranges)
        t = _zt(code)
        return z3.Or(*[(t == lo) if lo == hi else z3.And(t >= lo, t <= hi) for lo, hi in ranges])

    def _lit(self, code, c):
        cands = {c}
        if self._ic and chr(c).isascii() and chr(c).isalpha():
            cands.add(ord(chr(c).swapcase()))
        if isinstance(code, int):
            return code in cands
        t = _zt(code)
        cs = sorted(cands)
        return z3.Or(*[t == x for x in cs]) if len(cs) > 1 else (t == cs[0])

    @staticmethod
    def _not(c):
        return (not c) if isinstance(c, bool) else z3.Not(c)

    @staticmethod
    def _or(parts):
        if any(p is True for p in parts):
            return True
        zs = [p for p in parts if p is not False]
        if not zs:
            return False
        return z3.Or(*zs) if len(zs) > 1 else zs[0]

    def _category(self, code, cat):
        C = self._C
        table = {C.CATEGORY_DIGIT: (_DIGIT, False), C.CATEGORY_NOT_DIGIT: (_DIGIT, True),
                 C.CATEGORY_SPACE: (_SPACE, False), C.CATEGORY_NOT_SPACE: (_SPACE, True),
                 C.CATEGORY_WORD: (_WORD, False), C.CATEGORY_NOT_WORD: (_WORD, True)}
        if cat not in table:
            raise S.Unsupported(f"regex category {cat}")
        rng, neg = table[cat]
        r = self._in_ranges(code, rng)
        return self._not(r) if neg else r

    def _class(self, code, av):
        C = self._C
        neg = False
        parts = []
        for op, a in av:
            if op is C.NEGATE:
                neg = True
            elif op is C.LITERAL:
                parts.append(self._lit(code, a))
            elif op is C.RANGE:
                lo, hi = a
                rr = [(lo, hi)]
                if self._ic:
                    for x, y, d in ((65, 90, 32), (97, 122, -32)):
                        l2, h2 = max(lo, x), min(hi, y)
                        if l2 <= h2:
                            rr.append((l2 + d, h2 + d))
                parts.append(self._in_ranges(code, rr))
            elif op is C.CATEGORY:
                parts.append(self._category(code, a))
            else:
                raise S.Unsupported(f"regex class item {op}")
        r = self._or(parts)
        return self._not(r) if neg else r

    def _ctest(self, code, op, av):
        """one character test; symbolic outcomes are decided once per path and remembered"""
        C = self._C
        if not isinstance(code, int):
            ctx = S.cur()
            cache = ctx.__dict__.setdefault("_rx_cache", {})
            key = (code.z.get_id(), op, av if op is not C.IN else id(av), self._ic, self._dotall)
            hit = cache.get(key)
            if hit is not None:
                return hit
        if op is C.LITERAL:
            ok = self._lit(code, av)
        elif op is C.NOT_LITERAL:
            ok = self._not(self._lit(code, av))
        elif op is C.ANY:
            ok = True if self._dotall else self._not(self._lit(code, 10))
        else:
            ok = self._class(code, av)
        ok = _truth(ok)
        if not isinstance(code, int):
            cache[key] = ok
        return ok

    def _is_word(self, s, i):
        if i < 0 or i >= len(s.c):
            return False
        return _truth(self._in_ranges(s.c[i], _WORD))

    # ---- backtracking matcher (continuation passing, Python's alternative order) -----------
    def _m(self, items, k, s, pos, groups, cont):
        C = self._C
        if k == len(items):
            return cont(pos, groups)
        op, av = items[k]
        n = len(s.c)
        nxt = lambda p, g: self._m(items, k + 1, s, p, g, cont)
        if op in (C.LITERAL, C.NOT_LITERAL, C.ANY, C.IN):
            if pos >= n:
                return None
            if not self._ctest(s.c[pos], op, av):
                return None
            return nxt(pos + 1, groups)
        if op is C.SUBPATTERN:
            gid, add_f, del_f, sub = av
            if add_f or del_f:
                raise S.Unsupported("regex scoped flags")
            start = pos

            def after(p, g):
                if gid is not None:
                    g = dict(g)
                    g[gid] = (start, p)
                return nxt(p, g)
            return self._m(list(sub), 0, s, pos, groups, after)
        if op is C.BRANCH:
            for alt in av[1]:
                r = self._m(list(alt), 0, s, pos, groups, nxt)
                if r is not None:
                    return r
            return None
        if op in (C.MAX_REPEAT, C.MIN_REPEAT):
            lo, hi, sub = av
            sub = list(sub)
            greedy = op is C.MAX_REPEAT

            def rep(count, p, g):
                def more():
                    if hi is not C.MAXREPEAT and count >= hi:
                        return None

                    def again(p2, g2):
                        if p2 == p and count >= lo:
                            return None          # zero-width iteration: stop repeating
                        return rep(count + 1, p2, g2)
                    return self._m(sub, 0, s, p, g, again)

                def stop():
                    return nxt(p, g) if count >= lo else None
                first, second = (more, stop) if greedy else (stop, more)
                r = first()
                return r if r is not None else second()
            return rep(0, pos, groups)
        if op is C.AT:
            if av in (C.AT_BEGINNING, C.AT_BEGINNING_STRING):
                ok = pos == 0 or (av is C.AT_BEGINNING and self._multiline and
                                  _truth(self._lit(s.c[pos - 1], 10)))
            elif av is C.AT_END_STRING:
                ok = pos == n
            elif av is C.AT_END:
                ok = pos == n or (pos == n - 1 and _truth(self._lit(s.c[pos], 10))) or \
                    (self._multiline and pos < n and _truth(self._lit(s.c[pos], 10)))
            elif av in (C.AT_BOUNDARY, C.AT_NON_BOUNDARY):
                b = self._is_word(s, pos - 1) != self._is_word(s, pos)
                ok = b if av is C.AT_BOUNDARY else not b
            else:
                raise S.Unsupported(f"regex anchor {av}")
            return nxt(pos, groups) if ok else None
        if op in (C.ASSERT, C.ASSERT_NOT):
            direction, sub = av
            if direction != 1:
                raise S.Unsupported("regex look-behind")
            r = self._m(list(sub), 0, s, pos, groups, lambda p, g: (p, g))
            if op is C.ASSERT:
                return nxt(pos, r[1]) if r is not None else None
            return nxt(pos, groups) if r is None else None
        raise S.Unsupported(f"regex construct {op}")

    # ---- public API -----------------------------------------------------------------------
    @staticmethod
    def _subject(s):
        return S.CharStr(s) if isinstance(s, str) else s

    def _match_at(self, s, pos, must_advance=False, full=False):
        def fin(p, g):
            if must_advance and p == pos:
                return None
            if full and p != len(s.c):
                return None
            return (p, g)
        r = self._m(self._items, 0, s, pos, {"n": self.groups}, fin)
        if r is None:
            return None
        return _SymMatch(s, pos, r[0], r[1])

    def match(self, s, pos=0):
        return self._match_at(self._subject(s), pos)

    def fullmatch(self, s, pos=0):
        return self._match_at(self._subject(s), pos, full=True)

    def _search(self, s, pos, must_advance=False):
        for i in range(pos, len(s.c) + 1):
            m = self._match_at(s, i, must_advance and i == pos)
            if m is not None:
                return m
        return None

    def search(self, s, pos=0):
        return self._search(self._subject(s), pos)

    def finditer(self, s, pos=0):
        s = self._subject(s)
        must = False
        while pos <= len(s.c):
            m = self._search(s, pos, must)
            if m is None:
                return
            yield m
            pos = m.end()
            must = m.end() == m.start()

    def findall(self, s):
        out = []
        for m in self.finditer(s):
            if self.groups == 0:
                out.append(m.group(0))
            elif self.groups == 1:
                out.append(m.group(1) if m.group(1) is not None else S.CharStr(""))
            else:
                out.append(m.groups(S.CharStr("")))
        return out

    def sub(self, repl, s, count=0):
        s = self._subject(s)
        if isinstance(repl, str):
            if "\\" in repl:
                raise S.Unsupported("regex sub template with escapes")
            repl = S.CharStr(repl)
        out, last = [], 0
        for m in self.finditer(s):
            out.extend(s.c[last:m.start()])
            r = repl(m) if callable(repl) else repl
            out.extend(S.CharStr._codes(r))
            last = m.end()
        out.extend(s.c[last:])
        return S.CharStr(out)

    def split(self, s):
        s = self._subject(s)
        out, last = [], 0
        for m in self.finditer(s):
            out.append(S.CharStr(s.c[last:m.start()]))
            for i in range(1, self.groups + 1):
                out.append(m.group(i))
            last = m.end()
        out.append(S.CharStr(s.c[last:]))
        return out


class SymReModule:
    """the name ``re`` as seen from lifted repository code"""
    IGNORECASE, I, DOTALL, S, MULTILINE, M = re.IGNORECASE, re.I, re.DOTALL, re.S, re.MULTILINE, re.M
    Pattern = re.Pattern
    error = re.error
    _cache = {}

    @classmethod
    def compile(cls, pattern, flags=0):
        if isinstance(pattern, S.CharStr):
            pattern = pattern.concrete()
        key = (pattern, int(flags))
        if key not in cls._cache:
            cls._cache[key] = SymRegex(pattern, int(flags))
        return cls._cache[key]

    @classmethod
    def search(cls, pattern, s, flags=0):
        return cls.compile(pattern, flags).search(s)

    @classmethod
    def match(cls, pattern, s, flags=0):
        return cls.compile(pattern, flags).match(s)

    @classmethod
    def sub(cls, pattern, repl, s, count=0, flags=0):
        return cls.compile(pattern, flags).sub(repl, s)

    @classmethod
    def finditer(cls, pattern, s, flags=0):
        return cls.compile(pattern, flags).finditer(s)

    @staticmethod
    def escape(x):
        return re.escape(x.concrete() if isinstance(x, S.CharStr) else x)


def regex_selftest(patterns, subjects):
    """translator validation: SymRegex == re on concrete subjects (search spans + groups, sub)"""
    n = 0
    for pat in patterns:
        real = pat if isinstance(pat, re.Pattern) else re.compile(pat)
        sym = SymRegex(real)
        for sub in subjects:
            a = [(m.span(), m.groups()) for m in real.finditer(sub)]
            b = [(m.span(), tuple(None if g is None else str(g) for g in m.groups()))
                 for m in sym.finditer(sub)]
            if a != b:
                raise AssertionError(f"SymRegex differs from re: {real.pattern!r} on {sub!r}: {a} vs {b}")
            ra, rb = real.sub("<>", sub), str(sym.sub("<>", sub))
            if ra != rb:
                raise AssertionError(f"SymRegex.sub differs from re: {real.pattern!r} on {sub!r}: {ra!r} vs {rb!r}")
            n += 1
    return n


# =======================================================================================
# shared helpers
# =======================================================================================

def _known(ctx, fid):
    return fid in ctx.params.get("known_active", [])


def _codes(x):
    """list of character codes (python ints / SymInt) of a str or CharStr"""
    if isinstance(x, S.CharStr):
        return list(x.c)
    return [ord(ch) for ch in x]


def _is_text(x):
    """str, or the engine's stand-in for str"""
    return isinstance(x, (str, S.CharStr))


def _alphabet(ctx, t, singles="", ranges=()):
    """restrict every character of a fresh string to an alphabet"""
    if ctx.concrete:
        ctx.assume(all(ch in singles or any(lo <= ord(ch) <= hi for lo, hi in ranges) for ch in t))
        return t
    if t.c:
        ctx.assume(z3.And(*[z3.Or(*([ch.z == ord(a) for a in singles] +
                                    [z3.And(ch.z >= lo, ch.z <= hi) for lo, hi in ranges])) for ch in t.c]))
    return t


def _seq_eq(a, b):
    """equality of two character sequences -> python bool or z3 Bool"""
    ca, cb = _codes(a), _codes(b)
    if len(ca) != len(cb):
        return False
    parts = []
    for x, y in zip(ca, cb):
        if isinstance(x, int) and isinstance(y, int):
            if x != y:
                return False
            continue
        parts.append(_zt(x) == _zt(y))
    if not parts:
        return True
    return z3.And(*parts) if len(parts) > 1 else parts[0]


def _show(x):
    if isinstance(x, S.CharStr):
        c = x.concrete()
        return c if c is not None else "<symbolic len=%d>" % len(x.c)
    return x


# =======================================================================================
# K3  well-formed Unicode at the decoders that manufacture characters from numbers
# =======================================================================================

F_RTF_SURR = "C04-rtf-unicode-escape-yields-surrogates"
_SURR_LO, _SURR_HI = 0xD800, 0xDFFF


def _rtf():
    from sharepoint2text.parsing.extractors.ms_legacy import rtf_extractor as m
    return m


class _ChrModel:
    """builtin chr on symbolic ints: ValueError outside range(0x110000) like the builtin; when the
    known finding is active, code points in the surrogate block coming out of chr() are excluded
    (the solver has to find ill-formed output from somewhere else)"""

    def __init__(self, ctx, exclude_surrogates):
        self.ctx, self.excl = ctx, exclude_surrogates
        self.calls = 0

    def __call__(self, x):
        self.calls += 1
        if isinstance(x, S.SymInt):
            if not self.ctx.decide(z3.And(x.z >= 0, x.z < 0x110000)):
                raise ValueError("chr() arg not in range(0x110000)")
            if self.excl:
                self.ctx.assume(z3.Not(z3.And(x.z >= _SURR_LO, x.z <= _SURR_HI)))
            return S.CharStr([x])
        return S.CharStr([ord(chr(x))])


_RTF_REGEX_GLOBALS = ("_RE_UNICODE", "_RE_HEX_ESCAPE", "_RE_CONTROL_WORD", "_RE_MULTI_SPACE",
                      "_RE_MULTI_NEWLINE", "_RE_CONTROL_SEQ", "_RE_INFO", "_RE_INFO_ALT")


class _Late:
    """callable global of a lifted namespace whose target is set per explored path"""

    def __init__(self):
        self.target = None

    def __call__(self, *a, **k):
        return self.target(*a, **k)


_RTF_LIFT = {}


def _rtf_lifted_parser(ctx, chr_model):
    """an _RtfParser whose text-stripping methods are the module's own source lifted to symbolic
    strings; regex objects -> SymRegex over the same pattern text (lifted once per process)"""
    from vf import lift
    m = _rtf()
    L = _RTF_LIFT
    if not L:
        L["chr"] = _Late()
        ns = dict(int=S.IntShadow, chr=L["chr"], re=SymReModule, len=len)
        for g in _RTF_REGEX_GLOBALS:
            ns[g] = SymRegex(getattr(m, g))
        for name in ("_strip_rtf_full_with_pages", "_remove_ignorable_groups", "_is_skip_destination",
                     "_strip_rtf_simple", "_extract_metadata"):
            L[name] = lift.lift(getattr(m._RtfParser, name), **ns)
        p0 = object.__new__(m._RtfParser)
        m._RtfParser.__init__(p0, b"")
        L["special"] = [(SymRegex(rx), S.CharStr(ch)) for rx, ch in p0._special_char_patterns]
    L["chr"].target = chr_model
    p = object.__new__(m._RtfParser)
    p.data = b""
    p.pages = []
    p.metadata = m.RtfMetadata()
    p._is_skip_destination = lambda ahead: L["_is_skip_destination"](p, ahead)
    p._remove_ignorable_groups = lambda t: L["_remove_ignorable_groups"](p, t)
    p._strip_rtf_full_with_pages = lambda t: L["_strip_rtf_full_with_pages"](p, t)
    p._strip_rtf_simple = lambda t: L["_strip_rtf_simple"](p, t)
    p._extract_metadata = lambda t: L["_extract_metadata"](p, t)
    p._special_char_patterns = L["special"]
    ctx.hash_universe = set(m._RtfParser.SPECIAL_CHARS)
    return p


_K3_SINGLES = "\\-?' {}uaf\n"
_K3_RANGES = ((48, 57),)


def k3_unicode(ctx):
    """every character of the stripper's output (return value and pages) is outside the surrogate
    block, i.e. the text is encodable as UTF-8.  The input characters themselves are outside it (they
    come from a bytes.decode)."""
    m = _rtf()
    site = ctx.params["site"]
    n = ctx.params["len"]
    prefix = ctx.params.get("prefix", "")
    ctx.decision_memo = {}
    if ctx.params.get("alphabet") == "num":
        free = _alphabet(ctx, ctx.fresh_chars("t", n, 1, 126), "-", _K3_RANGES)
    else:
        free = _alphabet(ctx, ctx.fresh_chars("t", n, 1, 126), _K3_SINGLES, _K3_RANGES)
    text = prefix + free + ctx.params.get("suffix", "")
    if ctx.concrete:
        p = m._RtfParser(b"")
    else:
        p = _rtf_lifted_parser(ctx, _ChrModel(ctx, _known(ctx, F_RTF_SURR)))
    try:
        if site == "full":
            out = [p._strip_rtf_full_with_pages(text)] + list(p.pages)
        else:
            out = [p._strip_rtf_simple(text)]
    except ValueError as e:
        # int() of an absurdly long digit run etc.; parse() has a fallback - not this kernel's subject
        ctx.require(True, "stripper-raised-valueerror")
        return
    bad = []
    for piece in out:
        ctx.require(_is_text(piece), "stripper-output-not-text", got=type(piece).__name__)
        for c in _codes(piece):
            if isinstance(c, int):
                if _SURR_LO <= c <= _SURR_HI or ctx.perturb == "demand_ascii" and c > 127:
                    bad.append(True)
            else:
                hi = 127 if ctx.perturb == "demand_ascii" else None
                bad.append(z3.And(c.z >= _SURR_LO, c.z <= _SURR_HI) if hi is None else c.z > hi)
    info = {}
    if ctx.concrete and bad:
        # the same input through the public entry point
        doc = ("{\\rtf1\\ansi " + text + "}").encode("latin-1")
        try:
            res = list(m.read_rtf(io.BytesIO(doc), "x.rtf"))
            full = res[0].get_full_text()
            try:
                full.encode("utf-8")
                for u in res[0].iterate_units():
                    u.get_text().encode("utf-8")
                info["read_rtf"] = "encodes"
            except UnicodeEncodeError as e:
                info["read_rtf"] = "get_full_text()/unit text not encodable as UTF-8: " + str(e)[:80]
        except Exception as e:
            info["read_rtf"] = "raised " + type(e).__name__
        info["document"] = doc.decode("latin-1")
    if ctx.concrete:
        ctx.require(not bad, "surrogate-code-point-in-extracted-text", **info)
    else:
        ctx.require(z3.Not(z3.Or(*bad)) if bad else True, "surrogate-code-point-in-extracted-text")


def _k3_parts(tier):
    parts = []
    q = tier == "quick"
    for site in ("full", "simple"):
        # \\u + digits/minus chosen by the solver (+ the optional '?' and following text)
        for n in range(1, (6 if q else 8) + 1):
            for suffix in ("", "?x"):
                parts.append({"site": site, "len": n, "prefix": "\\u", "alphabet": "num", "suffix": suffix})
        # \\u / \\' / nothing + free characters of the RTF alphabet
        for prefix, top in (("\\u", 3 if q else 5), ("\\'", 3 if q else 4), ("", 3 if q else 5)):
            for n in range(1, top + 1):
                parts.append({"site": site, "len": n, "prefix": prefix})
    return parts


# =======================================================================================
# K1  accessor totality and typing on arbitrary state
# =======================================================================================

F_ODF_SIZE = "C04-odf-image-size-overflow"

_UNIT_ACC = ("get_text", "get_images", "get_tables", "get_metadata", "to_json")
_IMAGE_ACC = ("get_bytes", "get_content_type", "get_caption", "get_description", "get_metadata")
_TABLE_ACC = ("get_table", "get_dim")
# fields that carry a 1-based unit / image / table number (extractor-side invariant: >= 1, or None
# where Optional); the invariant is assumed here and checked at the assignment sites by C03/C14
_NUMBER_FIELDS = {"unit_number", "page_number", "slide_number", "sheet_number", "sheet_index",
                  "chapter_number", "image_number", "image_index", "index", "unit_name", "unit_index",
                  "table_index"}
_STR_LENGTHS = {("RtfImage", "image_type"): (0, 3, 4, 7)}


def _dt():
    from sharepoint2text.parsing.extractors import data_types
    return data_types


def _k1_registry():
    """{name: (kind, cls)} for every dataclass of data_types implementing a unit / image / table
    interface (discovered, so a new class joins automatically)"""
    dt = _dt()
    out = {}
    for name, cls in sorted(vars(dt).items()):
        if not inspect.isclass(cls) or cls.__module__ != dt.__name__ or not dataclasses.is_dataclass(cls):
            continue
        if getattr(cls, "_is_protocol", False):
            continue
        for kind, acc in (("unit", _UNIT_ACC), ("image", _IMAGE_ACC), ("table", _TABLE_ACC)):
            if all(callable(getattr(cls, a, None)) for a in acc):
                out[name] = (kind, cls)
                break
    return out


def _reads(cls, method, _seen=None):
    """names of the instance attributes a method reads (transitively through self.m() calls); None
    when the method hands ``self`` to something else (then every field counts)"""
    import ast
    import textwrap
    _seen = _seen or set()
    if method in _seen:
        return set()
    _seen.add(method)
    fn = getattr(cls, method)
    fn = getattr(fn, "fget", fn)
    tree = ast.parse(textwrap.dedent(inspect.getsource(fn)))
    attrs, escapes = set(), False
    owned = set()
    for node in ast.walk(tree):
        if isinstance(node, ast.Attribute) and isinstance(node.value, ast.Name) and node.value.id == "self":
            attrs.add(node.attr)
            owned.add(id(node.value))
    for node in ast.walk(tree):
        if isinstance(node, ast.Name) and node.id == "self" and id(node) not in owned:
            escapes = True
    if escapes:
        return None
    out = set()
    for a in attrs:
        member = inspect.getattr_static(cls, a, None)
        if callable(member) or isinstance(member, property):
            sub = _reads(cls, a, _seen)
            if sub is None:
                return None
            out |= sub
        else:
            out.add(a)
    return out


def _unwrap_optional(tp):
    args = typing.get_args(tp)
    if (typing.get_origin(tp) is typing.Union or isinstance(tp, types.UnionType)) and type(None) in args:
        rest = [a for a in args if a is not type(None)]
        return (rest[0] if len(rest) == 1 else typing.Union[tuple(rest)]), True
    return tp, False


class _SymRow:
    """a table row whose length is a symbolic integer (len() is shadowed by symrun.sym_len)"""

    def __init__(self, n):
        self.n = n

    def sym_len(self):
        return self.n

    def __len__(self):
        raise S.Unsupported("builtin len() of a symbolic-length row")

    def __iter__(self):
        raise S.Unsupported("iteration over a symbolic-length row")


def _odf_length_lexemes():
    """lengths per the ODF/XSL-FO 'length' lexical form (digits, optional fraction, unit) with digit
    runs up to and beyond the range of binary64, plus strings that are no lengths"""
    out = [None, "", "abc", "-1cm", "1e5cm", "1,5cm", " 7 ", "٣cm"]
    for digits in (1, 2, 17, 308, 309, 310, 400):
        for unit in ("", "px", "in", "cm", "mm", "pt", "pc", "em", "IN"):
            out.append("9" * digits + unit)
    out += ["0.5in", " 10.25 cm ", "0cm", "1" + "0" * 309 + ".5mm"]
    return out


class _Gen:
    def __init__(self, ctx, cls, symbolic):
        self.ctx, self.cls = ctx, cls
        self.symbolic = symbolic          # field names generated freely; None = all (bulk mode)
        self.bulk = symbolic is None
        self.hints = typing.get_type_hints(cls, vars(_dt()))
        self.slen = None
        self.none_all = None
        self.payload_len = None
        self.stream_pos0 = None
        self.rows = None

    def _str_len(self, name):
        opts = _STR_LENGTHS.get((self.cls.__name__, name))
        if opts:
            return opts[self.ctx.choice(f"{name}_len", len(opts))]
        if self.slen is None:
            self.slen = self.ctx.choice("str_len", self.ctx.params.get("max_str", 2) + 1)
        return self.slen

    def _text(self, name):
        n = self._str_len(name)
        return _alphabet(self.ctx, self.ctx.fresh_chars(name, n, 9, 126), "", ((9, 10), (32, 126)))

    def _none(self, name):
        if self.bulk:
            if self.none_all is None:
                self.none_all = self.ctx.flag("optionals_none")
            return self.none_all
        return self.ctx.flag(f"{name}_is_none")

    def value(self, name, tp, free):
        ctx = self.ctx
        tp, optional = _unwrap_optional(tp)
        origin = typing.get_origin(tp)
        if not free:
            return self.default(name, tp, optional)
        if optional and self._none(name):
            return None
        if (self.cls.__name__, name) in (("OpenDocumentImage", "width"), ("OpenDocumentImage", "height")):
            lex = _odf_length_lexemes()
            if _known(ctx, F_ODF_SIZE):
                lex = [x for x in lex if x is None or sum(ch.isdigit() for ch in x) < 300]
            if self.bulk or name == "height":
                return "10cm"
            return lex[ctx.choice(f"{name}_lexeme", len(lex))]
        if tp is int:
            v = ctx.fresh_int(name, -2 ** 31, 2 ** 31)
            if name in _NUMBER_FIELDS:
                ctx.assume(v >= 1)
            return v
        if tp is bool:
            return ctx.flag(name)
        if tp is float:
            return 1.5
        if tp is str:
            return self._text(name)
        if tp is bytes:
            data = (b"", b"xy")[ctx.choice(f"{name}_payload", 2)]
            self.payload_len = len(data)
            return data
        if tp is io.BytesIO:
            data = (b"", b"xy")[ctx.choice(f"{name}_payload", 2)]
            st = io.BytesIO(data)
            pos = ctx.choice(f"{name}_position", len(data) + 2)      # incl. one past the end
            st.seek(pos)
            self.payload_len, self.stream_pos0 = len(data), pos
            return st
        if origin in (list, typing.List):
            return self.list_value(name, tp)
        if tp is typing.Any:
            return "v"
        raise S.Unsupported(f"K1 generator: field {self.cls.__name__}.{name}: {tp!r}")

    def list_value(self, name, tp):
        ctx = self.ctx
        (elem,) = typing.get_args(tp) or (typing.Any,)
        eo = typing.get_origin(elem)
        if eo in (list, typing.List):                       # a table: list of rows
            inner = (typing.get_args(elem) or (typing.Any,))[0]
            if typing.get_origin(inner) in (list, typing.List):      # list of tables (EpubChapter.tables)
                k = ctx.choice(f"{name}_n_tables", 2 if self.bulk else 3)
                return [self._rows(f"{name}{i}") for i in range(k)]
            return self._rows(name)
        if eo in (dict, typing.Dict):                       # XlsSheet rows keyed by header text
            keysets = ((), ("a",), ("a", "b"), ("b",))
            k = ctx.choice(f"{name}_n_rows", ctx.params.get("max_rows", 3) + 1)
            return [{h: "v" for h in keysets[ctx.choice(f"{name}_row{i}_keys", len(keysets))]} for i in range(k)]
        k = ctx.choice(f"{name}_n", 2 if self.bulk else 3)
        return [self.element(name, elem, i) for i in range(k)]

    def _rows(self, name):
        ctx = self.ctx
        k = ctx.choice(f"{name}_n_rows", (1 if self.bulk else ctx.params.get("max_rows", 3)) + 1)
        lens = [ctx.fresh_int(f"{name}_row{i}_len", 0, 2 ** 31) for i in range(k)]
        if ctx.concrete:
            ctx.assume(all(x <= 64 for x in lens))
            return [["c"] * x for x in lens]
        return [_SymRow(x) for x in lens]

    def element(self, name, elem, i):
        dt = _dt()
        if elem is str:
            return "s%d" % i
        if elem is int:
            return i
        if inspect.isclass(elem) and dataclasses.is_dataclass(elem) and not getattr(elem, "_is_protocol", False):
            if all(callable(getattr(elem, a, None)) for a in _TABLE_ACC):
                return _Gen(self.ctx, elem, None).build_default(data=self._rows(f"{name}{i}"))
            return _Gen(self.ctx, elem, set()).build_default()
        if elem is dt.ImageInterface:
            return dt.PdfImage(index=1)
        return "e%d" % i

    def default(self, name, tp, optional):
        f = {x.name: x for x in dataclasses.fields(self.cls)}[name]
        if f.default is not dataclasses.MISSING:
            return f.default
        if f.default_factory is not dataclasses.MISSING:
            return f.default_factory()
        if optional:
            return None
        return {int: 1, str: "", bytes: b"", bool: False, float: 0.0}.get(tp, None)

    def build(self):
        kw = {}
        for f in dataclasses.fields(self.cls):
            if not f.init:
                continue
            free = self.bulk or f.name in self.symbolic
            kw[f.name] = self.value(f.name, self.hints[f.name], free)
        # extractor-side invariant: the reported size is the payload's length
        if "size_bytes" in kw and self.payload_len is not None:
            kw["size_bytes"] = self.payload_len
        return self.cls(**kw)

    def build_default(self, **over):
        kw = {}
        for f in dataclasses.fields(self.cls):
            if f.init:
                tp, opt = _unwrap_optional(self.hints[f.name])
                kw[f.name] = self.default(f.name, tp, opt)
        kw.update(over)
        return self.cls(**kw)


def _zmax(terms):
    out = z3.IntVal(0)
    for t in terms:
        out = z3.If(t > out, t, out)
    return out


def _check_table(ctx, tb, where):
    """get_dim() == (number of rows, longest row, 0 when empty) of get_table()"""
    try:
        t = tb.get_table()
        d = tb.get_dim()
    except S.Unsupported:
        raise
    except Exception as e:
        ctx.fail("accessor-raised", where=where, exc=type(e).__name__, msg=str(e)[:80])
        return
    ctx.require(isinstance(t, list), "get_table-not-a-list", where=where, got=type(t).__name__)
    ctx.require(hasattr(d, "rows") and hasattr(d, "columns"), "get_dim-not-a-TableDim", where=where)
    rows_expected = len(t)
    if ctx.perturb == "columns_of_first_row":
        lens = [S.sym_len(r) for r in t[:1]]
    else:
        lens = [S.sym_len(r) for r in t]
    ctx.require(d.rows == rows_expected, "get_dim-rows-differ-from-get_table", where=where,
                rows=_show(d.rows), expected=rows_expected)
    if all(isinstance(x, int) for x in lens):
        ctx.require(d.columns == max(lens, default=0), "get_dim-columns-differ-from-get_table", where=where)
    else:
        exp = _zmax([_zt(x) for x in lens])
        got = d.columns
        ctx.require(_zt(got) == exp, "get_dim-columns-differ-from-get_table", where=where)


def _positive_number(ctx, v, label, where, optional):
    if v is None:
        ctx.require(optional, label, where=where, got=None)
        return
    if isinstance(v, S.SymInt):
        ctx.require(v.z >= 1, label, where=where)
        return
    ctx.require(isinstance(v, int) and not isinstance(v, bool) and v >= 1, label, where=where, got=repr(v)[:40])


def k1_accessors(ctx):
    dt = _dt()
    reg = _k1_registry()
    kind, cls = reg[ctx.params["cls"]]
    accs = {"unit": _UNIT_ACC, "image": _IMAGE_ACC, "table": _TABLE_ACC}[kind]
    acc = accs[ctx.choice("accessor", len(accs))]
    where = f"{cls.__name__}.{acc}"
    ctx.decision_memo = {}
    reads = _reads(cls, acc)
    field_names = {f.name for f in dataclasses.fields(cls)}
    g = _Gen(ctx, cls, None if reads is None else (reads & field_names))
    x = g.build()
    if cls.__name__ == "RtfImage":
        ctx.hash_universe = set(cls._CONTENT_TYPES)
    with ctx.shadow(dt, len=S.sym_len):
        try:
            r = getattr(x, acc)()
            r2 = None
            if acc == "get_bytes":
                first = r.read()
                at0 = r.seek(0) == 0 and r.tell() == 0
                first_pos = 0 if at0 else -1
                r.seek(0, 2)
                r2 = getattr(x, acc)()             # once more, after the caller has consumed the stream
        except S.Unsupported:
            raise
        except Exception as e:
            ctx.fail("accessor-raised", where=where, exc=type(e).__name__, msg=str(e)[:80])
            return
        if acc in ("get_text", "get_content_type", "get_caption", "get_description"):
            ctx.require(_is_text(r), "text-accessor-not-str", where=where, got=type(r).__name__)
            if ctx.perturb == "text_is_stripped":
                ctx.require(_seq_eq(r, r.strip()), "twin", where=where)
        elif acc in ("get_images", "get_tables"):
            ctx.require(isinstance(r, list), "accessor-not-a-list", where=where, got=type(r).__name__)
            for i, el in enumerate(r):
                if acc == "get_tables":
                    _check_table(ctx, el, f"{where}[{i}]")
                else:
                    ctx.require(all(callable(getattr(el, a, None)) for a in _IMAGE_ACC),
                                "image-without-interface", where=where)
        elif acc == "to_json":
            ctx.require(isinstance(r, dict), "to_json-not-a-dict", where=where)
        elif acc == "get_metadata" and kind == "unit":
            ctx.require(hasattr(r, "unit_number"), "unit-metadata-without-number", where=where)
            _positive_number(ctx, r.unit_number, "unit-number-not-positive", where, optional=False)
        elif acc == "get_metadata" and kind == "image":
            ctx.require(isinstance(r, dt.ImageMetadata), "image-metadata-wrong-type", where=where)
            _positive_number(ctx, r.image_number, "image-number-not-positive", where, optional=False)
            _positive_number(ctx, r.unit_number, "image-unit-number-not-positive", where, optional=True)
            ctx.require(_is_text(r.content_type), "image-metadata-content-type-not-str", where=where)
        elif acc == "get_bytes":
            size = getattr(x, "size_bytes", None)
            for k, (st, data) in enumerate(((r, first), (r2, None))):
                ctx.require(all(callable(getattr(st, a, None)) for a in ("read", "seek", "tell")),
                            "get_bytes-not-a-stream", where=where, call=k)
                if data is None:
                    pos = st.tell()
                    data = st.read()
                else:
                    pos = None
                ctx.require(isinstance(data, bytes), "get_bytes-not-binary", where=where, call=k)
                if pos is not None:
                    want = g.stream_pos0 if ctx.perturb == "stream_position_kept" and g.stream_pos0 else 0
                    ctx.require(pos == want, "get_bytes-not-positioned-at-0", where=where, call=k, pos=pos)
                if size is not None:
                    want = size + (1 if ctx.perturb == "size_plus_one" else 0)
                    ctx.require(len(data) == want, "get_bytes-length-differs-from-size_bytes",
                                where=where, call=k, size=_show(size), length=len(data))
            ctx.require(r2.getvalue() == first if hasattr(r2, "getvalue") else True,
                        "get_bytes-second-call-differs", where=where)
        elif acc in ("get_table", "get_dim"):
            _check_table(ctx, x, where)
    ctx.require(True, "accessor-returned")


def _k1_parts(tier):
    return [{"cls": n} for n in sorted(_k1_registry())]


def _k1_targets():
    out = []
    for name, (kind, cls) in sorted(_k1_registry().items()):
        for a in {"unit": _UNIT_ACC, "image": _IMAGE_ACC, "table": _TABLE_ACC}[kind]:
            out.append(getattr(cls, a))
    out.append(_dt()._odf_length_to_px)
    return out


# =======================================================================================
# K2  file metadata from the path argument
# =======================================================================================

_CWD = "/cwd"
_SYMPATH = {}


def _sym_str(x=""):
    """the name ``str`` as seen from lifted / shadowed code: proxies stay proxies"""
    if isinstance(x, S.CharStr):
        return x
    if hasattr(x, "__symstr__"):
        return x.__symstr__()
    return S.CharStr(str(x))


def _sympath_class():
    """pathlib.PurePosixPath on symbolic strings: the methods populate_from_path uses (parsing, name,
    suffix, parent, str) are pathlib's OWN source lifted by vf/lift.py (string literals -> symbolic
    string constants); the flavour module is vf/pathmodel.py (posixpath's own source, lifted).  Only
    the constructor and the two file-system queries are written here (the environment model)."""
    if "cls" in _SYMPATH:
        return _SYMPATH["cls"]
    import pathlib
    from vf import lift, pathmodel
    pp = pathmodel.PosixPath(cwd=_CWD)

    class Flavour:
        sep = S.CharStr("/")
        altsep = None

        @staticmethod
        def splitroot(p):
            return pp._splitroot(pp._in(p))

        @staticmethod
        def splitdrive(p):
            return pp.splitdrive(p)

        @staticmethod
        def join(a, *p):
            return pp.join(a, *p)

    class SymPath:
        _flavour = Flavour
        env = None                      # per-path environment (exists answers), set by the harness

        def __init__(self, *args):
            paths = []
            for a in args:
                if isinstance(a, SymPath):
                    paths.extend(a._raw_paths)
                elif isinstance(a, (S.CharStr, str)):
                    paths.append(S.CharStr(a) if isinstance(a, str) else a)
                else:
                    raise TypeError("argument should be a str or an os.PathLike object")
            self._raw_paths = paths

        def __symstr__(self):
            return self.__str__()

        def __fspath__(self):
            return self.__str__()

        # -- environment ------------------------------------------------------------------
        def exists(self):
            return SymPath.env.exists(self)

        def resolve(self, strict=False):
            # no symbolic links in the modelled file system: resolve == absolute + normalised
            return SymPath(pp.abspath(self.__str__()))

    ns = dict(sys=types.SimpleNamespace(intern=lambda x: x), str=_sym_str)
    P = pathlib.PurePath
    for name in ("_parse_path", "_load_parts", "_from_parsed_parts", "_format_parsed_parts", "__str__",
                 "drive", "root", "_tail", "name", "suffix", "parent", "with_segments"):
        raw = inspect.getattr_static(P, name)
        if isinstance(raw, property):
            setattr(SymPath, name, property(lift.lift(raw.fget, **ns)))
        elif isinstance(raw, classmethod):
            setattr(SymPath, name, classmethod(lift.lift(raw.__func__, **ns)))
        else:
            setattr(SymPath, name, lift.lift(raw, **ns))
    _SYMPATH["cls"] = SymPath
    _SYMPATH["targets"] = [getattr(inspect.getattr_static(P, n), "fget", None) or
                           getattr(inspect.getattr_static(P, n), "__func__", None) or
                           inspect.getattr_static(P, n)
                           for n in ("_parse_path", "name", "suffix", "parent", "_format_parsed_parts")]
    return SymPath


def _sympath_selftest():
    """translator validation: lifted pathlib == pathlib.PurePosixPath on a lattice of paths"""
    if _SYMPATH.get("validated"):
        return _SYMPATH["validated"]
    import pathlib
    SP = _sympath_class()
    segs = ["", ".", "..", "a", "b.c", ".h", "x.", "a!b", "d.e.f", "é"]
    paths = set()
    for a in segs:
        for b in segs:
            for lead in ("", "/", "//", "///"):
                for trail in ("", "/"):
                    paths.add(lead + a + "/" + b + trail)
                    paths.add(lead + a + trail)
    n = 0
    for p in sorted(paths):
        real, sym = pathlib.PurePosixPath(p), SP(p)
        got = (str(sym.name), str(sym.suffix), str(sym.__str__()), str(sym.parent.__str__()),
               str(sym.resolve().__str__()), str(sym.parent.resolve().__str__()))
        import posixpath
        exp = (real.name, real.suffix, str(real), str(real.parent),
               posixpath.normpath(posixpath.join(_CWD, str(real))),
               posixpath.normpath(posixpath.join(_CWD, str(real.parent))))
        if got != exp:
            raise AssertionError(f"lifted pathlib differs on {p!r}: {got} vs {exp}")
        n += 1
    _SYMPATH["validated"] = n
    return n


class _FsEnv:
    """the file system as far as populate_from_path can see it: one answer per exists() question,
    in the order asked (the file first, then its folder)"""

    def __init__(self, answers):
        self.answers = list(answers)
        self.asked = 0

    def exists(self, p):
        i = min(self.asked, len(self.answers) - 1)
        self.asked += 1
        return self.answers[i]


def _ref_components(path):
    """(absolute?, components) of a POSIX path, written from POSIX pathname resolution: empty
    components and '.' components carry no meaning.  Works on str and CharStr (comparisons fork)."""
    n = len(path)
    lead = 0
    while lead < n and path[lead] == "/":
        lead += 1
    comps = []
    for c in path.split("/"):
        if len(c) == 0:
            continue
        if len(c) == 1 and c == ".":
            continue
        comps.append(c)
    return lead, comps


def _ref_extension_candidates(name):
    """the extension of a file name: from its last dot on, when that dot is neither the first nor
    the last character.  For names whose only dots lead or trail ('.bashrc', 'a.', '..a') conventions
    differ (none / the dot / the rest): every convention is accepted."""
    n = len(name)
    last = -1
    for i in range(n - 1, -1, -1):
        if name[i] == ".":
            last = i
            break
    if last < 0:
        return [""]
    lead = 0
    while lead < n and name[lead] == ".":
        lead += 1
    if last == n - 1:
        return ["", "."]
    if last < lead:                       # only leading dots before the last one: '.bashrc', '..a'
        return ["", name[last:]] if last > 0 else [""]
    return [name[last:]]


def _ref_resolve(lead, comps, cwd):
    """absolute, normalised form in a file system without symbolic links"""
    stack = [] if lead else [c for c in cwd.split("/") if c]
    for c in comps:
        if len(c) == 2 and c == "..":
            if stack:
                stack.pop()
        else:
            stack.append(c)
    root = "//" if lead == 2 else "/"
    out = root
    for i, c in enumerate(stack):
        out = out + ("/" if i else "") + c
    return out


def _ref_join(lead, comps):
    root = "" if lead == 0 else ("//" if lead == 2 else "/")
    out = root
    for i, c in enumerate(comps):
        out = out + ("/" if i else "") + c
    return out


_K2_SINGLES = "/.ab!é "


def k2_path_metadata(ctx):
    dt = _dt()
    import pathlib
    ctx.decision_memo = {}
    n = ctx.params["len"]
    md = dt.FileMetadataInterface()
    if n < 0:
        # no path given
        try:
            md.populate_from_path(None)
        except Exception as e:
            ctx.fail("populate_from_path-raised", exc=type(e).__name__)
        vals = (md.filename, md.file_extension, md.file_path, md.folder_path)
        if ctx.perturb == "none_gives_empty_strings":
            ctx.require(all(v == "" for v in vals), "twin")
        ctx.require(all(v is None for v in vals), "path-fields-not-none-without-path", got=repr(vals))
        return
    path = _alphabet(ctx, ctx.fresh_chars("path", n, 1, 255), _K2_SINGLES)
    file_exists = ctx.flag("file_exists")
    folder_exists = ctx.flag("folder_exists")
    ctx.assume(folder_exists or not file_exists)
    lead, comps = _ref_components(path)
    # the path names a file: it has a final component, which is not '..'
    ctx.assume(len(comps) > 0)
    last = comps[-1]
    ctx.assume(not (len(last) == 2 and last == ".."))
    as_object = ctx.flag("given_as_path_object")
    env = _FsEnv([file_exists, folder_exists])
    try:
        if ctx.concrete:
            arg = pathlib.Path(path) if as_object else path
            cwd = _CWD
            import posixpath
            with ctx.stub(pathlib.Path, exists=lambda self: env.exists(self),
                          resolve=lambda self, strict=False: pathlib.Path(
                              posixpath.normpath(posixpath.join(cwd, str(self))))):
                md.populate_from_path(arg)
        else:
            _sympath_selftest()
            SP = _sympath_class()
            SP.env = env
            arg = SP(path) if as_object else path
            with ctx.shadow(dt, Path=SP, str=_sym_str):
                md.populate_from_path(arg)
    except S.Unsupported:
        raise
    except Exception as e:
        ctx.fail("populate_from_path-raised", exc=type(e).__name__, msg=str(e)[:80])
        return
    for nm in ("filename", "file_extension", "file_path", "folder_path"):
        ctx.require(_is_text(getattr(md, nm)), "path-field-not-str", field=nm, got=type(getattr(md, nm)).__name__)
    # file name = the final component
    ctx.require(_seq_eq(md.filename, last), "filename-is-not-the-final-component",
                filename=_show(md.filename), path=_show(path))
    # extension
    cands = _ref_extension_candidates(last)
    if ctx.perturb == "extension_without_dot":
        cands = [c[1:] if len(c) else c for c in cands]
    oks = [_seq_eq(md.file_extension, c) for c in cands]
    ok = True if any(o is True for o in oks) else [o for o in oks if o is not False]
    ctx.require(ok if ok is True else (z3.Or(*ok) if ok else False), "extension-differs-from-file-name-suffix",
                extension=_show(md.file_extension), path=_show(path))
    # folder = everything before the final component (resolved against the working directory when
    # it exists); a relative single-component path has the current directory as folder
    if folder_exists:
        want = [_ref_resolve(lead, comps[:-1], _CWD)]
    else:
        j = _ref_join(lead, comps[:-1])
        want = [j] if len(j) else [".", ""]
    if ctx.perturb == "folder_is_full_path":
        want = [_ref_join(lead, comps)]
    oks = [_seq_eq(md.folder_path, w) for w in want]
    ok = True if any(o is True for o in oks) else [o for o in oks if o is not False]
    ctx.require(ok if ok is True else (z3.Or(*ok) if ok else False), "folder-differs-from-path-without-final-component",
                folder=_show(md.folder_path), path=_show(path), folder_exists=folder_exists)


def _k2_parts(tier):
    top = 6 if tier == "quick" else 8
    return [{"len": n} for n in range(-1, top + 1) if n != 0]


def _k2_targets():
    _sympath_class()
    return [_dt().FileMetadataInterface.populate_from_path] + _SYMPATH["targets"]
