"""C16 - e-mail: headers, bodies, attachments and mailbox boundaries are exact.

Header/body/attachment DECODING is done by email / mail-parser / msg_parser / binascii (not
repository code).  What the repository itself decides is encoded here:

K1   separator language: the LIVE ``MBOX_FROM_PATTERN`` (its sre parse tree) is turned into a z3
     formula over bounded symbolic mailbox bytes (position-set simulation).  K1a proves per line window
     that a match is always one whole line that starts at a line start with ``From ``, never inside a
     ``>From `` line, and that every RFC 4155 separator line is matched.  K1b runs the REAL
     ``_split_mbox_messages`` on symbolic mailboxes with that formula model as the pattern object; the
     solver decides which lines are separators and how far the CR/LF tail of a message reaches.
K2   attachment routing: the REAL ``EmailContent.iterate_supported_attachments`` + router on symbolic
     attachment names / MIME types (C07's shadows), recording extractors, stand-in stream.
K3r  MSG recipient parsing: ``_parse_multi_recipients`` / ``_parse_single_recipient`` lifted to
     symbolic strings (their ``re`` calls run on a backtracking interpreter of the same patterns).
K3a  mbox address/text headers: parse_email_addresses / parse_email_address / decode_header_value on every
     display name over an alphabet of address specials + a non-ASCII letter, in every standard rendering
     (quoted-string, b/q encoded words, generator folding) - exhaustive enumeration (structure strength).
K3   mapping plumbing of the three extractors on fake parser objects (structure choices).
K4   generated messages (stdlib email generator) through the public entry points (structure choices).
"""
import base64
import io
import re
import sys
import types

import z3

from vf.core import Kernel
from vf import symrun as S


def _mbox():
    import sharepoint2text.parsing.extractors.mail.mbox_email_extractor as m
    return m


def _eml():
    import sharepoint2text.parsing.extractors.mail.eml_email_extractor as m
    return m


def _msg():
    import sharepoint2text.parsing.extractors.mail.msg_email_extractor as m
    return m


def _dt():
    import sharepoint2text.parsing.extractors.data_types as m
    return m


# =======================================================================================
# regular expressions on bounded symbolic sequences
# =======================================================================================
# Elements of a sequence are python ints or S.SymInt (``_B`` = SymInt that is known never to take
# some values, so that tests against those values are decided syntactically).

class _B(S.SymInt):
    def __init__(self, z, excl=()):
        S.SymInt.__init__(self, z)
        self.excl = frozenset(excl)


def _and(*xs):
    zs = []
    for x in xs:
        if x is False:
            return False
        if x is True:
            continue
        zs.append(x)
    if not zs:
        return True
    return z3.And(*zs) if len(zs) > 1 else zs[0]


def _or(*xs):
    zs = []
    for x in xs:
        if x is True:
            return True
        if x is False:
            continue
        zs.append(x)
    if not zs:
        return False
    return z3.Or(*zs) if len(zs) > 1 else zs[0]


def _not(x):
    if x is True:
        return False
    if x is False:
        return True
    return z3.Not(x)


def _eq(b, c):
    if isinstance(b, int):
        return b == c
    if isinstance(b, _B) and c in b.excl:
        return False
    return b.z == c


def _in_range(b, lo, hi):
    if isinstance(b, int):
        return lo <= b <= hi
    if isinstance(b, _B) and all(v in b.excl for v in range(lo, hi + 1)) and hi - lo < 4:
        return False
    return z3.And(b.z >= lo, b.z <= hi) if lo != hi else (b.z == lo)


def _parse(pattern, flags=0):
    import re._parser as P
    return P.parse(pattern, flags)


class _View:
    """a sequence seen by the simulation: get(p) is the element or None outside; remembers how far it looked"""
    __slots__ = ("d", "n", "lo", "hi")

    def __init__(self, d):
        self.d, self.n, self.lo, self.hi = d, len(d), None, None

    def get(self, p):
        if self.lo is None or p < self.lo:
            self.lo = p
        if self.hi is None or p > self.hi:
            self.hi = p
        return self.d[p] if 0 <= p < self.n else None


class _Rx:
    """a compiled ``re`` pattern (or pattern text) as its sre parse tree; ``is_bytes`` selects the
    ASCII character categories of bytes patterns (str patterns: the harnesses bound characters to
    printable ASCII, where both agree)"""

    def __init__(self, pattern, flags=0):
        if hasattr(pattern, "pattern"):
            flags = pattern.flags
            pattern = pattern.pattern
        self.text = pattern
        self.tree = _parse(pattern, flags)
        self.flags = self.tree.state.flags | flags
        self.multiline = bool(self.flags & re.MULTILINE)
        self.dotall = bool(self.flags & re.DOTALL)
        if self.flags & re.IGNORECASE:
            S._unsupported("regex model: IGNORECASE")
        self.items = list(self.tree)

    # ---- character tests: python bool or z3 Bool ----------------------------------------------
    _CATS = {
        "CATEGORY_DIGIT": ([(48, 57)], False), "CATEGORY_NOT_DIGIT": ([(48, 57)], True),
        "CATEGORY_SPACE": ([(9, 13), (32, 32)], False), "CATEGORY_NOT_SPACE": ([(9, 13), (32, 32)], True),
        "CATEGORY_WORD": ([(48, 57), (65, 90), (95, 95), (97, 122)], False),
        "CATEGORY_NOT_WORD": ([(48, 57), (65, 90), (95, 95), (97, 122)], True),
    }

    def test(self, op, av, b):
        if isinstance(b, int):
            return self._test(op, av, b)
        key = (b.z.get_id(), str(op), repr(av))
        hit = _TEST_CACHE.get(key)
        if hit is None:
            if len(_TEST_CACHE) > 200000:
                _TEST_CACHE.clear()
            hit = _TEST_CACHE[key] = (self._test(op, av, b), b)
        return hit[0]

    def _test(self, op, av, b):
        name = str(op)
        if name == "LITERAL":
            return _eq(b, av)
        if name == "NOT_LITERAL":
            return _not(_eq(b, av))
        if name == "ANY":
            return True if self.dotall else _not(_eq(b, 10))
        if name == "IN":
            neg = False
            parts = []
            for o, a in av:
                o = str(o)
                if o == "NEGATE":
                    neg = True
                elif o == "LITERAL":
                    parts.append(_eq(b, a))
                elif o == "RANGE":
                    parts.append(_in_range(b, a[0], a[1]))
                elif o == "CATEGORY":
                    ranges, cneg = self._CATS[str(a)]
                    r = _or(*[_in_range(b, lo, hi) for lo, hi in ranges])
                    parts.append(_not(r) if cneg else r)
                else:
                    S._unsupported("regex model: set item %s" % o)
            r = _or(*parts)
            return _not(r) if neg else r
        S._unsupported("regex model: %s" % name)

    def at(self, code, v, p):
        code = str(code)
        if code == "AT_BEGINNING":
            prev = v.get(p - 1)
            if prev is None:
                return True
            return _eq(prev, 10) if self.multiline else False
        if code == "AT_BEGINNING_STRING":
            return v.get(p - 1) is None
        if code == "AT_END":
            here = v.get(p)
            if here is None:
                return True
            if self.multiline:
                return _eq(here, 10)
            return _eq(here, 10) if v.get(p + 1) is None else False
        if code == "AT_END_STRING":
            return v.get(p) is None
        S._unsupported("regex model: anchor %s" % code)

    # ---- position-set simulation: {end position: condition} -----------------------------------
    @staticmethod
    def seq_key(data):
        return tuple(e if isinstance(e, int) else ("z", e.z.get_id()) for e in data)

    def ends(self, data, starts, items=None, data_key=None):
        """starts: {pos: cond}.  Returns {pos: cond}: the pattern (sequence ``items``) can match
        data[s:pos] for a start s with cond(s).  Boolean acceptance only (no priorities).
        Top-level calls from a single unconditional start are cached across paths, keyed by the elements
        the simulation actually looked at (z3 constants of equal name are the same term, so the formula
        over an equal window is the same formula)."""
        if not (items is None and len(starts) == 1 and next(iter(starts.values())) is True):
            return self._ends(_View(data), starts, self.items if items is None else items)
        i = next(iter(starts))
        dk = data_key if data_key is not None else self.seq_key(data)
        n = len(data)
        bucket = _ENDS_CACHE.setdefault((self.text, self.flags), ({}, set()))
        for lo, hi in bucket[1]:
            key = (lo, hi, tuple(dk[q] if 0 <= q < n else None for q in range(i + lo, i + hi + 1)))
            hit = bucket[0].get(key)
            if hit is not None:
                return {i + r: c for r, c in hit[0].items()}
        v = _View(data)
        out = self._ends(v, starts, self.items)
        lo, hi = (0, -1) if v.lo is None else (v.lo - i, v.hi - i)
        key = (lo, hi, tuple(dk[q] if 0 <= q < n else None for q in range(i + lo, i + hi + 1)))
        if len(bucket[0]) > 50000:
            bucket[0].clear()
            bucket[1].clear()
        bucket[1].add((lo, hi))
        bucket[0][key] = ({e - i: c for e, c in out.items()}, list(data[max(0, i + lo):i + hi + 1]))   # keeps terms alive
        return out

    def _single(self, sub):
        return len(sub) == 1 and str(sub[0][0]) in ("LITERAL", "NOT_LITERAL", "ANY", "IN")

    def _ends(self, v, starts, items):
        from re._constants import MAXREPEAT
        cur = dict(starts)
        for op, av in items:
            name = str(op)
            nxt = {}

            def put(p, c, nxt=nxt):
                if c is False:
                    return
                nxt[p] = _or(nxt[p], c) if p in nxt else c
            if name in ("LITERAL", "NOT_LITERAL", "ANY", "IN"):
                for p, c in cur.items():
                    e = v.get(p)
                    if e is not None:
                        put(p + 1, _and(c, self.test(op, av, e)))
            elif name == "AT":
                for p, c in cur.items():
                    put(p, _and(c, self.at(av, v, p)))
            elif name == "SUBPATTERN":
                for p, c in self._ends(v, cur, av[3]).items():
                    put(p, c)
            elif name == "BRANCH":
                for alt in av[1]:
                    for p, c in self._ends(v, cur, alt).items():
                        put(p, c)
            elif name in ("MAX_REPEAT", "MIN_REPEAT"):
                lo, hi, sub = av
                if lo <= 1 and hi >= MAXREPEAT and self._single(sub) and cur:
                    # x* / x+ of a single character test: linear closure
                    sop, sav = sub[0]
                    reach = False
                    p, last_start = min(cur), max(cur)
                    while True:
                        # reach = "some start < p is connected to p by matching characters"
                        here = _or(cur.get(p, False), reach)
                        if lo == 0:
                            put(p, here)
                        elif reach is not False:
                            put(p, reach)
                        if here is False:
                            if p >= last_start:
                                break
                            reach = False
                            p += 1
                            continue
                        e = v.get(p)
                        if e is None:
                            break
                        reach = _and(here, self.test(sop, sav, e))
                        p += 1
                    cur = nxt
                    if not cur:
                        break
                    continue
                if lo == 0:
                    for p, c in cur.items():
                        put(p, c)
                step = cur
                t = 0
                while step and t < hi and t <= v.n + 1:
                    step = self._ends(v, step, sub)
                    t += 1
                    if t >= lo:
                        for p, c in step.items():
                            put(p, c)
            else:
                S._unsupported("regex model: %s" % name)
            cur = nxt
            if not cur:
                break
        return cur

    # ---- backtracking interpreter (re's own priorities; character tests fork) -----------------
    def _bt(self, data, items, idx, pos, groups, cont):
        """data: a _View"""
        if idx == len(items):
            return cont(pos, groups)
        op, av = items[idx]
        name = str(op)
        if name in ("LITERAL", "NOT_LITERAL", "ANY", "IN"):
            e = data.get(pos)
            if e is not None and _truth(self.test(op, av, e)):
                return self._bt(data, items, idx + 1, pos + 1, groups, cont)
            return None
        if name == "AT":
            if _truth(self.at(av, data, pos)):
                return self._bt(data, items, idx + 1, pos, groups, cont)
            return None
        if name == "SUBPATTERN":
            g, sub = av[0], av[3]

            def after(p, gs):
                if g is not None:
                    gs = dict(gs)
                    gs[g] = (pos, p)
                return self._bt(data, items, idx + 1, p, gs, cont)
            return self._bt(data, sub, 0, pos, groups, after)
        if name == "BRANCH":
            for alt in av[1]:
                r = self._bt(data, alt, 0, pos, groups,
                             lambda p, gs: self._bt(data, items, idx + 1, p, gs, cont))
                if r is not None:
                    return r
            return None
        if name in ("MAX_REPEAT", "MIN_REPEAT"):
            lo, hi, sub = av
            greedy = name == "MAX_REPEAT"

            def rep(count, p, gs):
                def more():
                    if count >= hi:
                        return None
                    return self._bt(data, sub, 0, p, gs,
                                    lambda p2, gs2: rep(count + 1, p2, gs2) if (p2 != p or count < lo) else None)

                def stop():
                    if count < lo:
                        return None
                    return self._bt(data, items, idx + 1, p, gs, cont)
                for f in ((more, stop) if greedy else (stop, more)):
                    r = f()
                    if r is not None:
                        return r
                return None
            return rep(0, pos, groups)
        S._unsupported("regex model: %s" % name)

    def search_bt(self, data, start=0):
        """leftmost match with re's priorities: (start, end, groups) or None"""
        v = _View(data)
        for i in range(start, len(data) + 1):
            r = self._bt(v, self.items, 0, i, {}, lambda p, gs: (p, gs))
            if r is not None:
                return i, r[0], r[1]
        return None


_ENDS_CACHE = {}
_TEST_CACHE = {}


def _truth(c):
    """python bool of a condition; a symbolic one forks (decided by the solver)"""
    if c is True or c is False:
        return c
    return bool(S.SymBool(c))


# =======================================================================================
# K1  mbox separator language
# =======================================================================================
# RFC 4155 (the application/mbox registration), "default mbox format": a separator line is the exact
# characters "From", one space, the sender's addr-spec, one space, a timestamp in the UNIX ctime()
# form without time zone, an end-of-line marker.  ctime(): "Www Mmm dd hh:mm:ss yyyy", day of month
# padded with a space.  (addr-spec without quoted strings: printable ASCII without white space.)
WF_SEPARATOR = (rb"From [!-~]+ (Mon|Tue|Wed|Thu|Fri|Sat|Sun) "
                rb"(Jan|Feb|Mar|Apr|May|Jun|Jul|Aug|Sep|Oct|Nov|Dec) [ 0-3][0-9] "
                rb"[0-2][0-9]:[0-5][0-9]:[0-6][0-9] [0-9]{4}\r?\n")
WF_MIN = 5 + 1 + 1 + 24        # shortest content of a well-formed separator line (no CR)
FROM_ = b"From "


_BYTE_TERMS = {}


def _content_byte(ctx, name, cr=True):
    """any byte but LF (cr=False: and but CR)"""
    x = ctx.fresh_int(name, 0, 254 if cr else 253)
    if ctx.concrete:
        return x + (1 if x >= 10 else 0) + (1 if (x >= 12 and not cr) else 0)
    key = (x.z.get_id(), cr)
    hit = _BYTE_TERMS.get(key)
    if hit is None:
        t = x.z + z3.If(x.z >= 10, 1, 0)
        if not cr:
            t = t + z3.If(x.z >= 12, 1, 0)
        hit = _BYTE_TERMS[key] = (_B(t, {10} if cr else {10, 13}), x)
    return hit[0]


def _starts(data, pos, lit):
    if pos + len(lit) > len(data):
        return False
    return _and(*[_eq(data[pos + i], c) for i, c in enumerate(lit)])


def _zbool(c):
    return z3.BoolVal(c) if isinstance(c, bool) else c


def _lines(ctx, lens, last_open=False, inner_cr=True):
    """mailbox bytes of len(lens) lines with symbolic content and LF terminators (inner_cr=False: a CR
    only as the last content byte of a line, i.e. LF or CRLF line ends).
    Returns (data list, [(start, end_of_content, end_incl_eol)])"""
    data, spans = [], []
    for k, n in enumerate(lens):
        a = len(data)
        for i in range(n):
            data.append(_content_byte(ctx, f"l{k}[{i}]", cr=inner_cr or i == n - 1))
        b = len(data)
        if not (last_open and k == len(lens) - 1):
            data.append(10)
        spans.append((a, b, len(data)))
    return data, spans


SAMPLE_LINES = [b"From a@b.c Thu Jan  1 00:00:00 1970\n", b"From MAILER-DAEMON Fri Jan  2 03:04:05 2015\r\n",
                b">From a@b.c Thu Jan  1 00:00:00 1970\n", b"From: a@b.c\n", b"From a 2024\n", b"From 12024\n", b"From  2024\n",
                b"From a@b.c Thu Jan  1 00:00:00 1970 \n", b"From a@b.c Thu Jan  1 00:00:00 1970 +0100\n", b"from a 2024\n",
                b"xFrom a 2024\n", b"From a 2024", b"\n", b"", b"From a\t2024\r\r\n", b"From a 20245\n", b"From a 202\n",
                b"body\nFrom a 2024\nmore\n", b"body\r\nFrom a 2024\r\n", b"body\rFrom a 2024\n", b"From a\x0b2024\n"]


def _translator_validation(ctx):
    """the formula model evaluated on concrete bytes (all conditions are python bools then) must agree with re
    itself: sample lines, every separator line of the repository's own mbox fixtures, both patterns"""
    import glob
    m = _mbox()
    samples = list(SAMPLE_LINES)
    for f in sorted(glob.glob(S.REPO + "/sharepoint2text/tests/resources/**/*.mbox", recursive=True))[:4]:
        raw = open(f, "rb").read()[:4000]
        samples.append(raw[:600])
        samples += [ln + b"\n" for ln in raw.split(b"\n")[:40] if ln.startswith(b"From")]
    n_checked = 0
    for pat in (m.MBOX_FROM_PATTERN, re.compile(WF_SEPARATOR)):
        rx = _Rx(pat)
        for raw in samples:
            data = list(raw)
            for i in range(len(data) + 1):
                model = sorted(j for j, c in rx.ends(data, {i: True}).items() if c is True)
                mt = pat.match(raw, i)
                real = [] if mt is None else [mt.end()]
                if ctx.perturb == "translator_off_by_one":
                    real = [j + 1 for j in real]
                ctx.require(model == real, "regex-model-differs-from-re", pattern=repr(pat.pattern)[:40], data=repr(raw)[:60],
                            start=i, model=model, real=real)
                bt = rx.search_bt(data, i)
                sr = pat.search(raw, i)
                ctx.require((bt is None) == (sr is None) and (bt is None or (bt[0], bt[1]) == sr.span()),
                            "backtracking-model-differs-from-re", pattern=repr(pat.pattern)[:40], data=repr(raw)[:60], start=i)
                n_checked += 1
    ctx.require(n_checked > 100, "translator-validation-empty")


def k1a_language(ctx):
    """facts about the live pattern on a window of lines, every content byte symbolic"""
    m = _mbox()
    if ctx.params.get("samples"):
        return _translator_validation(ctx)
    lens = ctx.params["lens"]
    data, spans = _lines(ctx, lens)
    n = len(data)
    line_at = {a: (a, b, e) for a, b, e in spans}
    if ctx.concrete:
        raw = bytes(data)
        found = {}
        # every (start, end) at which the real pattern can match (re.match at each position finds
        # the preferred end; the pattern's last item is a literal LF so the end is unique per start)
        for i in range(n + 1):
            mt = m.MBOX_FROM_PATTERN.match(raw, i)
            if mt is not None:
                found[i] = mt.end()
        for i, j in found.items():
            ctx.require(i in line_at, "match-starts-inside-a-line", start=i, data=repr(raw))
            a, b, e = line_at[i]
            ctx.require(j == e, "match-is-not-one-whole-line", start=i, end=j, data=repr(raw))
            want = b"From:" if ctx.perturb == "colon_separator" else FROM_
            ctx.require(raw[a:b].startswith(want), "matched-line-does-not-start-with-From_", data=repr(raw))
            ctx.require(not raw[a:b].startswith(b">From "), "match-inside-escaped-line", data=repr(raw))
        wf = re.compile(WF_SEPARATOR)
        for a, b, e in spans:
            if wf.fullmatch(raw[a:e]):
                ctx.require(found.get(a) == e, "rfc4155-separator-not-matched", line=repr(raw[a:e]))
        return
    rx = _Rx(m.MBOX_FROM_PATTERN)
    wf = _Rx(WF_SEPARATOR)
    gap_seen = False
    dk = rx.seq_key(data)
    for i in range(n + 1):
        E = rx.ends(data, {i: True}, data_key=dk)
        for j, c in sorted(E.items()):
            if c is False:
                continue
            if i not in line_at:
                ctx.require(_not(_zbool(c)), "match-starts-inside-a-line", start=i, end=j)
                continue
            a, b, e = line_at[i]
            if j != e:
                ctx.require(_not(_zbool(c)), "match-is-not-one-whole-line", start=i, end=j)
                continue
            want = b"From:" if ctx.perturb == "colon_separator" else FROM_
            ctx.require(z3.Implies(_zbool(c), _zbool(_starts(data, a, want))),
                        "matched-line-does-not-start-with-From_", line=spans.index((a, b, e)))
            ctx.require(_not(_and(_zbool(c), _zbool(_starts(data, a, b">From ")))),
                        "match-inside-escaped-line", line=spans.index((a, b, e)))
    for k, (a, b, e) in enumerate(spans):
        E = rx.ends(data, {a: True}, data_key=dk)
        code = _zbool(E.get(e, False))
        W = wf.ends(data, {a: True}, data_key=dk).get(e, False)
        if W is not False:
            ctx.require(z3.Implies(_zbool(W), code), "rfc4155-separator-not-matched", line=k)
        # information: a line that begins with "From " (a separator in the loose mboxo reading, and
        # for the stdlib mailbox module) which the pattern does not match
        loose = _starts(data, a, FROM_)
        if loose is not False and not gap_seen:
            s = ctx.solver
            s.push()
            s.add(_zbool(loose), z3.Not(code))
            if s.check() == z3.sat:
                ctx.note("information: a line starting with 'From ' exists that the pattern does not match "
                         "(no 4-digit group right before the end of line)")
                gap_seen = True
            s.pop()
    ctx.require(True, "facts-checked")


def _k1a_parts(tier):
    if tier == "quick":
        windows = [[0], [4], [5], [6], [10], [11], [12], [3, 11], [11, 3], [12, 12],
                   [WF_MIN], [WF_MIN + 1], [WF_MIN + 2], [2, WF_MIN + 1]]
    else:
        windows = [[n] for n in range(0, 20)] + [[a, b] for a in (0, 3, 11, 12) for b in (0, 3, 11, 12, 13)] + \
                  [[n] for n in range(WF_MIN - 1, WF_MIN + 8)] + [[WF_MIN + 1, WF_MIN + 2], [11, 2, 12]]
    return [{"lens": w} for w in windows] + [{"samples": True}]


class _MBytes:
    """mailbox bytes for the REAL _split_mbox_messages: concrete length, symbolic content; a slice
    remembers where it came from, rstrip forks on each trailing byte"""

    def __init__(self, elems, off=0):
        self.e = list(elems)
        self.off = off

    def __len__(self):
        return len(self.e)

    def __bool__(self):
        return len(self.e) > 0

    def __getitem__(self, i):
        if isinstance(i, slice):
            if i.step not in (None, 1):
                S._unsupported("mailbox bytes: slice step")
            a, b, _ = i.indices(len(self.e))
            return _MBytes(self.e[a:b] if b > a else [], self.off + a)
        return self.e[i]

    def rstrip(self, chars=None):
        if chars is None:
            S._unsupported("mailbox bytes: rstrip() without argument")
        j = len(self.e)
        while j > 0 and _truth(_or(*[_eq(self.e[j - 1], c) for c in bytes(chars)])):
            j -= 1
        return _MBytes(self.e[:j], self.off)

    def __eq__(self, o):
        S._unsupported("mailbox bytes: ==")

    __hash__ = None


class _SymMatch:
    def __init__(self, a, b):
        self._a, self._b = a, b

    def start(self, g=0):
        return self._a

    def end(self, g=0):
        return self._b

    def span(self, g=0):
        return self._a, self._b


class _SymPattern:
    """MBOX_FROM_PATTERN stand-in built from the live pattern: finditer over symbolic bytes.  For
    each start (left to right) the feasible ends are decided by the solver."""

    def __init__(self, live):
        self.rx = _Rx(live)
        self.pattern = live.pattern
        self.flags = live.flags

    def finditer(self, data, *a):
        if a:
            S._unsupported("pattern stand-in: finditer(pos)")
        seq = data.e if isinstance(data, _MBytes) else list(data)
        out, pos, n = [], 0, len(seq)
        dk = self.rx.seq_key(seq)
        while pos <= n:
            hit = None
            for i in range(pos, n + 1):
                E = self.rx.ends(seq, {i: True}, data_key=dk)
                true_ends = [j for j, c in sorted(E.items()) if _truth(c)]
                if len(true_ends) > 1:
                    S._unsupported("pattern stand-in: several match ends from one start (priorities not modelled)")
                if true_ends:
                    hit = (i, true_ends[0])
                    break
            if hit is None:
                break
            if hit[1] == hit[0]:
                S._unsupported("pattern stand-in: empty match")
            out.append(_SymMatch(*hit))
            pos = hit[1]
        return iter(out)


def k1b_split(ctx):
    """REAL _split_mbox_messages on a mailbox of K lines with symbolic content"""
    m = _mbox()
    lens_menu = ctx.params["menu"]
    K = ctx.params["K"]
    first = ctx.params.get("first")
    lens = []
    second = ctx.params.get("second")
    if ctx.params.get("exact"):
        nl = K
    elif second is not None:
        nl = 2 + ctx.choice("n_lines_minus_2", K - 1)
    else:
        nl = 1 + ctx.choice("n_lines_minus_1", K)
    for k in range(nl):
        if k == 0 and first is not None:
            lens.append(first)
        elif k == 1 and second is not None:
            lens.append(second)
        else:
            lens.append(lens_menu[ctx.choice(f"len{k}", len(lens_menu))])
    last_open = ctx.flag("last_line_unterminated")
    data, spans = _lines(ctx, lens, last_open, inner_cr=False)
    n = len(data)
    loose = ctx.perturb == "loose_separator"

    # ---- reference (RFC 4155 / mboxo): a separator is a line that begins with "From "; in a
    # well-formed mailbox every such line is a complete RFC 4155 separator line (body lines that
    # begin with "From " were escaped by the writer) -------------------------------------------
    if ctx.concrete:
        raw = bytes(data)
        wfre = re.compile(WF_SEPARATOR)
        is_sep = []
        for a, b, e in spans:
            fr = raw[a:b].startswith(FROM_)
            wf = bool(wfre.fullmatch(raw[a:e]))
            if not loose:
                ctx.assume((not fr) or wf)
            is_sep.append(fr)
        try:
            got = m._split_mbox_messages(raw)
        except Exception as ex:
            ctx.fail("split-raised", exc=type(ex).__name__, msg=str(ex)[:100], data=repr(raw))
        got_spans = None
    else:
        wfx = _Rx(WF_SEPARATOR)
        sym_sep = []
        dk = wfx.seq_key(data)
        for a, b, e in spans:
            fr = _starts(data, a, FROM_)
            wf = wfx.ends(data, {a: True}, data_key=dk).get(e, False) if e > b else False
            if not loose and fr is not False:
                # (always satisfiable together with everything assumed before: lines are independent;
                # added without the engine's feasibility check)
                ctx.solver.add(z3.Implies(_zbool(fr), _zbool(wf)))
            sym_sep.append(fr)
        pat = _SymPattern(m.MBOX_FROM_PATTERN)
        with ctx.shadow(m, MBOX_FROM_PATTERN=pat):
            try:
                got = m._split_mbox_messages(_MBytes(data))
            except S.Unsupported:
                raise
            except Exception as ex:
                ctx.fail("split-raised", exc=type(ex).__name__, msg=str(ex)[:100])
        is_sep = [_truth(c) for c in sym_sep]
        raw = None
    info = dict(data=repr(raw)) if raw is not None else {}
    ctx.require(isinstance(got, list), "split-does-not-return-a-list", **info)

    # ---- oracle: message i = the bytes after separator line i up to the next separator line (or
    # the end) without (at least: nothing but) a CR/LF tail; regions of CR/LF only give no message;
    # order kept; nothing else is a message --------------------------------------------------------
    sep_idx = [k for k, s in enumerate(is_sep) if s]
    j = 0
    for t, k in enumerate(sep_idx):
        ra = spans[k][2]
        if ctx.perturb == "sep_line_in_message":
            ra = spans[k][0]
        rb = spans[sep_idx[t + 1]][0] if t + 1 < len(sep_idx) else n
        blank = _and(*[_or(_eq(data[p], 13), _eq(data[p], 10)) for p in range(ra, rb)])
        if _truth(blank):
            continue
        ctx.require(j < len(got), "message-lost", message=t, **info)
        g = got[j]
        j += 1
        if ctx.concrete:
            ga, gb = ra, ra + len(g)
            ctx.require(raw[ga:gb] == g and gb <= rb, "message-is-not-the-region-after-its-separator",
                        message=t, got=repr(g[:40]), **info)
        else:
            ga, gb = g.off, g.off + len(g)
            ctx.require(ga == ra and gb <= rb, "message-is-not-the-region-after-its-separator",
                        message=t, got=[ga, gb], region=[ra, rb])
        ctx.require(gb > ga, "empty-message-returned", message=t, **info)
        tail = _and(*[_or(_eq(data[p], 13), _eq(data[p], 10)) for p in range(gb, rb)])
        ctx.require(_zbool(tail) if not ctx.concrete else tail, "message-cut-before-its-end", message=t,
                    got=[ga, gb], region=[ra, rb], **info)
    ctx.require(j == len(got), "message-invented", got=len(got), expected=j, **info)


def _k1b_parts(tier):
    if tier == "quick":
        menu, K = [0, 1, 6, WF_MIN, WF_MIN + 1], 3
    else:
        menu, K = [0, 1, 2, 6, WF_MIN, WF_MIN + 1], 4
    parts = []
    for f in menu:
        if f < WF_MIN:
            parts.append({"menu": menu, "K": K, "first": f})
        else:
            # (the long lines are the expensive ones: one part per second line as well)
            parts.append({"menu": menu, "K": 1, "first": f, "exact": True})
            parts += [{"menu": menu, "K": K, "first": f, "second": s2} for s2 in menu]
    return parts


def _k1_targets():
    return [_mbox()._split_mbox_messages]



# =======================================================================================
# K2  attachment routing
# =======================================================================================
FAKE_MOD = "vf_c16_recording_extractors"
NAME_VOCAB = ["x.tar.gz", "report.final.PDF", "noext", "archive.tar.bz2", "mail.mbox", "a.unknownext",
              "Sheet.XLSX", ".docx", "page.mhtml", "b.gz"]


# extractor behaviours: 0 one result, 1 two results, 2 none, 3 encrypted error, 4 other ExtractionError after
# the first result, 5 foreign exception at once; a part with b behaviours uses the first b of BEH_ORDER
BEH_ORDER = [0, 3, 4, 5, 1, 2]


class _Stream:
    """stand-in for the attachment's BytesIO: position is whatever seek() was given"""

    def __init__(self, idx, pos):
        self.idx, self.pos, self.seeks, self.writes = idx, pos, [], 0

    def seek(self, p, whence=0):
        if whence != 0:
            S._unsupported("stream stand-in: seek whence")
        self.seeks.append(p)
        self.pos = p
        return p

    def tell(self):
        return self.pos

    def read(self, n=-1):
        return b""

    def getvalue(self):
        return b""

    def write(self, b):
        self.writes += 1


def _fake_registry(ctx, r, log):
    """_EXTRACTOR_REGISTRY with the same keys and function names, pointing at a module of recording
    extractors.  An extractor's behaviour is chosen when it is called (ctx.choice)."""
    from sharepoint2text.parsing.exceptions import ExtractionFailedError, ExtractionFileEncryptedError
    mod = types.ModuleType(FAKE_MOD)
    n_beh = ctx.params.get("behaviours", 6)

    def make(fn_name):
        def extractor(stream, path=None):
            rec = {"fn": fn_name, "stream": stream, "path": path, "pos_at_call": stream.pos, "yielded": 0}
            log.append(rec)
            idx = getattr(stream, "idx", 0)
            nb = n_beh[min(idx, len(n_beh) - 1)] if isinstance(n_beh, list) else n_beh
            beh = BEH_ORDER[ctx.choice(f"behaviour{idx}", nb)] if nb > 1 else 0
            rec["behaviour"] = beh
            # the extractor reads: the stream is left somewhere else
            stream.pos = ctx.fresh_int(f"extractor_leaves_stream_at{getattr(stream, 'idx', 0)}", 0, 2 ** 31)
            if beh == 3:
                raise ExtractionFileEncryptedError("encrypted")
            if beh == 5:
                raise ValueError("broken attachment")
            if beh == 2:
                return
            rec["yielded"] = 1
            yield ("result", getattr(stream, "idx", 0), 0)
            if beh == 4:
                raise ExtractionFailedError("failed after the first unit")
            if beh == 1:
                rec["yielded"] = 2
                yield ("result", getattr(stream, "idx", 0), 1)
        extractor.__name__ = fn_name
        return extractor
    reg = {}
    for ft, (_m, fn) in r._EXTRACTOR_REGISTRY.items():
        if not hasattr(mod, fn):
            setattr(mod, fn, make(fn))
        reg[ft] = (FAKE_MOD, fn)
    sys.modules[FAKE_MOD] = mod
    return reg


def _mime_table_lookup(table, mime):
    """reference lookup of a (possibly symbolic) MIME string in a plain dict: forks per key of equal length"""
    if mime is None:
        return None
    if isinstance(mime, str):
        return table.get(mime)
    for k, v in table.items():
        if len(k) == len(mime) and bool(mime == k):
            return v
    return None


def k2_routing(ctx):
    from sharepoint2text.parsing import router as r
    from sharepoint2text.parsing import mime_types as mt
    from sharepoint2text.parsing.exceptions import ExtractionFileEncryptedError
    from vf.props import c07
    dt = _dt()
    table = dict(mt.MIME_TYPE_MAPPING)            # the documented MIME table (snapshot for the oracle)
    n_att = ctx.params.get("n_att", 1)
    name_len = ctx.params.get("name_len")
    mime_lens = ctx.params["mime_lens"]
    log = []
    reg = _fake_registry(ctx, r, log)
    class _Mime(c07.MimeStub):
        """C07's arbitrary MIME database; a concrete name with a documented extension gets the answer None
        without a decision (C07/K1 shows the answer cannot matter for it)"""

        def guess_type(self, arg, strict=True):
            conc = arg if isinstance(arg, str) else arg.concrete()
            if conc is not None and c07._spec_expected(conc, None) is not None:
                return (None, None)
            return c07.MimeStub.guess_type(self, arg, strict)
    mime = _Mime(ctx, r)
    mime.classes = [None, "application/pdf", "x-unknown/type"]
    if ctx.concrete:
        cm_r = ctx.stub(r, mimetypes=mime, _EXTRACTOR_REGISTRY=reg)
        cm_m = ctx.stub(mt)
    else:
        sh = c07._shadows(ctx, r, mime)
        sh["_EXTRACTOR_REGISTRY"] = S.SymMap(reg)
        cm_r = ctx.shadow(r, **sh)
        cm_m = ctx.shadow(mt, MIME_TYPE_MAPPING=S.SymMap(table))
    atts, meta = [], []
    with cm_r, cm_m:
        for i in range(n_att):
            if name_len is not None and i == 0:
                name = ctx.fresh_chars(f"name{i}", name_len, 32, 126)
                dot = ctx.params.get("last_dot")
                if dot is not None and not ctx.concrete:
                    # partition of the names by the position of the last dot (-1: no dot)
                    for q in range(name_len):
                        if q == dot:
                            ctx.assume(name.c[q] == 46)
                        elif q > dot:
                            ctx.assume(name.c[q] != 46)
            elif i == 0 and ctx.params.get("first_vocab") is not None:
                name = NAME_VOCAB[ctx.params["first_vocab"]]
            else:
                name = NAME_VOCAB[ctx.choice(f"name{i}_vocab", ctx.params.get("vocab", len(NAME_VOCAB)))]
            ml = mime_lens[ctx.choice(f"mime{i}_len", len(mime_lens))]
            mtype = ctx.fresh_chars(f"mime{i}", ml, 33, 126)
            pos0 = ctx.fresh_int(f"stream{i}_initial_position", 0, 2 ** 31)
            st = _Stream(i, pos0)
            # the flag is what the extractors store: is_supported_mime_type(mime_type) (real function)
            flag = mt.is_supported_mime_type(mtype)
            ctx.require(flag is True or flag is False, "is_supported_mime_type-not-bool", got=repr(flag))
            atts.append(dt.EmailAttachment(filename=name, mime_type=mtype, data=st, is_supported_mime_type=flag))
            meta.append((name, mtype, st, pos0))
        content = dt.EmailContent(from_email=dt.EmailAddress(), attachments=atts)
        got, raised = [], None
        try:
            for res in content.iterate_supported_attachments():
                got.append(res)
        except ExtractionFileEncryptedError as e:
            raised = e
        except S.Unsupported:
            raise
        except Exception as e:
            ctx.fail("iteration-raised-something-else", exc=type(e).__name__, msg=str(e)[:100])

        # ---- oracle ---------------------------------------------------------------------------
        known = "C16-attachment-supported-by-name-skipped-for-mime" in (ctx.params.get("known_active") or ()) \
            and not ctx.perturb
        exp_results, exp_raise, k = [], False, 0
        for i, (name, mtype, st, pos0) in enumerate(meta):
            info = dict(attachment=i, name=str(name), mime=str(mtype))
            low = name.lower()
            by_name = c07._spec_expected(low, None)                 # documented extension -> extractor
            by_mime = _mime_table_lookup(table, mtype)
            exp = by_name
            if exp is None:
                guess = mime.guess_type(low)[0]                      # what the platform says about the name
                if guess is not None and guess in table:
                    exp = c07.DOC_SPEC[table[guess]]
                    by_name = exp
            if exp is None and by_mime is not None:
                exp = c07.DOC_SPEC[by_mime]
            if ctx.perturb == "mime_first" and by_mime is not None:
                exp = c07.DOC_SPEC[by_mime]
            if known and by_name is not None and by_mime is None:
                ctx.note("path-in-class-of-known-finding:C16-attachment-supported-by-name-skipped-for-mime")
                exp = None
            calls = [rec for rec in log if rec["stream"] is st]
            if exp is None:
                ctx.require(not calls, "unsupported-attachment-was-extracted", fn=calls[0]["fn"] if calls else None, **info)
                continue
            ctx.require(len(calls) == 1, "supported-attachment-skipped" if not calls else "attachment-extracted-twice",
                        expected=exp, by_name=by_name, by_mime=by_mime, **info)
            rec = calls[0]
            ctx.require(rec["fn"] == exp, "attachment-routed-to-another-extractor", expected=exp, got=rec["fn"], **info)
            ctx.require(rec["path"] is name, "extractor-does-not-get-the-attachment-name", **info)
            ctx.require(rec["pos_at_call"] == 0, "stream-not-at-start-when-extracted", **info)
            ctx.require(st.pos == 0, "stream-not-rewound-after-extraction", behaviour=rec["behaviour"], **info)
            ctx.require(st.writes == 0, "attachment-stream-written", **info)
            beh = rec["behaviour"]
            n_res = {0: 1, 1: 2, 2: 0, 3: 0, 4: 1, 5: 0}[beh]
            if ctx.perturb == "errors_drop_results" and beh == 4:
                n_res = 0
            exp_results += [("result", i, t) for t in range(n_res)]
            if beh == 3:
                exp_raise = True
                break
        ctx.require((raised is not None) == exp_raise, "encrypted-attachment-not-reported" if exp_raise
                    else "encrypted-error-without-encrypted-attachment", raised=repr(raised))
        ctx.require(got == exp_results, "results-differ-from-extracting-each-supported-attachment", got=got,
                    expected=exp_results)


def _k2_parts(tier):
    key_lens = sorted({len(k) for k in __import__("sharepoint2text.parsing.mime_types", fromlist=["x"]).MIME_TYPE_MAPPING})
    def sym(n, mls, split_from):
        if n < split_from:
            return [{"name_len": n, "mime_lens": mls, "n_att": 1, "behaviours": 1}]
        return [{"name_len": n, "mime_lens": mls, "n_att": 1, "behaviours": 1, "last_dot": d} for d in range(-1, n)]
    if tier == "quick":
        parts = []
        for n in range(0, 5):
            parts += sym(n, [0, 15, 24], 4)
        parts += sym(5, [15], 4)
        parts += [{"name_len": None, "mime_lens": [9, 24], "n_att": 1, "behaviours": 6}]
        parts += [{"name_len": None, "mime_lens": [15], "n_att": 2, "behaviours": [4, 2], "vocab": 3, "first_vocab": v}
                  for v in range(3)]
    else:
        parts = []
        for n in range(0, 6):
            parts += sym(n, [0, 10, 15, 16, 24] if n < 5 else [15], 4)
        parts += [{"name_len": None, "mime_lens": [ml], "n_att": 1, "behaviours": 6} for ml in key_lens + [1, 30]]
        parts += [{"name_len": None, "mime_lens": [ml], "n_att": 2, "behaviours": [6, 4], "vocab": 3, "first_vocab": v}
                  for v in range(3) for ml in (15, 24)]
        parts += [{"name_len": 4, "mime_lens": [15], "n_att": 2, "behaviours": [4, 2], "vocab": 3, "last_dot": d}
                  for d in range(-1, 4)]
    return parts


def _k2_targets():
    from sharepoint2text.parsing import router as r
    from sharepoint2text.parsing import mime_types as mt
    return [_dt().EmailContent.iterate_supported_attachments, mt.is_supported_mime_type, r.get_extractor,
            r._file_type_from_extension, r._get_extractor]



# =======================================================================================
# K3r  MSG recipient strings
# =======================================================================================
class _ReMatch:
    def __init__(self, string, a, b, groups):
        self.string, self._a, self._b, self._g = string, a, b, groups

    def _span(self, g):
        if g == 0:
            return self._a, self._b
        return self._g.get(g, (-1, -1))

    def start(self, g=0):
        return self._span(g)[0]

    def end(self, g=0):
        return self._span(g)[1]

    def span(self, g=0):
        return self._span(g)

    def group(self, g=0):
        a, b = self._span(g)
        return None if a < 0 else self.string[a:b]


class _ReModel:
    """the name ``re`` as seen from the lifted functions: search / split of a pattern given as text,
    interpreted with re's own backtracking priorities; every character test on a symbolic character is a
    fork decided by the solver"""
    IGNORECASE, MULTILINE, DOTALL = re.IGNORECASE, re.MULTILINE, re.DOTALL

    def __init__(self):
        self.cache = {}

    def _rx(self, pattern, flags=0):
        text = pattern if isinstance(pattern, str) else pattern.concrete()
        if text is None:
            S._unsupported("re model: symbolic pattern")
        key = (text, flags)
        if key not in self.cache:
            self.cache[key] = _Rx(text, flags)
        return self.cache[key]

    @staticmethod
    def _codes(string):
        if isinstance(string, S.CharStr):
            return string.c, string
        return [ord(ch) for ch in string], S.CharStr(string)

    def search(self, pattern, string, flags=0):
        codes, cs = self._codes(string)
        r = self._rx(pattern, flags).search_bt(codes)
        if r is None:
            return None
        return _ReMatch(cs, r[0], r[1], r[2])

    def split(self, pattern, string, maxsplit=0):
        rx = self._rx(pattern)
        if rx.tree.state.groups > 1:
            S._unsupported("re model: split with capture groups")
        codes, cs = self._codes(string)
        out, pos, last = [], 0, 0
        while pos <= len(codes):
            r = rx.search_bt(codes, pos)
            if r is None:
                break
            a, b, _ = r
            if b == a:
                S._unsupported("re model: split on an empty match")
            out.append(cs[last:a])
            last = pos = b
            if maxsplit and len(out) >= maxsplit:
                break
        out.append(cs[last:])
        return out


# RFC 5322: specials must not appear in an unquoted display name (phrase); a quoted-string may hold
# anything but an unescaped quote or backslash
SPECIALS = '()<>[]:;@\\,."'
ADDRS = ["a@x.y", "b@x.y"]


def _sym_name(ctx, tag, n, quoted, display_to):
    nm = ctx.fresh_chars(tag, n, 32, 126)
    banned = '"\\' if quoted else SPECIALS
    if display_to:
        # PidTagDisplayTo: display names separated by ';' - a name holds no ';'; names that look like markup or
        # an address are left out
        # (a comma is left out as well: a names-only list whose names hold a comma is ambiguous by nature and the
        # comma/semicolon split is the extractor's documented behaviour - outside the claim)
        banned = ',;<>@"\\'
    # (Outlook wraps display names in single quotes - 'John Doe' <j@x> - and the parser removes them: a name
    # that itself begins or ends with an apostrophe is left out of the claim)
    if ctx.concrete:
        ctx.assume(not any(ch in banned for ch in nm))
        ctx.assume(nm == nm.strip() and nm == nm.strip("'"))
    else:
        for ch in nm.c:
            for b in banned:
                ctx.assume(ch != ord(b))
        if nm.c:
            for edge in (nm.c[0], nm.c[-1]):
                ctx.assume(edge != 32)
                ctx.assume(edge != 39)
    return nm


RECIPIENT_SAMPLES = ["John Doe <john@example.com>", "<admin@example.com>", "user@example.com", "John Doe", "", "  ",
                     "A <a@x.com>; B <b@x.com>", "user1@x.com, user2@x.com", '"Doe, John" <j@x.y>', "'Jo' <j@x.y> ",
                     "a <b> c", "a <b>> ", "<<a>", "x@y z", "a,;b", "Doe, John; Roe, Jane", 'q"uo"te <a@b>']


def _k3r_translator_validation(ctx, msg):
    """lifted functions + regex interpreter on concrete strings == the real functions"""
    ctx.decision_memo = {}
    multi = _lift_msg_recipients(msg)
    pairs = lambda rs: [(str(r.name), str(r.address)) for r in rs]
    n = 0
    for raw in RECIPIENT_SAMPLES + [RECIPIENT_SAMPLES[:3]]:
        real = pairs(msg._parse_multi_recipients(raw))
        arg = [S.CharStr(x) for x in raw] if isinstance(raw, list) else S.CharStr(raw)
        got = pairs(multi(arg)) if not ctx.concrete else real
        if ctx.perturb == "translator_drops_last":
            got = got[:-1]
        ctx.require(got == real, "lifted-recipient-parser-differs-from-the-real-one", raw=raw, lifted=got, real=real)
        n += 1
    ctx.require(n > 10, "translator-validation-empty")


def _lift_msg_recipients(msg):
    """the recipient functions of the MSG extractor lifted to symbolic strings (own source, string literals as
    CharStr constants, ``re`` = the backtracking interpreter); the splitter exists since /repo 2f09567"""
    from vf import lift
    model = _ReModel()
    extra = {"re": model}
    if hasattr(msg, "_split_recipient_list"):
        extra["_split_recipient_list"] = lift.lift(msg._split_recipient_list, **extra)
    extra["_parse_single_recipient"] = lift.lift(msg._parse_single_recipient, **extra)
    return lift.lift(msg._parse_multi_recipients, **extra)


def k3r_recipients(ctx):
    msg = _msg()
    if ctx.params.get("samples"):
        return _k3r_translator_validation(ctx, msg)
    mode = ctx.params["mode"]
    lens = ctx.params["name_lens"]
    n_box = 1 + ctx.choice("mailboxes_minus_1", ctx.params.get("max_boxes", 2))
    pieces, expected = [], []
    for i in range(n_box):
        addr = ADDRS[i]
        if mode == "display":
            nm = _sym_name(ctx, f"name{i}", lens[ctx.choice(f"name{i}_len", len(lens))], False, True)
            pieces.append(nm)
            expected.append((nm, ""))
            continue
        form = ctx.choice(f"form{i}", 4)
        if form == 0:
            nm = _sym_name(ctx, f"name{i}", lens[ctx.choice(f"name{i}_len", len(lens))], False, False)
            pieces.append(nm + " <" + addr + ">")
            expected.append((nm, addr))
        elif form == 1:
            nm = _sym_name(ctx, f"name{i}", lens[ctx.choice(f"name{i}_len", len(lens))], True, False)
            pieces.append('"' + nm + '" <' + addr + ">")
            expected.append((nm, addr))
        elif form == 2:
            pieces.append("<" + addr + ">")
            expected.append(("", addr))
        else:
            pieces.append(addr)
            expected.append(("", addr))
    as_list = mode == "list"
    sep = "; " if mode == "display" else ", "
    if as_list:
        raw = [p_ if ctx.concrete or isinstance(p_, S.CharStr) else S.CharStr(p_) for p_ in pieces]
    else:
        raw = pieces[0]
        for p_ in pieces[1:]:
            raw = raw + sep + p_
        if not ctx.concrete and not isinstance(raw, S.CharStr):
            raw = S.CharStr(raw)
    if ctx.concrete:
        got = msg._parse_multi_recipients(raw)
    else:
        ctx.decision_memo = {}
        got = _lift_msg_recipients(msg)(raw)
    shown = str(raw) if not as_list else [str(x) for x in raw]
    ctx.require(len(got) == len(expected), "recipient-count-differs", raw=shown, got=[(str(g.name), str(g.address)) for g in got],
                expected=[(str(a), str(b)) for a, b in expected])
    for g, (nm, addr) in zip(got, expected):
        if ctx.perturb == "expect_quotes_kept" and not (isinstance(nm, str) and not nm):
            nm = '"' + nm + '"'
        gn = g.name.strip() if hasattr(g.name, "strip") else g.name
        ctx.require(g.address == addr, "recipient-address-differs", raw=shown, got=str(g.address), expected=addr)
        ctx.require(gn == nm, "recipient-display-name-differs", raw=shown, got=str(g.name), expected=str(nm))


def _k3r_parts(tier):
    parts = []
    for md in ("header", "list", "display"):
        parts += [{"mode": md, "name_lens": [1], "max_boxes": 2}, {"mode": md, "name_lens": [2], "max_boxes": 2},
                  {"mode": md, "name_lens": [3], "max_boxes": 1}]
        if tier != "quick":
            parts += [{"mode": md, "name_lens": [3], "max_boxes": 2}, {"mode": md, "name_lens": [4], "max_boxes": 1}]
    return parts + [{"samples": True}]


def _k3r_targets():
    msg = _msg()
    return [msg._parse_multi_recipients, msg._parse_single_recipient] + \
        ([msg._split_recipient_list] if hasattr(msg, "_split_recipient_list") else [])



# =======================================================================================
# K3  mapping plumbing on fake parser objects (structure choices; all values concrete)
# =======================================================================================
class _Obj:
    def __init__(self, **kw):
        self.__dict__.update(kw)


def _vary(ctx, group, name, options, default=0):
    """options[choice] when this part varies ``group`` (or everything), else the default option"""
    v = ctx.params.get("vary")
    groups = v if isinstance(v, (list, tuple)) else [v]
    if group in groups or "all" in groups:
        return options[ctx.choice(name, len(options))]
    return options[default]


def _only_ws_left(text, parts):
    """the parts occur in this order and nothing but white space is left over"""
    pos = 0
    for part in parts:
        j = text.find(part, pos)
        if j < 0 or text[pos:j].strip():
            return False
        pos = j + len(part)
    return not text[pos:].strip()


def _same_instant(iso, ref):
    import datetime
    try:
        d = datetime.datetime.fromisoformat(iso)
    except Exception:
        return False
    if (d.tzinfo is None) != (ref.tzinfo is None):
        return False
    return d == ref


PAYLOADS = [b"%PDF-1.4\n\x00\xff\xfe binary", b"", b"plain ascii text\n", "text of an attached message\n"]


def k3_eml(ctx):
    """_read_eml_format with parse_from_bytes replaced by a fake of what mail-parser hands over"""
    import datetime
    e = _eml()
    table = dict(__import__("sharepoint2text.parsing.mime_types", fromlist=["x"]).MIME_TYPE_MAPPING)
    tz = datetime.timezone(datetime.timedelta(hours=2))
    from_ = _vary(ctx, "addr", "from", [[("N0", "s@x.y")], [("", "s@x.y")], [("Doe, John", "s@x.y"), ("N1", "t@x.y")]])
    to = _vary(ctx, "addr", "to", [[("T0", "t0@x.y")], [], [("Roe, Jane", "t0@x.y"), ("", "t1@x.y")]])
    cc = _vary(ctx, "addr", "cc", [[], [("C0", "c0@x.y")], [("", ""), ("C0", "c0@x.y")], [("C0",)],
                                   [("C0", "c0@x.y"), ("C1", "c1@x.y")]])
    bcc = _vary(ctx, "addr", "bcc", [[], [("B0", "b0@x.y")]])
    reply_to = _vary(ctx, "addr", "reply_to", [[], [("R0", "r0@x.y")]])
    subject = _vary(ctx, "scalar", "subject", ["S u b", "  padded  ", "", None])
    date = _vary(ctx, "scalar", "date", [datetime.datetime(2015, 1, 2, 3, 4, 5, tzinfo=tz),
                                          datetime.datetime(2015, 1, 2, 3, 4, 5), None])
    mid = _vary(ctx, "scalar", "message_id", ["<m1@x.y>", None, ""])
    irt = _vary(ctx, "scalar", "in_reply_to", ["<m0@x.y>", None])
    plain = _vary(ctx, "body", "text_plain", [["P1 line"], [], ["P1 line", "P2 line"], "P1 line"])
    html = _vary(ctx, "body", "text_html", [[], ["<p>H1</p>"], ["<p>H1</p>", "<p>H2</p>"], "<p>H1</p>"])
    n_att = _vary(ctx, "att", "n_attachments", [0, 1, 2])
    atts, exp_att = [], []
    for i in range(n_att):
        pay = PAYLOADS[ctx.choice(f"payload{i}", len(PAYLOADS))]
        fname = [f"file{i}.pdf", None, ""][ctx.choice(f"filename{i}", 3)]
        mtype = ["application/pdf", None, "application/x-unknown"][ctx.choice(f"mime{i}", 3)]
        if isinstance(pay, bytes):
            b64 = base64.b64encode(pay).decode("ascii")
            if ctx.flag(f"payload{i}_folded"):
                b64 = "\n".join(b64[k:k + 8] for k in range(0, len(b64), 8)) + "\n"
            d = {"filename": fname, "payload": b64, "binary": True, "mail_content_type": mtype,
                 "content_transfer_encoding": "base64", "charset": None}
            raw = pay
        else:
            d = {"filename": fname, "payload": pay, "binary": False, "mail_content_type": mtype,
                 "content_transfer_encoding": "", "charset": None}
            raw = pay.encode("ascii")
        atts.append(d)
        exp_att.append((fname, mtype, raw))
    mail = _Obj(from_=from_, to=to, cc=cc, bcc=bcc, reply_to=reply_to, subject=subject, date=date,
                message_id=mid, in_reply_to=irt, text_plain=plain, text_html=html, attachments=atts)
    seen = []

    def fake_parse(payload):
        seen.append(payload)
        return mail
    with ctx.stub(e, parse_from_bytes=fake_parse):
        try:
            c = e._read_eml_format(b"raw bytes of the message")
        except Exception as ex:
            ctx.fail("eml-mapping-raised", exc=type(ex).__name__, msg=str(ex)[:120])
    ctx.require(seen == [b"raw bytes of the message"], "parser-not-given-the-file-bytes", seen=repr(seen)[:80])
    pair = lambda a: (a.name, a.address)
    ctx.require(pair(c.from_email) == tuple(from_[0]), "sender-differs", got=pair(c.from_email), expected=from_[0])
    ctx.require([pair(a) for a in c.to_emails] == [tuple(t) for t in to], "to-recipients-differ",
                got=[pair(a) for a in c.to_emails], expected=to)
    for field, given, label in ((c.to_cc, cc, "cc"), (c.to_bcc, bcc, "bcc"), (c.reply_to, reply_to, "reply-to")):
        want = [tuple(t) for t in given if len(t) > 1 and t[1]]
        if ctx.perturb == "cc_keeps_entries_without_address" and label == "cc":
            want = [tuple(t) + ("",) * (2 - len(t)) for t in given]
        got = [pair(a) for a in field if a.address or ctx.perturb]
        ctx.require(got == want, f"{label}-recipients-differ", got=got, expected=want)
    ctx.require(c.subject.strip() == (subject or "").strip(), "subject-differs", got=c.subject, expected=subject)
    if date is None:
        ctx.require(c.metadata.date == "", "date-invented", got=c.metadata.date)
    else:
        ctx.require(_same_instant(c.metadata.date, date), "date-is-not-the-iso-date", got=c.metadata.date,
                    expected=date.isoformat())
    ctx.require(c.metadata.message_id == (mid or ""), "message-id-differs", got=c.metadata.message_id, expected=mid)
    ctx.require(c.in_reply_to == (irt or ""), "in-reply-to-differs", got=c.in_reply_to, expected=irt)
    for got, given, label in ((c.body_plain, plain, "plain"), (c.body_html, html, "html")):
        parts = [given] if isinstance(given, str) else list(given)
        ctx.require(_only_ws_left(got, parts), f"{label}-body-differs", got=got, expected=parts)
    ctx.require(len(c.attachments) == len(exp_att), "attachment-count-differs", got=len(c.attachments), expected=len(exp_att))
    for a, (fname, mtype, raw) in zip(c.attachments, exp_att):
        if fname:
            ctx.require(a.filename == fname, "attachment-name-differs", got=a.filename, expected=fname)
        else:
            ctx.require(isinstance(a.filename, str) and a.filename != "", "attachment-without-name", got=a.filename)
        if mtype:
            ctx.require(a.mime_type == mtype, "attachment-type-differs", got=a.mime_type, expected=mtype)
        else:
            ctx.require(isinstance(a.mime_type, str) and a.mime_type != "", "attachment-without-type", got=a.mime_type)
        ctx.require(a.data.getvalue() == raw, "attachment-bytes-differ", got=repr(a.data.getvalue()[:40]), expected=repr(raw[:40]))
        ctx.require(a.data.tell() == 0, "attachment-stream-not-at-start", pos=a.data.tell())
        ctx.require(a.is_supported_mime_type == (a.mime_type in table), "attachment-supported-flag-differs",
                    mime=a.mime_type, flag=a.is_supported_mime_type)


class _FakeOle:
    """olefile.OleFileIO stand-in: a dict {path tuple: bytes} of streams"""

    def __init__(self, streams):
        self.streams = streams

    def __call__(self, f):
        return self

    def __enter__(self):
        return self

    def __exit__(self, *a):
        return False

    def listdir(self, streams=True, storages=False):
        out = []
        seen = set()
        for path in self.streams:
            for k in range(1, len(path)):
                if path[:k] not in seen:
                    seen.add(path[:k])
                    if storages:
                        out.append(list(path[:k]))
            if streams:
                out.append(list(path))
        return out

    def openstream(self, path):
        key = tuple(path) if not isinstance(path, str) else tuple(path.split("/"))
        if key not in self.streams:
            raise OSError("file not found")
        return io.BytesIO(self.streams[key])


def k3_msg(ctx):
    """read_msg_format_mail with MsOxMessage / OleFileIO replaced by fakes of what msg_parser / olefile
    hand over"""
    import datetime
    m = _msg()
    table = dict(__import__("sharepoint2text.parsing.mime_types", fromlist=["x"]).MIME_TYPE_MAPPING)
    u16 = lambda t: t.encode("utf-16-le")
    sender = _vary(ctx, "addr", "sender", ["N0 <s@x.y>", "s@x.y", "<s@x.y>", ["N0 <s@x.y>"]])
    to = _vary(ctx, "addr", "to", ["T0 <t0@x.y>", "T0 <t0@x.y>, T1 <t1@x.y>", "T0; T1", ["T0 <t0@x.y>", "t1@x.y"], None])
    cc = _vary(ctx, "addr", "cc", [None, "C0 <c0@x.y>", ""])
    bcc = _vary(ctx, "addr", "bcc", [None, "B0 <b0@x.y>"])
    exp_addr = {"N0 <s@x.y>": [("N0", "s@x.y")], "s@x.y": [("", "s@x.y")], "<s@x.y>": [("", "s@x.y")],
                "T0 <t0@x.y>": [("T0", "t0@x.y")], "T0 <t0@x.y>, T1 <t1@x.y>": [("T0", "t0@x.y"), ("T1", "t1@x.y")],
                "T0; T1": [("T0", ""), ("T1", "")], "C0 <c0@x.y>": [("C0", "c0@x.y")], "B0 <b0@x.y>": [("B0", "b0@x.y")],
                "t1@x.y": [("", "t1@x.y")], "": [], None: []}

    def expect(v):
        if isinstance(v, list):
            return [x for item in v for x in exp_addr[item]]
        return exp_addr[v]
    subject = _vary(ctx, "scalar", "subject", ["S u b", "  padded  "])
    mid = _vary(ctx, "scalar", "message_id", ["<m1@x.y>", None])
    sent = _vary(ctx, "scalar", "sent_date", ["Fri, 02 Jan 2015 03:04:05 +0200", "Fri, 02 Jan 2015 03:04:05 -0000"])
    body = _vary(ctx, "body", "body", ["plain text body", "<html><body><p>Visible</p><script>hidden()</script></body></html>",
                                       "", None])
    n_att = _vary(ctx, "att", "n_attachments", [0, 1, 2])
    streams, exp_att = {}, []
    streams[("__recip_version1.0_#00000000", "__substg1.0_3001001F")] = u16("T0")
    for i in range(n_att):
        st = "__attach_version1.0_#%08d" % i
        data = [b"%PDF-1.4\n\x00\xff", b""][ctx.choice(f"att{i}_data", 2)]
        names = ctx.choice(f"att{i}_names", 3)           # long+short, short only, none
        has_mime = ctx.flag(f"att{i}_has_mime")
        has_data = not ctx.flag(f"att{i}_without_data_stream")
        if has_data:
            streams[(st, "__substg1.0_37010102")] = data
        if names == 0:
            streams[(st, "__substg1.0_3707001F")] = u16(f"long name {i}.pdf\x00")
        if names <= 1:
            streams[(st, "__substg1.0_3704001F")] = u16(f"LONGNA~{i}.PDF")
        if has_mime:
            streams[(st, "__substg1.0_370E001F")] = u16("application/pdf")
        # an embedded message's own attachment storage (nested): not an attachment of this message
        if ctx.params.get("vary") in ("att", "all") and i == 0 and ctx.flag("nested_storage"):
            streams[(st, "__substg1.0_3701000D", "__attach_version1.0_#00000000", "__substg1.0_37010102")] = b"inner"
        if has_data:
            exp_att.append(({0: f"long name {i}.pdf", 1: f"LONGNA~{i}.PDF", 2: None}[names],
                            "application/pdf" if has_mime else None, data))
    fake = _Obj(message_id=mid, sent_date=sent, sender=sender, to=to, cc=cc, bcc=bcc, reply_to=None, body=body,
                subject=subject)
    given = []

    def fake_msg(stream):
        given.append(stream.read())
        return fake
    file_bytes = b"\xd0\xcf\x11\xe0 not really"
    with ctx.stub(m, MsOxMessage=fake_msg, OleFileIO=_FakeOle(streams)):
        try:
            out = list(m.read_msg_format_mail(io.BytesIO(file_bytes), "dir/mail.msg"))
        except Exception as ex:
            ctx.fail("msg-mapping-raised", exc=type(ex).__name__, msg=str(ex)[:160], cause=repr(getattr(ex, "__cause__", None))[:120])
    ctx.require(len(out) == 1, "not-exactly-one-result", got=len(out))
    ctx.require(given == [file_bytes], "parser-not-given-the-file-bytes")
    c = out[0]
    pair = lambda a: (a.name, a.address)
    ctx.require(pair(c.from_email) == expect(sender)[0], "sender-differs", got=pair(c.from_email), expected=expect(sender)[0])
    for field, v, label in ((c.to_emails, to, "to"), (c.to_cc, cc, "cc"), (c.to_bcc, bcc, "bcc")):
        want = expect(v)
        if ctx.perturb == "to_and_cc_swapped" and label in ("to", "cc"):
            want = expect(cc if label == "to" else to)
        ctx.require([pair(a) for a in field] == want, f"{label}-recipients-differ", got=[pair(a) for a in field], expected=want)
    ctx.require(c.subject.strip() == subject.strip(), "subject-differs", got=c.subject, expected=subject)
    ctx.require(c.metadata.message_id == mid, "message-id-differs", got=c.metadata.message_id, expected=mid)
    ref = datetime.datetime(2015, 1, 2, 3, 4, 5, tzinfo=datetime.timezone(datetime.timedelta(hours=2))) \
        if sent.endswith("+0200") else datetime.datetime(2015, 1, 2, 3, 4, 5)
    ctx.require(_same_instant(c.metadata.date, ref), "date-is-not-the-iso-date", got=c.metadata.date, expected=sent)
    if body and body.startswith("<html"):
        ctx.require(c.body_html == body, "html-body-differs", got=c.body_html[:60])
        ctx.require("Visible" in c.body_plain and "hidden" not in c.body_plain, "plain-text-of-html-body-differs", got=c.body_plain[:60])
    else:
        ctx.require(c.body_plain == (body or "").strip() and c.body_html == "", "plain-body-differs", got=c.body_plain[:60])
    ctx.require(len(c.attachments) == len(exp_att), "attachment-count-differs", got=len(c.attachments), expected=len(exp_att))
    for a, (fname, mtype, raw) in zip(c.attachments, exp_att):
        if fname:
            ctx.require(a.filename == fname, "attachment-name-differs", got=a.filename, expected=fname)
        else:
            ctx.require(isinstance(a.filename, str) and a.filename != "", "attachment-without-name", got=a.filename)
        if mtype:
            ctx.require(a.mime_type == mtype, "attachment-type-differs", got=a.mime_type, expected=mtype)
        ctx.require(a.data.getvalue() == raw and a.data.tell() == 0, "attachment-bytes-differ", got=repr(a.data.getvalue()[:40]))
        ctx.require(a.is_supported_mime_type == (a.mime_type in table), "attachment-supported-flag-differs", mime=a.mime_type)
    ctx.require(c.metadata.filename == "mail.msg", "path-metadata-not-populated", got=c.metadata.filename)


def _k3_parts(tier):
    return [{"vary": g} for g in ("addr", "scalar", "body", "att")]



# =======================================================================================
# K3m  generated messages (stdlib email API / generator) through parse_email_message and the public
#      mbox / eml entry points (structure choices; all values concrete)
# =======================================================================================
FROMS = [("N0", "s@x.y"), ("Doe, John", "s@x.y"), ("J\u00f6rg M\u00fcller", "s@x.y"), ("", "s@x.y"),
         ("M\u00fcller, Hans", "s@x.y")]
# (display names that need RFC 2047 encoding AND hold an address-list special once decoded: , ; < > " @)
TOS = [[("T0", "t0@x.y")], [("Roe, Jane", "t0@x.y"), ("", "t1@x.y")],
       [("\u00dcnal \u015eahin", "t0@x.y"), ("T1", "t1@x.y"), ("T2 with a rather long display name to force folding", "t2@x.y")], [],
       [("M\u00fcller, Hans", "t0@x.y")],
       [("Zo\u00eb; \u00dcnal<\u00e9> \u00f6@\u00fc", "t0@x.y"), ("\u00dcnal, B", "t1@x.y")],
       [("T0", "t0@x.y"), ("J\u00fcrgen \"Jay\" <K>, 2nd @floor; x", "t1@x.y")]]
CCS = [[], [("C0", "c0@x.y")], [("S\u00f8ren, K", "c0@x.y")],
       [("\u00e9\"\u00f6\"\u00fc", "c0@x.y"), ("\u00c7a\u011fla@h\u00f6m\u00e9; \u00fc", "c1@x.y")]]
SUBJECTS = ["Plain subject", "Gr\u00fc\u00dfe aus K\u00f6ln \u2013 \u00c4\u00d6\u00dc",
            "A rather long subject line that the generator has to fold over more than one physical line of the header",
            "=?x?= looks encoded"]
TEXTS = ["Hello body\nsecond line\n", "Gr\u00fc\u00dfe aus K\u00f6ln, caf\u00e9\n", "first\nFrom the start of a line\nlast\n"]
HTMLS = ["<html><body><p>Hello <b>html</b></p></body></html>\n", "<p>Gr\u00fc\u00dfe</p>\n"]
ATTACHMENTS = [(b"%PDF-1.4\n\x00\xff\xfe\r\n tail", "application", "pdf", "report.pdf"),
               ("caf\u00e9 notes\n".encode("latin-1"), "text", "plain", "notes.txt"),
               (b"PK\x03\x04 not really", "application", "octet-stream", "\u00dcbersicht 2015.docx"),
               (b"From here\nFrom there\n", "application", "x-unknown", "lines.bin")]


def _gen_message(ctx, k=0):
    """one RFC 5322 / MIME message built with the standard library's API; returns (EmailMessage, expected)"""
    import datetime
    import email.utils
    from email.message import EmailMessage
    # (in a mailbox of several messages only the first one varies; the others differ by their number)
    v = lambda group, name, options, default=0: _vary(ctx, group, name, options, default) if k == 0 else options[default]
    frm = v("hdr", "from", FROMS)
    to = v("hdr", "to", TOS)
    cc = v("hdr", "cc", CCS)
    # how the address headers are written: "policy" = the generator of the modern API refolds them (non-ASCII
    # words become separate q/b encoded words: =?utf-8?q?M=C3=BCller=2C?= Hans <...>); "raw" = the text of
    # email.utils.formataddr as a legacy program writes it (whole name one encoded word / quoted-string)
    style = v("hdr", "address_header_style", ["policy", "raw"])
    subject = v("hdr2", "subject", SUBJECTS)
    tz = v("hdr2", "zone", [2, 0, -8])
    when = datetime.datetime(2015, 1, 2, 3, 4, 5, tzinfo=datetime.timezone(datetime.timedelta(hours=tz)))
    kind = v("body", "body_kind", ["plain", "html", "alternative"])
    ti = v("body", "text", [0, 1, 2] if ctx.params.get("from_lines", True) else [0, 1])
    charset = v("body", "charset", ["utf-8", "iso-8859-1"])
    cte = v("body", "transfer_encoding", ["base64", "quoted-printable", "8bit"])
    hi = v("body", "html_text", [0, 1])
    n_att = v("att", "n_attachments", [0, 1, 2])
    related = v("att", "inline_image", [False, True]) and kind != "plain"
    text, html = TEXTS[ti], HTMLS[hi]
    if k:
        subject = f"{subject} #{k}"
        text = text + f"message number {k}\n"
    m = EmailMessage()
    m["From"] = email.utils.formataddr(frm)
    m["To"] = ", ".join(email.utils.formataddr(t) for t in to) if to else "undisclosed-recipients:;"
    if cc:
        m["Cc"] = ", ".join(email.utils.formataddr(t) for t in cc)
    if style == "raw":
        for h in ("From", "To", "Cc"):
            if m.get(h) is not None and h != "To" or (h == "To" and to):
                pairs = {"From": [frm], "To": to, "Cc": cc}[h]
                del m[h]
                m._headers.append((h, ", ".join(email.utils.formataddr(t) for t in pairs)))   # stored as written
    # the header the WRITER produced must itself be well formed: read back with the standard library's structured
    # parser (email._header_value_parser, not the _parseaddr code the extractor uses) it gives the same mailboxes.
    # (CPython < 3.12.5 writes an ASCII word with specials next to an encoded word unquoted, gh-121284: such a
    # header is not a rendering of the intended address list and is left out.)
    import email.policy
    probe = email.message_from_bytes(m.as_bytes(), policy=email.policy.default)
    for h, pairs in (("From", [frm]), ("To", to), ("Cc", cc)):
        back = [] if probe[h] is None else [(a.display_name, a.addr_spec) for a in probe[h].addresses]
        ctx.assume(back == [tuple(t) for t in pairs])
    m["Subject"] = subject
    m["Date"] = email.utils.format_datetime(when)
    m["Message-ID"] = f"<m{k}@x.y>"
    exp = {"from": frm, "to": list(to), "cc": list(cc), "subject": subject, "date": when, "message_id": f"<m{k}@x.y>",
           "plain": "", "html": "", "attachments": []}
    if kind in ("plain", "alternative"):
        m.set_content(text, subtype="plain", charset=charset, cte=cte)
        exp["plain"] = text
    if kind == "html":
        m.set_content(html, subtype="html", charset=charset, cte=cte)
        exp["html"] = html
    elif kind == "alternative":
        m.add_alternative(html, subtype="html", charset=charset, cte=cte)
        exp["html"] = html
    if related:
        part = m if kind == "html" else m.get_payload()[1]
        part.add_related(b"\x89PNG\r\n\x1a\n fake", maintype="image", subtype="png", cid="<img1@x.y>")
    for i in range(n_att):
        data, mt, st, fn = ATTACHMENTS[ctx.choice(f"attachment{i}", len(ATTACHMENTS)) if k == 0 else 0]
        m.add_attachment(data, maintype=mt, subtype=st, filename=fn)
        exp["attachments"].append((fn, f"{mt}/{st}", data))
    return m, exp


def _norm_ws(t):
    return " ".join(t.split())


def _check_content(ctx, c, exp, where, known_active):
    """EmailContent against the message it was extracted from (property text, first sentence)"""
    info = dict(where=where, subject=exp["subject"])
    pair = lambda a: (a.name, a.address)
    ctx.require(_norm_ws(c.subject) == _norm_ws(exp["subject"]), "subject-differs", got=c.subject, **info)
    ctx.require(pair(c.from_email) == tuple(exp["from"]), "sender-differs", got=pair(c.from_email), expected=exp["from"], **info)
    ctx.require([pair(a) for a in c.to_emails] == [tuple(t) for t in exp["to"]], "to-recipients-differ",
                got=[pair(a) for a in c.to_emails], expected=exp["to"], **info)
    ctx.require([pair(a) for a in c.to_cc] == [tuple(t) for t in exp["cc"]], "cc-recipients-differ",
                got=[pair(a) for a in c.to_cc], expected=exp["cc"], **info)
    ctx.require(_same_instant(c.metadata.date, exp["date"]), "date-is-not-the-iso-date", got=c.metadata.date,
                expected=exp["date"].isoformat(), **info)
    ctx.require(c.metadata.message_id.strip() == exp["message_id"], "message-id-differs", got=c.metadata.message_id, **info)
    nl = lambda t: t.replace("\r\n", "\n").strip()
    want_plain = nl(exp["plain"])
    got_plain = nl(c.body_plain)
    if got_plain != want_plain and where in ("mbox",) \
            and got_plain == want_plain.replace("\nFrom ", "\n>From "):
        # mboxo From_-quoting is applied by the mailbox WRITER and is not reversible in general; the
        # stored bytes are returned as they are (documented limitation of the mbox reader).  The
        # property's "exact bodies" is read for the message as stored in the mailbox (DESIGN 7.7).
        ctx.note("mbox-from-quoting-kept-as-stored")
    else:
        ctx.require(got_plain == want_plain, "plain-body-differs", got=c.body_plain[:80], expected=exp["plain"][:80], **info)
    ctx.require(nl(c.body_html) == nl(exp["html"]), "html-body-differs", got=c.body_html[:80], expected=exp["html"][:80], **info)
    names = [fn for fn, _t, _d in exp["attachments"]]
    got = [a for a in c.attachments if a.filename in names]
    if len(got) != len(names) and not c.attachments and where in ("mbox", "object") \
            and "C16-mbox-attachments-not-extracted" in known_active:
        ctx.note("path-in-class-of-known-finding:C16-mbox-attachments-not-extracted")
        return
    ctx.require([a.filename for a in got] == names, "attachments-missing-or-reordered", got=[a.filename for a in c.attachments],
                expected=names, **info)
    for a, (fn, mt, data) in zip(got, exp["attachments"]):
        ctx.require(a.mime_type == mt, "attachment-type-differs", got=a.mime_type, expected=mt, name=fn, **info)
        ctx.require(a.data.getvalue() == data, "attachment-bytes-differ", got=repr(a.data.getvalue()[:40]),
                    expected=repr(data[:40]), name=fn, **info)


def _mbox_bytes(messages, crlf, sep_style, final_blank):
    """mbox writer after RFC 4155 / mboxo: separator line, message with its "From " lines escaped by ">", one
    empty line"""
    out = []
    for k, raw in enumerate(messages):
        sep = [b"From MAILER-DAEMON Fri Jan  2 03:04:05 2015", b"From s@x.y Fri Jan 02 03:04:05 2015"][sep_style]
        lines = raw.replace(b"\r\n", b"\n").split(b"\n")
        if lines and lines[-1] == b"":
            lines.pop()
        body = [(b">" + ln if ln.startswith(b"From ") else ln) for ln in lines]
        out.append(sep)
        out.extend(body)
        if final_blank or k < len(messages) - 1:
            out.append(b"")
    eol = b"\r\n" if crlf else b"\n"
    return b"".join(ln + eol for ln in out)


def k3m_generated(ctx):
    import email.policy
    mb, e = _mbox(), _eml()
    via = ctx.params["via"]
    known_active = [] if ctx.perturb else list(ctx.params.get("known_active") or ())
    if via == "object":
        # the Message object as the standard library API builds it, straight into the mapping function
        m, exp = _gen_message(ctx)
        try:
            c = mb.parse_email_message(m)
        except Exception as ex:
            ctx.fail("mapping-raised", exc=type(ex).__name__, msg=str(ex)[:120])
        _check_content(ctx, c, exp, "object", known_active)
        return
    if via == "eml":
        m, exp = _gen_message(ctx)
        crlf = ctx.flag("crlf")
        raw = m.as_bytes(policy=email.policy.SMTP if crlf else email.policy.default)
        try:
            out = list(e.read_eml_format_mail(io.BytesIO(raw), "dir/a.eml"))
        except Exception as ex:
            ctx.fail("eml-extraction-raised", exc=type(ex).__name__, msg=str(ex)[:120], cause=repr(ex.__cause__)[:120])
        ctx.require(len(out) == 1, "not-exactly-one-result", got=len(out))
        _check_content(ctx, out[0], exp, "eml", known_active)
        return
    n = _vary(ctx, "mbox", "n_messages", [1, 0, 2, 3])
    crlf = _vary(ctx, "mbox", "crlf", [False, True])
    sep_style = _vary(ctx, "mbox", "separator_style", [0, 1])
    final_blank = _vary(ctx, "mbox", "final_blank_line", [True, False])
    msgs, exps = [], []
    for k in range(n):
        m, exp = _gen_message(ctx, k)
        msgs.append(m.as_bytes())
        exps.append(exp)
    data = _mbox_bytes(msgs, crlf, sep_style, final_blank)
    try:
        out = list(mb.read_mbox_format_mail(io.BytesIO(data), "dir/a.mbox"))
    except Exception as ex:
        ctx.fail("mbox-extraction-raised", exc=type(ex).__name__, msg=str(ex)[:120], cause=repr(ex.__cause__)[:120])
    want = n + (1 if ctx.perturb == "expect_one_more_message" else 0)
    ctx.require(len(out) == want, "mbox-result-count-differs", got=len(out), expected=want)
    for c, exp in zip(out, exps):
        _check_content(ctx, c, exp, "mbox", known_active)
        ctx.require(c.metadata.filename == "a.mbox", "path-metadata-not-populated", got=c.metadata.filename)


def _k3m_parts(tier):
    parts = []
    for via in ("object", "eml", "mbox"):
        parts += [{"via": via, "vary": g} for g in ("hdr", "hdr2", "body", "att")]
    parts.append({"via": "mbox", "vary": "mbox"})
    if tier != "quick":
        for via in ("object", "eml", "mbox"):
            parts += [{"via": via, "vary": list(pair)} for pair in (("body", "att"), ("hdr", "att"), ("hdr", "hdr2"))]
        parts.append({"via": "object", "vary": ["hdr2", "body"]})
        parts += [{"via": "mbox", "vary": ["mbox", g]} for g in ("hdr", "hdr2", "body", "att")]
    return parts


def _k3m_targets():
    mb, e = _mbox(), _eml()
    return [mb.parse_email_message, mb.get_body_content, mb.parse_email_addresses, mb.parse_email_address,
            mb.decode_header_value, mb.read_mbox_format_mail, mb._split_mbox_messages, e.read_eml_format_mail,
            e._read_eml_format]



# =======================================================================================
# K3a  mbox address headers: display names over an alphabet of address specials + a non-ASCII letter,
#      rendered the way email.utils / email.header / the generator write them
# =======================================================================================
# The three functions hand their argument straight to email.utils.getaddresses / parseaddr and
# email.header.decode_header (regular expressions and codecs in C): proxies cannot flow through them, and the
# functions themselves hardly branch on the text.  So every character is an n-ary decision (ctx.choice) over an
# alphabet that holds one member of each class the address grammar distinguishes, and the real functions run
# on the concrete header text: exhaustive over all names up to the length bound over this alphabet
# (structure strength).
ADDR_ALPHABET = ["a", "B", " ", ",", ";", "<", ">", '"', "@", "\u00fc"]
SECOND_NAMES = [None, "T1", "", "M\u00fcller, Hans", 'x" <y>; @z', "\u00fc; \u00e9<\u00f6>"]


def _alphabet_name(ctx, tag, n):
    first = ctx.params.get("first")          # partition of the names by their first character
    nm = "".join(ADDR_ALPHABET[first if (i == 0 and first is not None) else ctx.choice(f"{tag}[{i}]", len(ADDR_ALPHABET))]
                 for i in range(n))
    # white space at the ends / runs of blanks are not part of a display name (folding white space)
    ctx.assume(nm == nm.strip() and "  " not in nm)
    return nm


def _is_ascii(t):
    try:
        t.encode("ascii")
        return True
    except UnicodeEncodeError:
        return False


def _render_address_list(style, pairs):
    """header text for a list of (display name, address) as a mail program would write it, or None when this
    style does not apply.  formataddr: RFC 5322 quoted-string for ASCII names with specials, one base64 encoded
    word for a non-ASCII name.  header_q: email.header.Header with a q-encoding charset (one or more q encoded
    words).  policy: the modern API's generator (refolds; encodes non-ASCII words one by one)."""
    import email.header
    import email.utils
    if style == "formataddr":
        return ", ".join(email.utils.formataddr(p_) for p_ in pairs)
    if style == "header_q":
        out = []
        for nm, addr in pairs:
            if _is_ascii(nm):
                out.append(email.utils.formataddr((nm, addr)))
            else:
                out.append(email.header.Header(nm, "iso-8859-1").encode() + " <" + addr + ">")
        return ", ".join(out)
    if style == "policy":
        from email.headerregistry import Address
        from email.message import EmailMessage
        m = EmailMessage()
        m["To"] = tuple(Address(display_name=nm, addr_spec=addr) for nm, addr in pairs)
        raw = m.as_bytes()
        import email as _email
        return _email.message_from_bytes(raw).get("To")        # as the extractor's parser hands it over (folded)
    raise ValueError(style)


ADDR_STYLES = ["formataddr", "header_q", "policy"]


def k3a_addresses(ctx):
    import email
    import email.policy
    mb = _mbox()
    target = ctx.params["target"]
    n = ctx.params["name_len"]
    name = _alphabet_name(ctx, "name", n)
    style = ADDR_STYLES[ctx.choice("style", len(ADDR_STYLES))]
    if target == "text":
        # unstructured header (Subject): Header / generator rendering of the same text
        import email.header
        from email.message import EmailMessage
        if style == "formataddr":
            value = email.header.Header(name, "utf-8").encode() if not _is_ascii(name) else name
        elif style == "header_q":
            value = email.header.Header(name, "iso-8859-1").encode() if not _is_ascii(name) else name
        else:
            m = EmailMessage()
            m["Subject"] = name
            value = email.message_from_bytes(m.as_bytes()).get("Subject")
        got = mb.decode_header_value(value)
        want = name if ctx.perturb != "expect_raw_encoded_word" else value
        ctx.require(" ".join(got.split()) == " ".join(want.split()), "decoded-header-text-differs", header=value, got=got, expected=name)
        return
    pairs = [(name, "u0@x.y")]
    if target == "list":
        menu = ctx.params.get("seconds") or list(range(len(SECOND_NAMES)))
        second = SECOND_NAMES[menu[ctx.choice("second", len(menu))]]
        if second is not None:
            pairs.append((second, "u1@x.y"))
            if ctx.flag("symbolic_name_second"):
                pairs.reverse()
    value = _render_address_list(style, pairs)
    # the rendering itself must be well formed: the standard library's structured parser reads the same list
    # back from it (guards against writer defects such as gh-121284)
    back = email.message_from_bytes(b"To: " + value.encode("ascii", "surrogateescape") + b"\n\n", policy=email.policy.default)["To"]
    ctx.assume([(a.display_name, a.addr_spec) for a in back.addresses] == pairs)
    if target == "single":
        a = mb.parse_email_address(value)
        got = [(a.name, a.address)]
    else:
        got = [(a.name, a.address) for a in mb.parse_email_addresses(value)]
    want = list(pairs)
    if ctx.perturb == "expect_raw_encoded_word":
        want = [(nm if _is_ascii(nm) else "=?utf-8?", ad) for nm, ad in want]
    ctx.require(len(got) == len(want), "recipient-count-differs", header=value, got=got, expected=want)
    ctx.require([g[1] for g in got] == [w[1] for w in want], "recipient-address-differs", header=value, got=got, expected=want)
    ctx.require(got == want, "recipient-display-name-differs", header=value, got=got, expected=want)


def _k3a_parts(tier):
    parts = []
    A = range(len(ADDR_ALPHABET))
    for n in (1, 2):
        parts += [{"target": t, "name_len": n} for t in ("list", "single", "text")]
    if tier == "quick":
        parts += [{"target": "list", "name_len": 3, "first": f, "seconds": [0, 3, 4]} for f in A]
        parts += [{"target": t, "name_len": 3} for t in ("single", "text")]
    else:
        parts += [{"target": "list", "name_len": 3, "first": f} for f in A]
        parts += [{"target": "list", "name_len": 4, "first": f, "seconds": [0, 3]} for f in A]
        parts += [{"target": t, "name_len": n, "first": f} for t in ("single", "text") for n in (3, 4) for f in A]
    return parts


def _k3a_targets():
    mb = _mbox()
    return [mb.parse_email_addresses, mb.parse_email_address, mb.decode_header_value]


def _k2_public_replay(kernel, tier, params, inputs):
    """replay of a routing counterexample through the same harness, then - for a skipped attachment - through
    the public API: a generated .eml with an attachment of that name and MIME type (plain text payload)"""
    v, detail = S.replay_concrete(k2_routing, inputs, tier=tier, params=params)
    out = {"violated": bool(v), "detail": detail}
    try:
        if v and detail and detail[0] == "supported-attachment-skipped":
            from email.message import EmailMessage
            info = detail[1]
            mt, _, st = (info.get("mime") or "application/octet-stream").partition("/")
            m = EmailMessage()
            m["From"], m["To"], m["Subject"], m["Date"] = "s@x.y", "t@x.y", "s", "Fri, 02 Jan 2015 03:04:05 +0000"
            m.set_content("body\n")
            m.add_attachment(b"attached text\n", maintype=mt or "application", subtype=st or "octet-stream",
                             filename=info.get("name") or "x")
            c = next(_eml().read_eml_format_mail(io.BytesIO(m.as_bytes()), "a.eml"))
            out["public_api"] = {"attachments": [(a.filename, a.mime_type, a.is_supported_mime_type) for a in c.attachments],
                                 "iterate_supported_attachments": [type(x).__name__ for x in c.iterate_supported_attachments()]}
    except Exception as ex:
        out["public_api_error"] = repr(ex)[:200]
    return out


_K1_SYMBOLIC = ["every content byte of every line (any byte but LF; K1b: CR only as the last byte of a line = LF/CRLF "
                "line ends)"]
_K2 = Kernel(
    "K2", "attachment routing: by name first, else by MIME type; unsupported skipped; encrypted re-raised; stream at 0 "
          "before and after", k2_routing, targets=_k2_targets, parts=_k2_parts,
    perturb=[("mime_first", {"name_len": None, "mime_lens": [15], "n_att": 1, "behaviours": 1}),
             ("errors_drop_results", {"name_len": None, "mime_lens": [15], "n_att": 1, "behaviours": 6})],
    symbolic=["every character of the attachment's file name (printable ASCII, length <= 5, thorough 6)",
              "every character of the declared MIME type (lengths of table keys and others)",
              "stream position before the call and where an extractor leaves the stream"],
    choices=["file name from a vocabulary (compound extensions, upper case, no extension ...) for the longer names",
             "MIME database answer for a name without documented extension", "extractor behaviour: one/two/no results, "
             "encrypted error, other ExtractionError after the first result, foreign exception", "1 or 2 attachments"],
    stubs=["_EXTRACTOR_REGISTRY -> same keys and function names, module of recording extractors",
           "mimetypes.guess_type -> arbitrary answer per distinct name (C07's oracle); None for concrete names with a "
           "documented extension", "os.path.splitext -> stdlib algorithm on the symbolic string (C07)",
           "attachment.data -> stand-in stream recording seek()"],
    assumptions=["EmailAttachment.is_supported_mime_type holds is_supported_mime_type(mime_type) as all three extractors "
                 "store it (computed with the real function)",
                 "reference routing: documented extension of the name (C07's README table), else the platform's MIME "
                 "guess for the name, else the declared MIME type through the MIME table; the table itself is read from "
                 "the live module"],
    outside=["what the real extractors do with the bytes (C02..C14)", "names longer than the bound except the vocabulary"],
    timeout={"quick": 110, "thorough": 2400}, max_depth=600)
_K2.replayer = _k2_public_replay

KERNELS = [
    Kernel("K1a", "separator language of the live MBOX_FROM_PATTERN: a match is one whole line starting at a line "
                  "start with 'From ', never an escaped '>From ' line; every RFC 4155 separator line is matched",
           k1a_language, engine="E3", targets=_k1_targets, parts=_k1a_parts,
           perturb=[("colon_separator", {"lens": [12]}), ("translator_off_by_one", {"samples": True})], symbolic=_K1_SYMBOLIC,
           assumptions=["translation of the pattern's sre parse tree into a formula per (start, end) by position-set "
                        "simulation; validated on every replayed model against re itself",
                        "RFC 4155 separator line: 'From ' addr-spec (printable ASCII, no quoted local part) ' ' ctime() "
                        "timestamp, LF or CRLF"],
           outside=["windows of more than 2 (3) lines / lines longer than the listed lengths (the pattern cannot match "
                    "across an LF, so lines are independent)",
                    "separator lines that begin with 'From ' but do not end in four digits (time zone names, trailing "
                    "blanks): reported as information, not as a violation"],
           timeout={"quick": 100, "thorough": 1200}),
    Kernel("K1b", "real _split_mbox_messages on symbolic mailboxes: the messages are exactly the regions after the "
                  "separator lines, in order, minus a CR/LF tail",
           k1b_split, targets=_k1_targets, parts=_k1b_parts,
           perturb=[("loose_separator", {"first": 6, "K": 2, "exact": True}),
                    ("sep_line_in_message", {"first": WF_MIN, "K": 2, "exact": True})],
           symbolic=_K1_SYMBOLIC, choices=["number of lines", "length of each line from a menu", "last line unterminated"],
           stubs=["MBOX_FROM_PATTERN -> finditer computed from the live pattern's parse tree on the symbolic bytes (the "
                  "solver decides per line whether it matches); concrete replay uses the real pattern"],
           assumptions=["well-formed mailbox: every line that begins with 'From ' is a complete RFC 4155 separator line "
                        "(body lines beginning with 'From ' are escaped by the writer)",
                        "a region that holds nothing but CR/LF is no message"],
           outside=["mailboxes of more than 3 (4) lines; line lengths outside the menu {0,1,6,31,32} (thorough {0,1,2,6,31,32}); CR inside a line"],
           timeout={"quick": 100, "thorough": 1500}),
    _K2,
    Kernel("K3r", "MSG recipient strings: one EmailAddress per mailbox, display name and address kept",
           k3r_recipients, targets=_k3r_targets, parts=_k3r_parts,
           perturb=[("expect_quotes_kept", {"mode": "header", "name_lens": [1], "max_boxes": 1}),
                    ("translator_drops_last", {"samples": True})],
           symbolic=["every character of every display name (printable ASCII, length <= 3, thorough 4)"],
           choices=["1 or 2 mailboxes", "form of each: name <addr>, \"name\" <addr>, <addr>, addr", "header string / list "
                    "of strings / PidTagDisplayTo name list"],
           stubs=["_split_recipient_list, _parse_single_recipient, _parse_multi_recipients run from their own source lifted "
                  "to symbolic strings (vf/lift.py); re.search / re.split inside them -> backtracking interpreter of the "
                  "same pattern text on symbolic characters; concrete replay runs the real functions"],
           assumptions=["unquoted display names hold no RFC 5322 specials, quoted ones no quote or backslash; no leading/"
                        "trailing blank or apostrophe (Outlook's 'name' wrapping is removed on purpose)"],
           outside=["escaped characters inside quoted display names, comments, group syntax, names longer than the bound",
                    "names-only display lists whose names contain a comma: ambiguous, split is documented"],
           timeout={"quick": 110, "thorough": 1200}, max_depth=800),
    Kernel("K3a", "mbox address / text headers: exactly the written (display name, address) pairs, in order, for every "
                  "display name over an alphabet of address specials and a non-ASCII letter, in every standard rendering",
           k3a_addresses, targets=_k3a_targets, parts=_k3a_parts, strength="structure",
           perturb=[("expect_raw_encoded_word", {"target": "list", "name_len": 1})],
           choices=["every character of the display name from {a B blank , ; < > \" @ u-umlaut} (all names up to 3, thorough "
                    "4, characters)", "rendering: email.utils.formataddr (quoted-string / one base64 word), email.header.Header "
                    "q-encoding (iso-8859-1), the generator of the modern API (word-wise encoded, folded)",
                    "second mailbox (plain, empty, encoded with comma, quoted with specials) before or after"],
           assumptions=["the rendering is well formed: the standard library's structured header parser reads the same list "
                        "back (excludes writer defects such as CPython gh-121284)",
                        "no leading/trailing blank or run of blanks in a display name; text headers compared modulo white-space runs"],
           outside=["display names longer than the bound or with characters outside the alphabet; comments, groups, "
                    "route addresses; encoded words split inside a multi-byte character",
                    "symbolic strings do not reach the functions (their work is done by email.utils / email.header in C): "
                    "exhaustive enumeration over the alphabet instead of solver-decided splits"],
           timeout={"quick": 100, "thorough": 1200}),
    Kernel("K3e", "eml mapping: every field mail-parser hands over arrives in EmailContent without loss",
           k3_eml, targets=lambda: [_eml()._read_eml_format], parts=_k3_parts, strength="structure",
           perturb=[("cc_keeps_entries_without_address", {"vary": "addr"})],
           stubs=["parse_from_bytes -> fake of the mail-parser result object"],
           choices=["address tuples incl. malformed / empty / comma in display name", "subject/date/ids present, padded, "
                    "None", "bodies as list / str / several parts", "0..2 attachments: base64 (folded or not) / text "
                    "payload, file name and type present or None"], core=False),
    Kernel("K3g", "msg mapping: fields of msg_parser / attachment streams of olefile arrive in EmailContent",
           k3_msg, targets=lambda: [_msg().read_msg_format_mail, _msg()._extract_msg_attachments, _msg()._read_ole_string],
           parts=_k3_parts, strength="structure", perturb=[("to_and_cc_swapped", {"vary": "addr"})],
           stubs=["MsOxMessage -> fake of the msg_parser object", "OleFileIO -> dict of streams"],
           choices=["sender/to/cc/bcc as string, list, None", "plain / HTML / empty body", "0..2 attachment storages with "
                    "long/short/no name, with/without MIME tag, with/without data stream, nested storage"], core=False),
    Kernel("K3m", "messages built with the stdlib email API: parse_email_message on the object, read_mbox / read_eml "
                  "on the generated bytes - every field, body and attachment arrives",
           k3m_generated, targets=_k3m_targets, parts=_k3m_parts, strength="structure",
           perturb=[("expect_one_more_message", {"via": "mbox", "vary": "mbox"})],
           choices=["From/To/Cc forms (quoted comma, non-ASCII names, folding, empty list)", "subject (RFC 2047, long, "
                    "pseudo-encoded)", "time zone", "plain / html / alternative (+related image)", "charset x transfer "
                    "encoding", "body line starting with 'From '", "0..2 attachments of 4 kinds (binary, latin-1 text, "
                    "RFC 2231 file name, 'From ' lines inside)", "mbox of 0..3 messages, LF/CRLF, two separator styles, "
                    "with/without final empty line"],
           assumptions=["reference = the values given to the stdlib API; bodies compared modulo CRLF/LF and surrounding "
                        "white space, subjects modulo white-space runs, dates as instants"],
           outside=["decoding inside email / mail-parser for inputs other than the generated ones",
                    "related (inline) parts are neither required nor forbidden as attachments"],
           timeout={"quick": 110, "thorough": 1500}, core=False),
]

META = {
    "level_text": "Decoding of headers, bodies and attachments is third-party code; the repository's own decisions are "
                  "checked: (K1) the live mbox separator pattern is translated into a formula over bounded symbolic "
                  "mailbox bytes - z3 shows that a match is always one whole line beginning 'From ' at a line start, "
                  "never an escaped line, that every RFC 4155 separator is matched, and the real _split_mbox_messages run "
                  "on symbolic mailboxes returns exactly the regions between separator lines; (K2) the real "
                  "iterate_supported_attachments + router run on symbolic attachment names and MIME types with recording "
                  "extractors (name first, then MIME, skip, encrypted re-raise, rewind); (K3r) the MSG recipient parser "
                  "runs lifted on symbolic display names; (K3a) the mbox address-header functions run on every display name up to 3 (4) "
                  "characters over {letters, blank, , ; < > \" @, non-ASCII} rendered as quoted-string / encoded words / "
                  "generator output and must return exactly the written (name, address) pairs; (K3e/K3g/K3m) field plumbing of the three extractors on fake "
                  "parser objects and on stdlib-generated messages, enumerated structurally.",
    "level_note": "Trusted: the regex-to-formula translation (validated against re on every replayed model), C07's model of "
                  "splitext, the lifting of string literals. Outside: RFC 2047 / charset / transfer decoding and the "
                  "address grammar beyond the generated cases, eml-vs-mbox agreement on representation (date offset), "
                  "real MSG/OLE parsing. Four genuine defects are recorded as known findings (attachment gate on MIME "
                  "flag, MSG recipient split, mbox attachments never populated, escaped From_ line kept).",
    "technique": "symbolic execution of the real functions on z3-backed byte/character proxies (symrun), regular "
                 "expressions as position-set formulas or as a forking backtracking interpreter, solver-free structure "
                 "enumeration for the plumbing kernels, concrete replay of every model",
}
