"""C16 - e-mail: headers, bodies, attachments and mailbox boundaries are exact.

Header/body/attachment DECODING is done by email / mail-parser / msg_parser / binascii (not
repository code).  What the repository itself decides is encoded here:

K1   separator language: the LIVE ``MBOX_FROM_PATTERN`` (its sre parse tree) is turned into a z3
     formula over bounded symbolic mailbox bytes (position-set simulation).  K1a proves per line window
     that a match is always one whole line that starts at a line start with ``From ``, never inside a
     ``>From `` line, and that every RFC 4155 separator line is matched.  K1b runs the REAL
     ``_split_mbox_messages`` on symbolic mailboxes with that formula model as the pattern object; the
     solver decides which lines are separators and how far the CR/LF tail of a message reaches.
K2   attachment routing: the REAL ``EmailContent.iterate_supported_attachments`` + router on symbolic
     attachment names / MIME types (C07's shadows), recording extractors, stand-in stream.
K3r  MSG recipient parsing: ``_parse_multi_recipients`` / ``_parse_single_recipient`` lifted to
     symbolic strings (their ``re`` calls run on a backtracking interpreter of the same patterns).
K3   mapping plumbing of the three extractors on fake parser objects (structure choices).
K4   generated messages (stdlib email generator) through the public entry points (structure choices).
"""
import base64
import io
import re
import sys
import types

import z3

from vf.core import Kernel
from vf import symrun as S


def _mbox():
    import sharepoint2text.parsing.extractors.mail.mbox_email_extractor as m
    return m


def _eml():
    import sharepoint2text.parsing.extractors.mail.eml_email_extractor as m
    return m


def _msg():
    import sharepoint2text.parsing.extractors.mail.msg_email_extractor as m
    return m


def _dt():
    import sharepoint2text.parsing.extractors.data_types as m
    return m


# =======================================================================================
# regular expressions on bounded symbolic sequences
# =======================================================================================
# Elements of a sequence are python ints or S.SymInt (``_B`` = SymInt that is known never to take
# some values, so that tests against those values are decided syntactically).

class _B(S.SymInt):
    def __init__(self, z, excl=()):
        S.SymInt.__init__(self, z)
        self.excl = frozenset(excl)


def _and(*xs):
    zs = []
    for x in xs:
        if x is False:
            return False
        if x is True:
            continue
        zs.append(x)
    if not zs:
        return True
    return z3.And(*zs) if len(zs) > 1 else zs[0]


def _or(*xs):
    zs = []
    for x in xs:
        if x is True:
            return True
        if x is False:
            continue
        zs.append(x)
    if not zs:
        return False
    return z3.Or(*zs) if len(zs) > 1 else zs[0]


def _not(x):
    if x is True:
        return False
    if x is False:
        return True
    return z3.Not(x)


def _eq(b, c):
    if isinstance(b, int):
        return b == c
    if isinstance(b, _B) and c in b.excl:
        return False
    return b.z == c


def _in_range(b, lo, hi):
    if isinstance(b, int):
        return lo <= b <= hi
    if isinstance(b, _B) and all(v in b.excl for v in range(lo, hi + 1)) and hi - lo < 4:
        return False
    return z3.And(b.z >= lo, b.z <= hi) if lo != hi else (b.z == lo)


def _parse(pattern, flags=0):
    import re._parser as P
    return P.parse(pattern, flags)


class _Rx:
    """a compiled ``re`` pattern (or pattern text) as its sre parse tree; ``is_bytes`` selects the
    ASCII character categories of bytes patterns (str patterns: the harnesses bound characters to
    printable ASCII, where both agree)"""

    def __init__(self, pattern, flags=0):
        if hasattr(pattern, "pattern"):
            flags = pattern.flags
            pattern = pattern.pattern
        self.text = pattern
        self.tree = _parse(pattern, flags)
        self.flags = self.tree.state.flags | flags
        self.multiline = bool(self.flags & re.MULTILINE)
        self.dotall = bool(self.flags & re.DOTALL)
        if self.flags & re.IGNORECASE:
            S._unsupported("regex model: IGNORECASE")
        self.items = list(self.tree)

    # ---- character tests: python bool or z3 Bool ----------------------------------------------
    _CATS = {
        "CATEGORY_DIGIT": ([(48, 57)], False), "CATEGORY_NOT_DIGIT": ([(48, 57)], True),
        "CATEGORY_SPACE": ([(9, 13), (32, 32)], False), "CATEGORY_NOT_SPACE": ([(9, 13), (32, 32)], True),
        "CATEGORY_WORD": ([(48, 57), (65, 90), (95, 95), (97, 122)], False),
        "CATEGORY_NOT_WORD": ([(48, 57), (65, 90), (95, 95), (97, 122)], True),
    }

    def test(self, op, av, b):
        if isinstance(b, int):
            return self._test(op, av, b)
        key = (b.z.get_id(), str(op), repr(av))
        hit = _TEST_CACHE.get(key)
        if hit is None:
            if len(_TEST_CACHE) > 200000:
                _TEST_CACHE.clear()
            hit = _TEST_CACHE[key] = (self._test(op, av, b), b)
        return hit[0]

    def _test(self, op, av, b):
        name = str(op)
        if name == "LITERAL":
            return _eq(b, av)
        if name == "NOT_LITERAL":
            return _not(_eq(b, av))
        if name == "ANY":
            return True if self.dotall else _not(_eq(b, 10))
        if name == "IN":
            neg = False
            parts = []
            for o, a in av:
                o = str(o)
                if o == "NEGATE":
                    neg = True
                elif o == "LITERAL":
                    parts.append(_eq(b, a))
                elif o == "RANGE":
                    parts.append(_in_range(b, a[0], a[1]))
                elif o == "CATEGORY":
                    ranges, cneg = self._CATS[str(a)]
                    r = _or(*[_in_range(b, lo, hi) for lo, hi in ranges])
                    parts.append(_not(r) if cneg else r)
                else:
                    S._unsupported("regex model: set item %s" % o)
            r = _or(*parts)
            return _not(r) if neg else r
        S._unsupported("regex model: %s" % name)

    def at(self, code, data, p):
        n = len(data)
        code = str(code)
        if code == "AT_BEGINNING":
            if p == 0:
                return True
            return _eq(data[p - 1], 10) if self.multiline else False
        if code == "AT_BEGINNING_STRING":
            return p == 0
        if code == "AT_END":
            if p == n:
                return True
            if self.multiline:
                return _eq(data[p], 10)
            return _eq(data[p], 10) if p == n - 1 else False
        if code == "AT_END_STRING":
            return p == n
        S._unsupported("regex model: anchor %s" % code)

    # ---- position-set simulation: {end position: condition} -----------------------------------
    def ends(self, data, starts, items=None):
        """starts: {pos: cond}.  Returns {pos: cond}: the pattern (sequence ``items``) can match
        data[s:pos] for a start s with cond(s).  Boolean acceptance only (no priorities).
        Top-level calls from a single unconditional start are cached across paths (z3 constants of
        equal name are the same term, so the formula of an equal sequence is the same formula)."""
        key = None
        if items is None and len(starts) == 1 and next(iter(starts.values())) is True:
            key = (self.text, self.flags, next(iter(starts)),
                   tuple(e if isinstance(e, int) else ("z", e.z.get_id()) for e in data))
            hit = _ENDS_CACHE.get(key)
            if hit is not None:
                return dict(hit[0])
        out = self._ends(data, starts, self.items if items is None else items)
        if key is not None:
            if len(_ENDS_CACHE) > 20000:
                _ENDS_CACHE.clear()
            _ENDS_CACHE[key] = (dict(out), list(data))      # keeps the terms (and their ids) alive
        return out

    def _single(self, sub):
        return len(sub) == 1 and str(sub[0][0]) in ("LITERAL", "NOT_LITERAL", "ANY", "IN")

    def _ends(self, data, starts, items):
        cur = dict(starts)
        for op, av in items:
            name = str(op)
            nxt = {}

            def put(p, c, nxt=nxt):
                if c is False:
                    return
                nxt[p] = _or(nxt[p], c) if p in nxt else c
            if name in ("LITERAL", "NOT_LITERAL", "ANY", "IN"):
                for p, c in cur.items():
                    if p < len(data):
                        put(p + 1, _and(c, self.test(op, av, data[p])))
            elif name == "AT":
                for p, c in cur.items():
                    put(p, _and(c, self.at(av, data, p)))
            elif name == "SUBPATTERN":
                for p, c in self._ends(data, cur, av[3]).items():
                    put(p, c)
            elif name == "BRANCH":
                for alt in av[1]:
                    for p, c in self._ends(data, cur, alt).items():
                        put(p, c)
            elif name in ("MAX_REPEAT", "MIN_REPEAT"):
                lo, hi, sub = av
                if lo <= 1 and hi >= len(data) and self._single(sub) and cur:
                    # x* / x+ of a single character test: linear closure
                    sop, sav = sub[0]
                    reach = False
                    for p in range(min(cur), len(data) + 1):
                        # reach = "some start <= p is connected to p by matching characters"
                        here = _or(cur.get(p, False), reach)
                        if lo == 0:
                            put(p, here)
                        elif reach is not False:
                            put(p, reach)
                        reach = _and(here, self.test(sop, sav, data[p])) if p < len(data) else False
                    cur = nxt
                    if not cur:
                        break
                    continue
                if lo == 0:
                    for p, c in cur.items():
                        put(p, c)
                step = cur
                t = 0
                while step and t < hi and t <= len(data) + 1:
                    step = self._ends(data, step, sub)
                    t += 1
                    if t >= lo:
                        for p, c in step.items():
                            put(p, c)
            else:
                S._unsupported("regex model: %s" % name)
            cur = nxt
            if not cur:
                break
        return cur

    # ---- backtracking interpreter (re's own priorities; character tests fork) -----------------
    def _bt(self, data, items, idx, pos, groups, cont):
        if idx == len(items):
            return cont(pos, groups)
        op, av = items[idx]
        name = str(op)
        if name in ("LITERAL", "NOT_LITERAL", "ANY", "IN"):
            if pos < len(data) and _truth(self.test(op, av, data[pos])):
                return self._bt(data, items, idx + 1, pos + 1, groups, cont)
            return None
        if name == "AT":
            if _truth(self.at(av, data, pos)):
                return self._bt(data, items, idx + 1, pos, groups, cont)
            return None
        if name == "SUBPATTERN":
            g, sub = av[0], av[3]

            def after(p, gs):
                if g is not None:
                    gs = dict(gs)
                    gs[g] = (pos, p)
                return self._bt(data, items, idx + 1, p, gs, cont)
            return self._bt(data, sub, 0, pos, groups, after)
        if name == "BRANCH":
            for alt in av[1]:
                r = self._bt(data, alt, 0, pos, groups,
                             lambda p, gs: self._bt(data, items, idx + 1, p, gs, cont))
                if r is not None:
                    return r
            return None
        if name in ("MAX_REPEAT", "MIN_REPEAT"):
            lo, hi, sub = av
            greedy = name == "MAX_REPEAT"

            def rep(count, p, gs):
                def more():
                    if count >= hi:
                        return None
                    return self._bt(data, sub, 0, p, gs,
                                    lambda p2, gs2: rep(count + 1, p2, gs2) if (p2 != p or count < lo) else None)

                def stop():
                    if count < lo:
                        return None
                    return self._bt(data, items, idx + 1, p, gs, cont)
                for f in ((more, stop) if greedy else (stop, more)):
                    r = f()
                    if r is not None:
                        return r
                return None
            return rep(0, pos, groups)
        S._unsupported("regex model: %s" % name)

    def search_bt(self, data, start=0):
        """leftmost match with re's priorities: (start, end, groups) or None"""
        for i in range(start, len(data) + 1):
            r = self._bt(data, self.items, 0, i, {}, lambda p, gs: (p, gs))
            if r is not None:
                return i, r[0], r[1]
        return None


_ENDS_CACHE = {}
_TEST_CACHE = {}


def _truth(c):
    """python bool of a condition; a symbolic one forks (decided by the solver)"""
    if c is True or c is False:
        return c
    return bool(S.SymBool(c))


def _holds(ctx, c):
    """truth of a formula under concrete replay / as z3 term otherwise"""
    if isinstance(c, bool):
        return c
    return c


# =======================================================================================
# K1  mbox separator language
# =======================================================================================
# RFC 4155 (the application/mbox registration), "default mbox format": a separator line is the exact
# characters "From", one space, the sender's addr-spec, one space, a timestamp in the UNIX ctime()
# form without time zone, an end-of-line marker.  ctime(): "Www Mmm dd hh:mm:ss yyyy", day of month
# padded with a space.  (addr-spec without quoted strings: printable ASCII without white space.)
WF_SEPARATOR = (rb"From [!-~]+ (Mon|Tue|Wed|Thu|Fri|Sat|Sun) "
                rb"(Jan|Feb|Mar|Apr|May|Jun|Jul|Aug|Sep|Oct|Nov|Dec) [ 0-3][0-9] "
                rb"[0-2][0-9]:[0-5][0-9]:[0-6][0-9] [0-9]{4}\r?\n")
WF_MIN = 5 + 1 + 1 + 24        # shortest content of a well-formed separator line (no CR)
FROM_ = b"From "


_BYTE_TERMS = {}


def _content_byte(ctx, name, cr=True):
    """any byte but LF (cr=False: and but CR)"""
    x = ctx.fresh_int(name, 0, 254 if cr else 253)
    if ctx.concrete:
        return x + (1 if x >= 10 else 0) + (1 if (x >= 12 and not cr) else 0)
    key = (x.z.get_id(), cr)
    hit = _BYTE_TERMS.get(key)
    if hit is None:
        t = x.z + z3.If(x.z >= 10, 1, 0)
        if not cr:
            t = t + z3.If(x.z >= 12, 1, 0)
        hit = _BYTE_TERMS[key] = (_B(t, {10} if cr else {10, 13}), x)
    return hit[0]


def _starts(data, pos, lit):
    if pos + len(lit) > len(data):
        return False
    return _and(*[_eq(data[pos + i], c) for i, c in enumerate(lit)])


def _zbool(c):
    return z3.BoolVal(c) if isinstance(c, bool) else c


def _lines(ctx, lens, last_open=False, inner_cr=True):
    """mailbox bytes of len(lens) lines with symbolic content and LF terminators (inner_cr=False: a CR
    only as the last content byte of a line, i.e. LF or CRLF line ends).
    Returns (data list, [(start, end_of_content, end_incl_eol)])"""
    data, spans = [], []
    for k, n in enumerate(lens):
        a = len(data)
        for i in range(n):
            data.append(_content_byte(ctx, f"l{k}[{i}]", cr=inner_cr or i == n - 1))
        b = len(data)
        if not (last_open and k == len(lens) - 1):
            data.append(10)
        spans.append((a, b, len(data)))
    return data, spans


def k1a_language(ctx):
    """facts about the live pattern on a window of lines, every content byte symbolic"""
    m = _mbox()
    lens = ctx.params["lens"]
    data, spans = _lines(ctx, lens)
    n = len(data)
    line_at = {a: (a, b, e) for a, b, e in spans}
    if ctx.concrete:
        raw = bytes(data)
        found = {}
        # every (start, end) at which the real pattern can match (re.match at each position finds
        # the preferred end; the pattern's last item is a literal LF so the end is unique per start)
        for i in range(n + 1):
            mt = m.MBOX_FROM_PATTERN.match(raw, i)
            if mt is not None:
                found[i] = mt.end()
        for i, j in found.items():
            ctx.require(i in line_at, "match-starts-inside-a-line", start=i, data=repr(raw))
            a, b, e = line_at[i]
            ctx.require(j == e, "match-is-not-one-whole-line", start=i, end=j, data=repr(raw))
            want = b"From:" if ctx.perturb == "colon_separator" else FROM_
            ctx.require(raw[a:b].startswith(want), "matched-line-does-not-start-with-From_", data=repr(raw))
            ctx.require(not raw[a:b].startswith(b">From "), "match-inside-escaped-line", data=repr(raw))
        wf = re.compile(WF_SEPARATOR)
        for a, b, e in spans:
            if wf.fullmatch(raw[a:e]):
                ctx.require(found.get(a) == e, "rfc4155-separator-not-matched", line=repr(raw[a:e]))
        return
    rx = _Rx(m.MBOX_FROM_PATTERN)
    wf = _Rx(WF_SEPARATOR)
    gap_seen = False
    for i in range(n + 1):
        E = rx.ends(data, {i: True})
        for j, c in sorted(E.items()):
            if c is False:
                continue
            if i not in line_at:
                ctx.require(_not(_zbool(c)), "match-starts-inside-a-line", start=i, end=j)
                continue
            a, b, e = line_at[i]
            if j != e:
                ctx.require(_not(_zbool(c)), "match-is-not-one-whole-line", start=i, end=j)
                continue
            want = b"From:" if ctx.perturb == "colon_separator" else FROM_
            ctx.require(z3.Implies(_zbool(c), _zbool(_starts(data, a, want))),
                        "matched-line-does-not-start-with-From_", line=spans.index((a, b, e)))
            ctx.require(_not(_and(_zbool(c), _zbool(_starts(data, a, b">From ")))),
                        "match-inside-escaped-line", line=spans.index((a, b, e)))
    for k, (a, b, e) in enumerate(spans):
        E = rx.ends(data, {a: True})
        code = _zbool(E.get(e, False))
        W = wf.ends(data, {a: True}).get(e, False)
        if W is not False:
            ctx.require(z3.Implies(_zbool(W), code), "rfc4155-separator-not-matched", line=k)
        # information: a line that begins with "From " (a separator in the loose mboxo reading, and
        # for the stdlib mailbox module) which the pattern does not match
        loose = _starts(data, a, FROM_)
        if loose is not False and not gap_seen:
            s = ctx.solver
            s.push()
            s.add(_zbool(loose), z3.Not(code))
            if s.check() == z3.sat:
                ctx.note("information: a line starting with 'From ' exists that the pattern does not match "
                         "(no 4-digit group right before the end of line)")
                gap_seen = True
            s.pop()
    ctx.require(True, "facts-checked")


def _k1a_parts(tier):
    if tier == "quick":
        windows = [[0], [4], [5], [6], [10], [11], [12], [3, 11], [11, 3], [12, 12],
                   [WF_MIN], [WF_MIN + 1], [WF_MIN + 2], [2, WF_MIN + 1]]
    else:
        windows = [[n] for n in range(0, 20)] + [[a, b] for a in (0, 3, 11, 12) for b in (0, 3, 11, 12, 13)] + \
                  [[n] for n in range(WF_MIN - 1, WF_MIN + 8)] + [[WF_MIN + 1, WF_MIN + 2], [11, 2, 12]]
    return [{"lens": w} for w in windows]


class _MBytes:
    """mailbox bytes for the REAL _split_mbox_messages: concrete length, symbolic content; a slice
    remembers where it came from, rstrip forks on each trailing byte"""

    def __init__(self, elems, off=0):
        self.e = list(elems)
        self.off = off

    def __len__(self):
        return len(self.e)

    def __bool__(self):
        return len(self.e) > 0

    def __getitem__(self, i):
        if isinstance(i, slice):
            if i.step not in (None, 1):
                S._unsupported("mailbox bytes: slice step")
            a, b, _ = i.indices(len(self.e))
            return _MBytes(self.e[a:b] if b > a else [], self.off + a)
        return self.e[i]

    def rstrip(self, chars=None):
        if chars is None:
            S._unsupported("mailbox bytes: rstrip() without argument")
        j = len(self.e)
        while j > 0 and _truth(_or(*[_eq(self.e[j - 1], c) for c in bytes(chars)])):
            j -= 1
        return _MBytes(self.e[:j], self.off)

    def __eq__(self, o):
        S._unsupported("mailbox bytes: ==")

    __hash__ = None


class _SymMatch:
    def __init__(self, a, b):
        self._a, self._b = a, b

    def start(self, g=0):
        return self._a

    def end(self, g=0):
        return self._b

    def span(self, g=0):
        return self._a, self._b


class _SymPattern:
    """MBOX_FROM_PATTERN stand-in built from the live pattern: finditer over symbolic bytes.  For
    each start (left to right) the feasible ends are decided by the solver."""

    def __init__(self, live):
        self.rx = _Rx(live)
        self.pattern = live.pattern
        self.flags = live.flags

    def finditer(self, data, *a):
        if a:
            S._unsupported("pattern stand-in: finditer(pos)")
        seq = data.e if isinstance(data, _MBytes) else list(data)
        out, pos, n = [], 0, len(seq)
        while pos <= n:
            hit = None
            for i in range(pos, n + 1):
                E = self.rx.ends(seq, {i: True})
                true_ends = [j for j, c in sorted(E.items()) if _truth(c)]
                if len(true_ends) > 1:
                    S._unsupported("pattern stand-in: several match ends from one start (priorities not modelled)")
                if true_ends:
                    hit = (i, true_ends[0])
                    break
            if hit is None:
                break
            if hit[1] == hit[0]:
                S._unsupported("pattern stand-in: empty match")
            out.append(_SymMatch(*hit))
            pos = hit[1]
        return iter(out)


def k1b_split(ctx):
    """REAL _split_mbox_messages on a mailbox of K lines with symbolic content"""
    m = _mbox()
    lens_menu = ctx.params["menu"]
    K = ctx.params["K"]
    first = ctx.params.get("first")
    lens = []
    nl = K if ctx.params.get("exact") else 1 + ctx.choice("n_lines_minus_1", K)
    for k in range(nl):
        if k == 0 and first is not None:
            lens.append(first)
        else:
            lens.append(lens_menu[ctx.choice(f"len{k}", len(lens_menu))])
    last_open = ctx.flag("last_line_unterminated")
    data, spans = _lines(ctx, lens, last_open, inner_cr=False)
    n = len(data)
    loose = ctx.perturb == "loose_separator"

    # ---- reference (RFC 4155 / mboxo): a separator is a line that begins with "From "; in a
    # well-formed mailbox every such line is a complete RFC 4155 separator line (body lines that
    # begin with "From " were escaped by the writer) -------------------------------------------
    if ctx.concrete:
        raw = bytes(data)
        wfre = re.compile(WF_SEPARATOR)
        is_sep = []
        for a, b, e in spans:
            fr = raw[a:b].startswith(FROM_)
            wf = bool(wfre.fullmatch(raw[a:e]))
            if not loose:
                ctx.assume((not fr) or wf)
            is_sep.append(fr)
        try:
            got = m._split_mbox_messages(raw)
        except Exception as ex:
            ctx.fail("split-raised", exc=type(ex).__name__, msg=str(ex)[:100], data=repr(raw))
        got_spans = None
    else:
        wfx = _Rx(WF_SEPARATOR)
        sym_sep = []
        for a, b, e in spans:
            fr = _starts(data, a, FROM_)
            wf = wfx.ends(data, {a: True}).get(e, False) if e > b else False
            if not loose and fr is not False:
                # (always satisfiable together with everything assumed before: lines are independent;
                # added without the engine's feasibility check)
                ctx.solver.add(z3.Implies(_zbool(fr), _zbool(wf)))
            sym_sep.append(fr)
        pat = _SymPattern(m.MBOX_FROM_PATTERN)
        with ctx.shadow(m, MBOX_FROM_PATTERN=pat):
            try:
                got = m._split_mbox_messages(_MBytes(data))
            except S.Unsupported:
                raise
            except Exception as ex:
                ctx.fail("split-raised", exc=type(ex).__name__, msg=str(ex)[:100])
        is_sep = [_truth(c) for c in sym_sep]
        raw = None
    info = dict(data=repr(raw)) if raw is not None else {}
    ctx.require(isinstance(got, list), "split-does-not-return-a-list", **info)

    # ---- oracle: message i = the bytes after separator line i up to the next separator line (or
    # the end) without (at least: nothing but) a CR/LF tail; regions of CR/LF only give no message;
    # order kept; nothing else is a message --------------------------------------------------------
    sep_idx = [k for k, s in enumerate(is_sep) if s]
    j = 0
    for t, k in enumerate(sep_idx):
        ra = spans[k][2]
        if ctx.perturb == "sep_line_in_message":
            ra = spans[k][0]
        rb = spans[sep_idx[t + 1]][0] if t + 1 < len(sep_idx) else n
        blank = _and(*[_or(_eq(data[p], 13), _eq(data[p], 10)) for p in range(ra, rb)])
        if _truth(blank):
            continue
        ctx.require(j < len(got), "message-lost", message=t, **info)
        g = got[j]
        j += 1
        if ctx.concrete:
            ga, gb = ra, ra + len(g)
            ctx.require(raw[ga:gb] == g and gb <= rb, "message-is-not-the-region-after-its-separator",
                        message=t, got=repr(g[:40]), **info)
        else:
            ga, gb = g.off, g.off + len(g)
            ctx.require(ga == ra and gb <= rb, "message-is-not-the-region-after-its-separator",
                        message=t, got=[ga, gb], region=[ra, rb])
        ctx.require(gb > ga, "empty-message-returned", message=t, **info)
        tail = _and(*[_or(_eq(data[p], 13), _eq(data[p], 10)) for p in range(gb, rb)])
        ctx.require(_zbool(tail) if not ctx.concrete else tail, "message-cut-before-its-end", message=t,
                    got=[ga, gb], region=[ra, rb], **info)
    ctx.require(j == len(got), "message-invented", got=len(got), expected=j, **info)


def _k1b_parts(tier):
    if tier == "quick":
        menu, K = [0, 1, 6, WF_MIN, WF_MIN + 1], 3
    else:
        menu, K = [0, 1, 2, 6, 12, WF_MIN, WF_MIN + 1, WF_MIN + 2], 4
    return [{"menu": menu, "K": K, "first": f} for f in menu]


def _k1_targets():
    return [_mbox()._split_mbox_messages]



# =======================================================================================
# K2  attachment routing
# =======================================================================================
FAKE_MOD = "vf_c16_recording_extractors"
NAME_VOCAB = ["x.tar.gz", "report.final.PDF", "noext", "archive.tar.bz2", "mail.mbox", "a.unknownext",
              "Sheet.XLSX", ".docx", "page.mhtml", "b.gz"]


# extractor behaviours: 0 one result, 1 two results, 2 none, 3 encrypted error, 4 other ExtractionError after
# the first result, 5 foreign exception at once; a part with b behaviours uses the first b of BEH_ORDER
BEH_ORDER = [0, 3, 4, 5, 1, 2]


class _Stream:
    """stand-in for the attachment's BytesIO: position is whatever seek() was given"""

    def __init__(self, idx, pos):
        self.idx, self.pos, self.seeks, self.writes = idx, pos, [], 0

    def seek(self, p, whence=0):
        if whence != 0:
            S._unsupported("stream stand-in: seek whence")
        self.seeks.append(p)
        self.pos = p
        return p

    def tell(self):
        return self.pos

    def read(self, n=-1):
        return b""

    def getvalue(self):
        return b""

    def write(self, b):
        self.writes += 1


def _fake_registry(ctx, r, log):
    """_EXTRACTOR_REGISTRY with the same keys and function names, pointing at a module of recording
    extractors.  An extractor's behaviour is chosen when it is called (ctx.choice)."""
    from sharepoint2text.parsing.exceptions import ExtractionFailedError, ExtractionFileEncryptedError
    mod = types.ModuleType(FAKE_MOD)
    n_beh = ctx.params.get("behaviours", 6)

    def make(fn_name):
        def extractor(stream, path=None):
            rec = {"fn": fn_name, "stream": stream, "path": path, "pos_at_call": stream.pos, "yielded": 0}
            log.append(rec)
            idx = getattr(stream, "idx", 0)
            nb = n_beh[min(idx, len(n_beh) - 1)] if isinstance(n_beh, list) else n_beh
            beh = BEH_ORDER[ctx.choice(f"behaviour{idx}", nb)] if nb > 1 else 0
            rec["behaviour"] = beh
            # the extractor reads: the stream is left somewhere else
            stream.pos = ctx.fresh_int(f"extractor_leaves_stream_at{getattr(stream, 'idx', 0)}", 0, 2 ** 31)
            if beh == 3:
                raise ExtractionFileEncryptedError("encrypted")
            if beh == 5:
                raise ValueError("broken attachment")
            if beh == 2:
                return
            rec["yielded"] = 1
            yield ("result", getattr(stream, "idx", 0), 0)
            if beh == 4:
                raise ExtractionFailedError("failed after the first unit")
            if beh == 1:
                rec["yielded"] = 2
                yield ("result", getattr(stream, "idx", 0), 1)
        extractor.__name__ = fn_name
        return extractor
    reg = {}
    for ft, (_m, fn) in r._EXTRACTOR_REGISTRY.items():
        if not hasattr(mod, fn):
            setattr(mod, fn, make(fn))
        reg[ft] = (FAKE_MOD, fn)
    sys.modules[FAKE_MOD] = mod
    return reg


def _mime_table_lookup(table, mime):
    """reference lookup of a (possibly symbolic) MIME string in a plain dict: forks per key of equal length"""
    if mime is None:
        return None
    if isinstance(mime, str):
        return table.get(mime)
    for k, v in table.items():
        if len(k) == len(mime) and bool(mime == k):
            return v
    return None


def k2_routing(ctx):
    from sharepoint2text.parsing import router as r
    from sharepoint2text.parsing import mime_types as mt
    from sharepoint2text.parsing.exceptions import ExtractionFileEncryptedError
    from vf.props import c07
    dt = _dt()
    table = dict(mt.MIME_TYPE_MAPPING)            # the documented MIME table (snapshot for the oracle)
    n_att = ctx.params.get("n_att", 1)
    name_len = ctx.params.get("name_len")
    mime_lens = ctx.params["mime_lens"]
    log = []
    reg = _fake_registry(ctx, r, log)
    mime = c07.MimeStub(ctx, r)
    mime.classes = [None, "application/pdf", "x-unknown/type"]
    if ctx.concrete:
        cm_r = ctx.stub(r, mimetypes=mime, _EXTRACTOR_REGISTRY=reg)
        cm_m = ctx.stub(mt)
    else:
        sh = c07._shadows(ctx, r, mime)
        sh["_EXTRACTOR_REGISTRY"] = S.SymMap(reg)
        cm_r = ctx.shadow(r, **sh)
        cm_m = ctx.shadow(mt, MIME_TYPE_MAPPING=S.SymMap(table))
    atts, meta = [], []
    with cm_r, cm_m:
        for i in range(n_att):
            if name_len is not None and i == 0:
                name = ctx.fresh_chars(f"name{i}", name_len, 32, 126)
                dot = ctx.params.get("last_dot")
                if dot is not None and not ctx.concrete:
                    # partition of the names by the position of the last dot (-1: no dot)
                    for q in range(name_len):
                        if q == dot:
                            ctx.assume(name.c[q] == 46)
                        elif q > dot:
                            ctx.assume(name.c[q] != 46)
            elif i == 0 and ctx.params.get("first_vocab") is not None:
                name = NAME_VOCAB[ctx.params["first_vocab"]]
            else:
                name = NAME_VOCAB[ctx.choice(f"name{i}_vocab", ctx.params.get("vocab", len(NAME_VOCAB)))]
            ml = mime_lens[ctx.choice(f"mime{i}_len", len(mime_lens))]
            mtype = ctx.fresh_chars(f"mime{i}", ml, 33, 126)
            pos0 = ctx.fresh_int(f"stream{i}_initial_position", 0, 2 ** 31)
            st = _Stream(i, pos0)
            # the flag is what the extractors store: is_supported_mime_type(mime_type) (real function)
            flag = mt.is_supported_mime_type(mtype)
            ctx.require(flag is True or flag is False, "is_supported_mime_type-not-bool", got=repr(flag))
            atts.append(dt.EmailAttachment(filename=name, mime_type=mtype, data=st, is_supported_mime_type=flag))
            meta.append((name, mtype, st, pos0))
        content = dt.EmailContent(from_email=dt.EmailAddress(), attachments=atts)
        got, raised = [], None
        try:
            for res in content.iterate_supported_attachments():
                got.append(res)
        except ExtractionFileEncryptedError as e:
            raised = e
        except S.Unsupported:
            raise
        except Exception as e:
            ctx.fail("iteration-raised-something-else", exc=type(e).__name__, msg=str(e)[:100])

        # ---- oracle ---------------------------------------------------------------------------
        known = "C16-attachment-supported-by-name-skipped-for-mime" in (ctx.params.get("known_active") or ()) \
            and not ctx.perturb
        exp_results, exp_raise, k = [], False, 0
        for i, (name, mtype, st, pos0) in enumerate(meta):
            info = dict(attachment=i, name=str(name), mime=str(mtype))
            low = name.lower()
            by_name = c07._spec_expected(low, None)                 # documented extension -> extractor
            by_mime = _mime_table_lookup(table, mtype)
            exp = by_name
            if exp is None:
                guess = mime.guess_type(low)[0]                      # what the platform says about the name
                if guess is not None and guess in table:
                    exp = c07.DOC_SPEC[table[guess]]
                    by_name = exp
            if exp is None and by_mime is not None:
                exp = c07.DOC_SPEC[by_mime]
            if ctx.perturb == "mime_first" and by_mime is not None:
                exp = c07.DOC_SPEC[by_mime]
            if known and by_name is not None and by_mime is None:
                ctx.note("path-in-class-of-known-finding:C16-attachment-supported-by-name-skipped-for-mime")
                exp = None
            calls = [rec for rec in log if rec["stream"] is st]
            if exp is None:
                ctx.require(not calls, "unsupported-attachment-was-extracted", fn=calls[0]["fn"] if calls else None, **info)
                continue
            ctx.require(len(calls) == 1, "supported-attachment-skipped" if not calls else "attachment-extracted-twice",
                        expected=exp, by_name=by_name, by_mime=by_mime, **info)
            rec = calls[0]
            ctx.require(rec["fn"] == exp, "attachment-routed-to-another-extractor", expected=exp, got=rec["fn"], **info)
            ctx.require(rec["path"] is name, "extractor-does-not-get-the-attachment-name", **info)
            ctx.require(rec["pos_at_call"] == 0, "stream-not-at-start-when-extracted", **info)
            ctx.require(st.pos == 0, "stream-not-rewound-after-extraction", behaviour=rec["behaviour"], **info)
            ctx.require(st.writes == 0, "attachment-stream-written", **info)
            beh = rec["behaviour"]
            n_res = {0: 1, 1: 2, 2: 0, 3: 0, 4: 1, 5: 0}[beh]
            if ctx.perturb == "errors_drop_results" and beh == 4:
                n_res = 0
            exp_results += [("result", i, t) for t in range(n_res)]
            if beh == 3:
                exp_raise = True
                break
        ctx.require((raised is not None) == exp_raise, "encrypted-attachment-not-reported" if exp_raise
                    else "encrypted-error-without-encrypted-attachment", raised=repr(raised))
        ctx.require(got == exp_results, "results-differ-from-extracting-each-supported-attachment", got=got,
                    expected=exp_results)


def _k2_parts(tier):
    key_lens = sorted({len(k) for k in __import__("sharepoint2text.parsing.mime_types", fromlist=["x"]).MIME_TYPE_MAPPING})
    def sym(n, mls, split_from):
        if n < split_from:
            return [{"name_len": n, "mime_lens": mls, "n_att": 1, "behaviours": 1}]
        return [{"name_len": n, "mime_lens": mls, "n_att": 1, "behaviours": 1, "last_dot": d} for d in range(-1, n)]
    if tier == "quick":
        parts = []
        for n in range(0, 5):
            parts += sym(n, [0, 15, 24], 4)
        parts += sym(5, [15], 4)
        parts += [{"name_len": None, "mime_lens": [9, 24], "n_att": 1, "behaviours": 6},
                  {"name_len": None, "mime_lens": [15], "n_att": 2, "behaviours": [4, 2], "vocab": 3}]
    else:
        parts = []
        for n in range(0, 8):
            parts += sym(n, [0, 10, 15, 16, 24] if n < 6 else [15], 4)
        parts += [{"name_len": None, "mime_lens": [ml], "n_att": 1, "behaviours": 6} for ml in key_lens + [1, 30]]
        parts += [{"name_len": None, "mime_lens": [15, 24], "n_att": 2, "behaviours": [6, 4], "vocab": 3, "first_vocab": v}
                  for v in range(3)]
        parts += [{"name_len": 4, "mime_lens": [15], "n_att": 2, "behaviours": [4, 2], "vocab": 3, "last_dot": d}
                  for d in range(-1, 4)]
    return parts


def _k2_targets():
    from sharepoint2text.parsing import router as r
    from sharepoint2text.parsing import mime_types as mt
    return [_dt().EmailContent.iterate_supported_attachments, mt.is_supported_mime_type, r.get_extractor,
            r._file_type_from_extension, r._get_extractor]


KERNELS = [
    Kernel("K1a", "separator language of the live MBOX_FROM_PATTERN: a match is one whole line starting at a line "
                  "start with 'From ', never an escaped '>From ' line; every RFC 4155 separator line is matched",
           k1a_language, engine="E3", targets=_k1_targets, parts=_k1a_parts,
           perturb=[("colon_separator", {"lens": [12]})],
           timeout={"quick": 100, "thorough": 1200}),
    Kernel("K1b", "real _split_mbox_messages on symbolic mailboxes (pattern = formula model of the live pattern)",
           k1b_split, targets=_k1_targets, parts=_k1b_parts,
           perturb=[("loose_separator", {"first": 6, "K": 2, "exact": True}),
                    ("sep_line_in_message", {"first": WF_MIN, "K": 2, "exact": True})],
           timeout={"quick": 100, "thorough": 1200}),
]
KERNELS.append(
    Kernel("K2", "attachment routing: by name first, else by MIME type; unsupported skipped; encrypted re-raised; "
                 "stream at 0 before and after", k2_routing, targets=_k2_targets, parts=_k2_parts,
           perturb=[("mime_first", {"name_len": None, "mime_lens": [15], "n_att": 1, "behaviours": 1}),
                    ("errors_drop_results", {"name_len": None, "mime_lens": [15], "n_att": 1, "behaviours": 6})],
           timeout={"quick": 110, "thorough": 1200}, max_depth=600))

META = {"level_text": "", "level_note": "", "technique": ""}
