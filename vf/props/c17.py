"""C17 - removed markup is removed completely and takes nothing else with it.

A symbolic document structure  A <r> item* </r> B  (r a removable element, items: hidden text,
start tag / end tag / self-closing tag with a SYMBOLIC tag name, comment) is lowered to the
callback sequence html.parser.HTMLParser delivers for it and fed to the REAL handlers of
html_extractor._HtmlTreeBuilder (+ _HtmlTextExtractor.extract) and epub_extractor.
_XhtmlTextExtractor.  The handlers' own ``in REMOVE_TAGS`` / ``in _VOID_TAGS`` / ``== tag``
tests partition the tag names.  A counterexample is rendered to HTML and replayed through the
real feed() and the public read_html / read_mhtml / msg._html_to_text / EPUB chapter path.
"""
import io

from vf.core import Kernel
from vf import symrun as S

REMOVABLE = ("script", "style", "noscript", "iframe", "object", "embed", "applet")   # property text
CDATA = ("script", "style")      # html.parser.HTMLParser.CDATA_CONTENT_ELEMENTS
VOID_REMOVABLE = ("embed",)      # HTML void element: has no content and no end tag
TAG_LENGTHS = (1, 2, 3, 5, 6)    # b / br / img / embed,param,style / script,object,source,applet,iframe


def _mods():
    import sharepoint2text.parsing.extractors.html_extractor as h
    import sharepoint2text.parsing.extractors.epub_extractor as e
    return h, e


def _sym_tag(ctx, name):
    """tag name as html.parser reports it: lower-case, first char a letter"""
    n = TAG_LENGTHS[ctx.choice(name + "_len", len(TAG_LENGTHS))]
    t = ctx.fresh_chars(name, n, 48, 122)
    if not ctx.concrete:
        for i, ch in enumerate(t.c):
            if i == 0:
                ctx.assume(ch >= 97)
            else:
                ctx.assume((ch <= 57) | (ch >= 97))
    else:
        for i, ch in enumerate(t):
            ok = ("a" <= ch <= "z") or (i > 0 and "0" <= ch <= "9")
            ctx.assume(ok)
    return t


def _gen(ctx):
    """symbolic structure -> (tokens, expected visible markers, hidden markers)
    tokens: ("text", s) ("start", tag) ("end", tag) ("startend", tag) ("comment", s)"""
    n_items = ctx.params.get("items", 2)
    outer = REMOVABLE[ctx.params["outer"]] if "outer" in ctx.params else REMOVABLE[ctx.choice("outer", len(REMOVABLE))]
    toks = [("start", "p"), ("text", "AAA"), ("end", "p")]
    hidden = []
    stray = ctx.params.get("mode") == "stray"
    if stray and ctx.flag("stray_end_before"):
        # a stray end tag in the visible region is ignored by HTML; it must not disturb removal
        toks.append(("end", _sym_tag(ctx, "pre_end")))
    form = 0
    if ctx.params.get("target") == "epub" and outer not in VOID_REMOVABLE and not stray and ctx.flag("xhtml_empty_element_form"):
        # <script src="a.js"/> in XHTML is an element without content: what follows it is visible
        form = 2
    if outer in VOID_REMOVABLE:
        # <embed> is a void element: it has no content and no end tag, what follows is
        # visible.  (<embed>text</embed> is contradictory markup and outside the claim.)
        form = 1
    if ctx.flag("comment_before"):
        toks.append(("comment", "HC0"))
        hidden.append("HC0")
    visible = ["AAA"]
    # the element sits inside a visible element that is still open (div / td / li): an end tag of THAT name
    # inside the removed region belongs to the removed content and must not close the visible element
    # (table cells only for the HTML target: the EPUB chapter extractor keeps cell text in its table list, which
    # this kernel does not read)
    wrappers = ("div", "li", None) if ctx.params.get("target") == "epub" else ("div", "td", "li", None)
    if ctx.tier == "quick" or ctx.params.get("wrappers") == "few":
        wrappers = ("div" if ctx.params.get("target") == "epub" else "td", None)
    wrapper = wrappers[ctx.choice("open_wrapper", len(wrappers))] if ctx.params.get("mode") != "stray" else None
    if wrapper == "td":
        toks += [("start", "table"), ("start", "tr")]
    if wrapper == "li":
        toks.append(("start", "ul"))
    if wrapper:
        toks.append(("start", wrapper))
    # visible text directly before / after the element (no tag in between): the removal must not take
    # the neighbouring text nodes with it
    if ctx.flag("text_directly_before"):
        toks.append(("text", "TBF"))
        visible.append("TBF")
    toks.append(("start", outer) if form != 2 else ("startend", outer))
    if form == 0:
        k = ctx.choice("n_items", (1 if stray else n_items) + 1)
        depth = 1
        for i in range(k):
            kind = 0 if stray else ctx.choice(f"kind{i}", 5)
            if kind == 0:
                toks.append(("text", f"HT{i}"))
                hidden.append(f"HT{i}")
            elif kind == 4:
                toks.append(("comment", f"HK{i}"))
                hidden.append(f"HK{i}")
            else:
                t = _sym_tag(ctx, f"tag{i}")
                same = (t == outer)
                same = bool(same)
                if kind == 1:
                    # an unclosed <script>/<style> start tag swallows the rest of the document
                    # by HTML's own rules (and html.parser's CDATA mode): not a removal defect
                    for c in CDATA:
                        if len(c) == len(t):
                            ctx.assume(t != c)
                    toks.append(("start", t))
                    depth += 1 if same else 0
                elif kind == 2:
                    toks.append(("end", t))
                    depth -= 1 if same else 0
                else:
                    toks.append(("startend", t))
                # reference semantics: the element ends at the end tag matching its own name;
                # keep same-name inner tags balanced and never closing the outer early
                ctx.assume(depth >= 1)
        ctx.assume(depth == 1)
        toks.append(("end", outer))
    if ctx.flag("text_directly_after"):
        toks.append(("text", "TAF"))
        visible.append("TAF")
    if wrapper:
        toks.append(("end", wrapper))
    if wrapper == "td":
        toks += [("end", "tr"), ("end", "table")]
    if wrapper == "li":
        toks.append(("end", "ul"))
    if stray and ctx.flag("stray_end_after"):
        toks.append(("end", _sym_tag(ctx, "post_end")))
    toks += [("start", "p"), ("text", "BBB"), ("end", "p")]
    return toks, visible + ["BBB"], hidden, outer


def _lower(toks, feed_start, feed_end, feed_data, feed_comment, feed_startend=None):
    """token list -> the callbacks html.parser.HTMLParser makes (python 3.12 semantics):
    tags arrive lower-cased; <x/> = start+end; inside <script>/<style> everything up to the
    matching end tag is delivered as data"""
    cdata = None
    for kind, v in toks:
        if cdata is not None:
            if kind == "end" and bool(v == cdata):
                cdata = None
                feed_end(v)
            else:
                feed_data("<cdata %s>" % (v if isinstance(v, str) else "tag"))
            continue
        if kind == "text":
            feed_data(v)
        elif kind == "comment":
            feed_comment(v)
        elif kind == "start":
            feed_start(v, [])
            if isinstance(v, str) and v in CDATA:
                cdata = v
            elif not isinstance(v, str):
                for c in CDATA:
                    if len(c) == len(v) and bool(v == c):
                        cdata = c
        elif kind == "end":
            feed_end(v)
        elif kind == "startend":
            if feed_startend is not None:
                feed_startend(v, [])
            else:
                feed_start(v, [])
                feed_end(v)


def _render(toks):
    out = []
    for kind, v in toks:
        v = str(v)
        out.append({"text": v, "comment": f"<!--{v}-->", "start": f"<{v}>", "end": f"</{v}>",
                    "startend": f"<{v}/>"}[kind])
    return "".join(out)


def _run_html(ctx, toks):
    h, e = _mods()
    b = h._HtmlTreeBuilder()
    _lower(toks, b.handle_starttag, b.handle_endtag, b.handle_data, b.handle_comment, b.handle_startendtag)
    return h._HtmlTextExtractor(b.get_tree()).extract()


def _run_epub(ctx, toks):
    h, e = _mods()
    x = e._XhtmlTextExtractor()
    _lower(toks, x.handle_starttag, x.handle_endtag, x.handle_data, x.handle_comment, x.handle_startendtag)
    return x.get_text()


def _judge(ctx, text, visible, hidden, toks, outer):
    text = str(text)
    info = dict(html=_render(toks) if ctx.concrete else None, outer=outer, output=text[:80])
    for hmark in hidden:
        ctx.require(hmark not in text, "removed-content-leaks", marker=hmark, **info)
    pos = -1
    for v in visible:
        ctx.require(text.count(v) == 1, "visible-text-lost-or-duplicated", marker=v, count=text.count(v), **info)
        ctx.require(text.find(v) > pos, "visible-text-reordered", marker=v, **info)
        pos = text.find(v)


def k1(ctx):
    h, e = _mods()
    target = ctx.params["target"]
    toks, visible, hidden, outer = _gen(ctx)
    mod = h if target == "html" else e
    if ctx.concrete:
        # replay: render to HTML and run the REAL parser (validates the lowering as well)
        html = _render(toks)
        if target == "html":
            b = h._HtmlTreeBuilder()
            b.feed(html)
            b.close()
            text = h._HtmlTextExtractor(b.get_tree()).extract()
        else:
            x = e._XhtmlTextExtractor()
            x.feed(html)
            x.close()
            text = x.get_text()
        _judge(ctx, text, visible, hidden, toks, outer)
        return
    ctx.hash_universe = S.str_constants(mod) | set(REMOVABLE)
    shadows = {"REMOVE_TAGS": S.SymSet(sorted(mod.REMOVE_TAGS)), "BLOCK_TAGS": S.SymSet(sorted(mod.BLOCK_TAGS)),
               "int": S.IntShadow}
    if hasattr(mod, "_VOID_TAGS"):
        shadows["_VOID_TAGS"] = S.SymSet(sorted(mod._VOID_TAGS))
    with ctx.shadow(mod, **shadows):
        text = _run_html(ctx, toks) if target == "html" else _run_epub(ctx, toks)
    if ctx.perturb == "expect_hidden_visible":
        visible = visible + hidden[:1] if hidden else visible + ["ZZZ"]
    _judge(ctx, text, visible, hidden, toks, outer)


# ---------------------------------------------------------------------------------------
# K2: whole documents through the real feed()/close() of every carrier - what the callback lowering of
# K1 cannot show: constructs still open at the END of the input (unterminated comment / marked section /
# removable element), upper-case tag names, attributes on the removable element
# ---------------------------------------------------------------------------------------
_TAILS = [
    ("none", ""), ("comment-open", "<!-- HID9 note"), ("comment-bang", "<!-- HID9 --!"), ("cdata-open", "<![CDATA[ HID9 "),
    ("pi-open", "<?HID9 "), ("decl-open", "<!HID9 "), ("removable-open", "<%s>HID9"), ("removable-open-tag", "<%s HID9=\"x"),
]
_CARRIERS = ("read_html", "read_mhtml", "msg_html_body", "epub_chapter")


def _epub_bytes(chapter):
    import zipfile
    b = io.BytesIO()
    with zipfile.ZipFile(b, "w") as z:
        z.writestr("mimetype", "application/epub+zip")
        z.writestr("META-INF/container.xml", '<?xml version="1.0"?><container version="1.0" xmlns="urn:oasis:names:tc:'
                   'opendocument:xmlns:container"><rootfiles><rootfile full-path="OEBPS/content.opf" media-type='
                   '"application/oebps-package+xml"/></rootfiles></container>')
        z.writestr("OEBPS/content.opf", '<?xml version="1.0"?><package xmlns="http://www.idpf.org/2007/opf" version="3.0">'
                   '<metadata xmlns:dc="http://purl.org/dc/elements/1.1/"><dc:title>t</dc:title></metadata><manifest>'
                   '<item id="c1" href="c1.xhtml" media-type="application/xhtml+xml"/></manifest><spine>'
                   '<itemref idref="c1"/></spine></package>')
        z.writestr("OEBPS/c1.xhtml", chapter)
    return b.getvalue()


def _through(carrier, body):
    """text the public entry point of the carrier extracts from the HTML body"""
    import sharepoint2text
    page = "<html><head><title>t</title></head><body>" + body
    if carrier == "read_html":
        return next(sharepoint2text.read_html(io.BytesIO(page.encode()), "x.html")).get_full_text()
    if carrier == "read_mhtml":
        mh = ("MIME-Version: 1.0\r\nContent-Type: multipart/related; boundary=\"BND\"\r\n\r\n--BND\r\n"
              "Content-Type: text/html; charset=\"utf-8\"\r\nContent-Transfer-Encoding: 8bit\r\n"
              "Content-Location: http://x/\r\n\r\n" + page + "\r\n--BND--\r\n")
        return next(sharepoint2text.read_mhtml(io.BytesIO(mh.encode()), "x.mhtml")).get_full_text()
    if carrier == "msg_html_body":
        from sharepoint2text.parsing.extractors.mail.msg_email_extractor import _html_to_text
        return _html_to_text(page)
    res = next(sharepoint2text.read_epub(io.BytesIO(_epub_bytes(page)), "x.epub"))
    return res.get_full_text()


def k2_documents(ctx):
    carrier = _CARRIERS[ctx.params["carrier"]]
    outer = REMOVABLE[ctx.choice("outer", len(REMOVABLE))]
    upper = ctx.flag("upper_case_tag")
    attrs = ctx.flag("attributes")
    tname = outer.upper() if upper else outer
    start = "<%s%s>" % (tname, ' data-a="1" src="u"' if attrs else "")
    hidden = ["HID9"]
    if outer in VOID_REMOVABLE:
        elem = start
    else:
        elem = start + "HID1" + ("<!--HID2-->" if ctx.flag("inner_comment") else "") + "</%s>" % tname
        hidden += ["HID1", "HID2"]
    lead = "VISB " if ctx.flag("text_directly_before") else ""
    trail = " VISC" if ctx.flag("text_directly_after") else ""
    tail_name, tail = _TAILS[ctx.choice("end_of_input", len(_TAILS))]
    if "%s" in tail:
        t2 = REMOVABLE[ctx.choice("open_removable", len(REMOVABLE))]
        ctx.assume(t2 not in VOID_REMOVABLE)
        tail = tail % t2
    body = "<p>VISA</p><p>" + lead + elem + trail + "</p><p>VISD</p>" + tail
    visible = ["VISA"] + (["VISB"] if lead else []) + (["VISC"] if trail else []) + ["VISD"]
    if ctx.perturb == "expect_hidden_visible":
        visible = visible + ["HID9"]
    try:
        text = _through(carrier, body)
    except Exception as ex:
        ctx.fail("carrier-raised", carrier=carrier, exc=type(ex).__name__, msg=str(ex)[:80], html=body)
        return
    info = dict(carrier=carrier, html=body, output=text[:120], end_of_input=tail_name)
    for hmark in hidden:
        ctx.require(hmark not in text, "removed-content-leaks", marker=hmark, **info)
    pos = -1
    for v in visible:
        ctx.require(text.count(v) == 1, "visible-text-lost-or-duplicated", marker=v, count=text.count(v), **info)
        ctx.require(text.find(v) > pos, "visible-text-reordered", marker=v, **info)
        pos = text.find(v)



def _public_replay(kernel, tier, params, inputs):
    """replay of a counterexample: concrete harness run through the real feed(), then the same
    HTML through the public entry points"""
    from vf import symrun
    v, detail = symrun.replay_concrete(k1, inputs, tier=tier, params=params)
    out = {"violated": bool(v), "detail": detail}
    if v and detail and isinstance(detail[1], dict) and detail[1].get("html"):
        html = detail[1]["html"]
        try:
            import sharepoint2text
            from sharepoint2text.parsing.extractors.mail.msg_email_extractor import _html_to_text
            pub = {}
            doc = next(sharepoint2text.read_html(io.BytesIO(("<html><body>" + html + "</body></html>").encode()), "x.html"))
            pub["read_html"] = doc.get_full_text()[:80]
            pub["msg._html_to_text"] = _html_to_text("<html><body>" + html + "</body></html>")[:80]
            out["public_api"] = pub
        except Exception as ex:
            out["public_api_error"] = repr(ex)
    return out


def _parts(tier):
    if tier == "quick":
        return [{"target": t, "outer": o, "items": 2, "mode": md} for t in ("html", "epub")
                for o in range(len(REMOVABLE)) for md in ("inner", "stray")]
    # thorough: all wrappers (div / td / li / none) with two inner items.  (Three inner items with the
    # round-3 choice dimensions did not finish in 25 minutes; that depth is outside the claim.)
    return [{"target": t, "outer": o, "items": 2, "mode": md} for t in ("html", "epub")
            for o in range(len(REMOVABLE)) for md in ("inner", "stray")]


def _targets():
    h, e = _mods()
    return [h._HtmlTreeBuilder.handle_starttag, h._HtmlTreeBuilder.handle_endtag, h._HtmlTreeBuilder.handle_data,
            h._HtmlTreeBuilder.handle_comment, h._HtmlTextExtractor._process_node, h._HtmlTextExtractor.extract,
            e._XhtmlTextExtractor.handle_starttag, e._XhtmlTextExtractor.handle_endtag,
            e._XhtmlTextExtractor.handle_data, e._XhtmlTextExtractor.get_text]


k = Kernel("K1", "removal state machine of both HTML-family parsers on symbolic element content",
           k1, targets=_targets, parts=_parts,
           perturb=[("expect_hidden_visible", {"target": "html", "outer": 2, "items": 2, "mode": "inner"})],
           symbolic=["tag name of every inner start/end/self-closing tag (lower-case letters/digits, length "
                     "1,2,3,5,6 - so br/img/embed/param/script/object/... and the outer element's own name are all reachable)"],
           choices=["outer removable element (embed only in its void form)", "number and kind of inner items",
                    "stray end tag (symbolic name, may be the removable's own) before / after the element",
                    "comment before the element", "visible text directly before / directly after the element",
                    "still-open visible element around it (div / table cell / list item / none)",
                    "XHTML empty-element form of the removable element (EPUB target)"],
           assumptions=["inner unclosed start tags are not script/style (those swallow the rest of the document by "
                        "HTML's own rules)",
                        "reference semantics: the removed element ends at the end tag matching its own name; "
                        "inner tags of the same name are balanced (assumed) and do not close it early",
                        "lowering to callbacks follows html.parser of this Python (tags lower-cased, <x/> = start+end, "
                        "script/style content delivered as data); validated at replay by rendering and running feed()"],
           outside=["self-closing form of the removable element itself (<script/>) in HTML: HTML5 and XHTML disagree on it "
                    "(for EPUB chapters, which are XHTML, it is covered)",
                    "attribute values containing markup; tag names longer than 6 characters; more than 2 inner items"],
           timeout={"quick": 280, "thorough": 2400})
k.replayer = _public_replay
k2 = Kernel("K2", "whole documents through feed()/close() of every carrier: constructs left open at the end of the input, "
                  "upper-case names, attributes, text directly next to the removed element",
            k2_documents, targets=_targets, strength="structure",
            parts=lambda tier: [{"carrier": c} for c in range(len(_CARRIERS))],
            perturb=[("expect_hidden_visible", {"carrier": 0})],
            choices=["removable element", "upper-case tag name", "attributes on it", "comment inside it",
                     "visible text directly before / after it",
                     "end of input: complete, or inside an unterminated comment / <!-- --! / CDATA section / processing "
                     "instruction / declaration / removable element / start tag of a removable element"],
            assumptions=["carriers: read_html, read_mhtml (8bit part), msg._html_to_text, read_epub (one chapter)"],
            outside=["an unterminated construct in the MIDDLE of a document (HTML lets it swallow the rest)"])
KERNELS = [k, k2]

META = {
    "level_text": "The real start/end/data/comment handlers of both HTML-family parsers are executed on a symbolic "
                  "document A<r>items</r>B in which every inner tag name is symbolic, so the handlers' own set-membership "
                  "and equality tests split the cases; z3 decides feasibility of every split and the oracle (A and B once, "
                  "in order, no hidden marker) is checked on every feasible path; counterexamples are rendered to HTML and "
                  "replayed through the real parser and public entry points.  A second kernel drives whole documents (upper-case names, "
                  "attributes, text directly next to the removed element, every construct that can be left open at the end of "
                  "the input) through feed()/close() of all four carriers (read_html, read_mhtml, MSG HTML body, EPUB chapter).",
    "level_note": "Trusted: the callback lowering of html.parser (checked by replay through feed()). Bounds: <= 2 inner "
                  "items, tag names up to 6 chars, one removable element per document.",
    "technique": "symbolic execution of the HTMLParser handler methods on bounded symbolic tag strings (symrun CharStr), "
                 "set membership as solver-decided disjunctions, replay through the real parser",
}
