"""C11 - ZIP-container bomb guard decides exactly and runs before any read."""
import io

import z3

from vf.core import Kernel
from vf import symrun as S


def _zb():
    import sharepoint2text.parsing.extractors.util.zip_bomb as zb
    return zb


class FakeInfo:
    """what zipfile hands over for one central-directory entry"""

    def __init__(self, file_size, compress_size, isdir, filename="m"):
        self.file_size = file_size
        self.compress_size = compress_size
        self._isdir = isdir
        self.filename = filename

    def is_dir(self):
        return self._isdir


class FakeZip:
    def __init__(self, infos, raises=None):
        self._infos = infos
        self._raises = raises

    def infolist(self):
        if self._raises is not None:
            raise self._raises
        return self._infos


SIZE_HI = 2 ** 40 - 1


def _limits(ctx, zb):
    """all five limits symbolic.  ratio limits: m / 2^k with k per part (k=0: integers)"""
    k = ctx.params.get("ratio_k", 0)
    hi = ctx.params.get("ratio_hi", 1023)
    me = ctx.fresh_int("max_entries", 0, 8)
    mt = ctx.fresh_int("max_total", 0, 2 ** 41)
    ms = ctx.fresh_int("max_single", 0, 2 ** 41)
    rt_m = ctx.fresh_int("ratio_total_m", 1, hi * 2 ** k)
    re_m = ctx.fresh_int("ratio_entry_m", 1, hi * 2 ** k)
    if ctx.concrete:
        rt = rt_m / 2 ** k if k else float(rt_m)
        re_ = re_m / 2 ** k if k else float(re_m)
        rt_z, re_z = None, None
    else:
        rt = S.SymReal(z3.ToReal(rt_m.z) / (2 ** k))
        re_ = S.SymReal(z3.ToReal(re_m.z) / (2 ** k))
    lim = zb.ZipBombLimits(max_entries=me, max_total_uncompressed_bytes=mt,
                           max_single_uncompressed_bytes=ms,
                           max_total_compression_ratio=rt, max_entry_compression_ratio=re_)
    return lim, (me, mt, ms, rt_m, re_m, k)


def _spec(infos_raw, lims, perturb=None):
    """Reference predicate, written from the property text only: reject iff entry count,
    single size, total size, entry ratio or total ratio EXCEEDS its limit, or a non-empty
    entry claims zero compressed size; directories are ignored (but counted as entries).
    Works on python ints and on z3 terms alike (returns python bool or z3 Bool)."""
    me, mt, ms, rt_m, re_m, k = lims
    sym = not all(isinstance(x, (int, bool)) for t in infos_raw for x in t) or \
        not all(isinstance(x, int) for x in (me, mt, ms, rt_m, re_m))

    def zi(x):
        if isinstance(x, S.SymInt):
            return x.z
        if isinstance(x, S.SymBool):
            return x.z
        return x
    me, mt, ms, rt_m, re_m = map(zi, (me, mt, ms, rt_m, re_m))
    Or = z3.Or if sym else (lambda *a: any(a))
    And = z3.And if sym else (lambda *a: all(a))
    Not = z3.Not if sym else (lambda a: not a)
    gt_entry = (lambda a, b: a >= b) if perturb == "entry_ratio_ge" else (lambda a, b: a > b)
    gt_single = (lambda a, b: a >= b) if perturb == "single_ge" else (lambda a, b: a > b)
    clauses = [len(infos_raw) > me]
    tot_f = 0
    tot_c = 0
    for fs, cs, d in infos_raw:
        fs, cs, d = zi(fs), zi(cs), zi(d)
        live = Not(d)
        clauses.append(And(live, gt_single(fs, ms)))
        clauses.append(And(live, fs > 0, cs <= 0))
        # fs/cs > re_m/2^k  <=>  fs*2^k > re_m*cs   (cs > 0)
        clauses.append(And(live, fs > 0, cs > 0, gt_entry(fs * (2 ** k), re_m * cs)))
        if sym:
            tot_f = tot_f + z3.If(d, 0, fs)
            tot_c = tot_c + z3.If(d, 0, cs)
        else:
            tot_f += 0 if d else fs
            tot_c += 0 if d else cs
        if perturb == "dirs_counted" and not sym:
            pass
    if perturb == "dirs_counted":
        tot_f = sum((zi(fs) for fs, _, _ in infos_raw), 0)
    clauses.append(tot_f > mt)
    clauses.append(And(tot_f > 0, tot_c <= 0))
    clauses.append(And(tot_f > 0, tot_c > 0, tot_f * (2 ** k) > rt_m * tot_c))
    return Or(*clauses)


def k1_predicate(ctx):
    zb = _zb()
    N = ctx.params["N"]
    n = ctx.choice("n_entries", N + 1)
    raw = []
    for i in range(n):
        fs = ctx.fresh_int(f"file_size{i}", 0, SIZE_HI)
        cs = ctx.fresh_int(f"compress_size{i}", 0, SIZE_HI)
        d = ctx.fresh_bool(f"is_dir{i}")
        raw.append((fs, cs, d))
    lim, lims = _limits(ctx, zb)
    infos = [FakeInfo(fs, cs, d) for fs, cs, d in raw]
    expected = _spec(raw, lims, ctx.perturb)
    with ctx.shadow(zb, int=S.IntShadow):
        try:
            zb.validate_zipfile(FakeZip(infos), limits=lim, source="x")
            got = False
        except zb.ExtractionZipBombError:
            got = True
        except Exception as e:
            ctx.fail("other-exception", exc=type(e).__name__, msg=str(e)[:100])
    if ctx.concrete:
        ctx.require(bool(expected) == got, "verdict-differs-from-spec", rejected=got)
    else:
        ctx.require(expected if got else z3.Not(expected), "verdict-differs-from-spec",
                    rejected=got)


def k1_infolist_raises(ctx):
    """infolist() failing with any Exception is reported as the bomb error"""
    zb = _zb()
    classes = [ValueError, KeyError, OSError, RuntimeError, zb.ExtractionZipBombError,
               type("Fresh", (Exception,), {})]
    c = classes[ctx.choice("exc", len(classes))]
    try:
        zb.validate_zipfile(FakeZip([], raises=c("boom")))
        ctx.fail("accepted-uninspectable-container")
    except zb.ExtractionZipBombError:
        ctx.require(True, "ok")
    except Exception as e:
        ctx.fail("other-exception", exc=type(e).__name__)


def _margin_runner(kernel, tier, params, perturb):
    """Float margin obligations (DESIGN 1/E2): python computes ratio = a / b in binary64 and
    compares with the limit L (a double).  K1 models the division exactly; this kernel
    discharges, per comparison site and per limit value, that the rounded comparison agrees
    with the exact one for all sizes in the bound:
        a*2^k > m*b  =>  (a*2^k - m*b) * 2^(53-e) > b*2^k      (L = m/2^k, 2^e <= L < 2^(e+1))
    i.e. an exact quotient above L is above it by more than half an ulp of L; the other
    direction is monotonicity of round-to-nearest.  Limits: the live defaults plus lattice."""
    import time
    from fractions import Fraction
    zb = _zb()
    t0 = time.time()
    d = zb.DEFAULT_ZIP_BOMB_LIMITS
    lims = {float(d.max_total_compression_ratio), float(d.max_entry_compression_ratio)}
    for base in list(lims):
        lims.update({base - 1, base + 1, base + 0.5})
    if tier == "thorough":
        # dyadic limits only (the class K1 covers): for a limit with a full 53-bit significand such as
        # 200.1 the binary64 comparison IS the specification (2001/10 rounds onto the limit itself),
        # so agreement with the exact rational is not something the property asks for
        lims.update({1.0, 1.5, 2.0, 3.0, 10.0, 100.0, 1000.0, 1023.0, 0.5, 1.25, 99.875, 200.125,
                     3.00390625, 511.99609375})
    size_bits = params.get("size_bits", 40)
    stats = {"paths": 0, "queries": 0, "q_unsat": 0, "q_sat": 0, "q_unknown": 0,
             "solver_s": 0.0, "paths_with_require": 0, "decisions": 0, "checks": 0}
    cex, samples, inconcl = [], [], []
    for L in sorted(lims):
        fr = Fraction(L)               # exact value of the double
        m, den = fr.numerator, fr.denominator
        k = den.bit_length() - 1
        assert den == 1 << k
        e = 0
        while Fraction(2) ** (e + 1) <= fr:
            e += 1
        while Fraction(2) ** e > fr:
            e -= 1
        a, b = z3.Ints("a b")
        s = z3.Solver()
        s.set("timeout", 60000)
        hi = 2 ** size_bits
        s.add(a >= 0, a < hi * 8, b >= 1, b < hi * 8)   # totals of up to 8 entries
        exact_gt = a * den > m * b
        lhs = (a * den - m * b)
        # (a*den - m*b) * 2^(53-e) > b*den      [scaled to integers]
        sh = 53 - e
        margin = (lhs * (2 ** sh) > b * den) if sh >= 0 else (lhs > b * den * (2 ** (-sh)))
        if perturb == "margin_too_strong":
            margin = lhs * (2 ** max(sh - 30, 0)) > b * den
        s.add(exact_gt, z3.Not(margin))
        t1 = time.time()
        r = s.check()
        stats["solver_s"] += time.time() - t1
        stats["paths"] += 1
        stats["queries"] += 1
        stats["paths_with_require"] += 1
        stats["decisions"] += 1
        stats["q_" + str(r)] += 1
        if len(samples) < 2:
            samples.append({"decisions": [], "pc": [f"L={L} m={m} k={k} e={e} sizes<2^{size_bits + 3}: {r}"]})
        if r == z3.sat:
            mm = s.model()
            cex.append({"label": "float-margin", "inputs": {"L": L, "a": mm[a].as_long(), "b": mm[b].as_long()},
                        "info": {}})
        elif r == z3.unknown:
            inconcl.append(f"margin L={L}: unknown")
    return {"stats": stats, "fork_sites": {"repo": {}, "harness": {"margin-obligation": len(lims)}},
            "notes": {}, "shadows": [], "stubs": [], "cex": cex, "inconclusive": inconcl,
            "errors": [], "samples": samples, "wall_s": time.time() - t0}


def _margin_replay(kernel, tier, params, inputs):
    """replay of a margin counterexample: python's own float division against exact"""
    from fractions import Fraction
    a, b, L = inputs["a"], inputs["b"], inputs["L"]
    exact = Fraction(a, b) > Fraction(L)
    got = (a / b) > L
    return {"violated": exact != got, "detail": ["float-margin", {"exact": exact, "float": got}]}


# ---------------------------------------------------------------------------------------
# K3 stream position
# ---------------------------------------------------------------------------------------

class PosStream:
    """stand-in for io.BytesIO: position is whatever seek() is given; writes are recorded"""

    def __init__(self, pos):
        self.pos = pos
        self.writes = 0
        self.seeks = []

    def tell(self):
        return self.pos

    def seek(self, p, whence=0):
        self.seeks.append(p)
        self.pos = p
        return p

    def write(self, b):
        self.writes += 1

    def truncate(self, *a):
        self.writes += 1

    def read(self, n=-1):
        self.pos = self.pos + 1
        return b""


class _FakeZipFileCM:
    """zipfile.ZipFile stand-in for K3: moves the stream like the real one would (to an
    arbitrary position), optionally fails"""

    def __init__(self, ctx, fail_open, infos):
        self.ctx, self.fail_open, self.infos = ctx, fail_open, infos

    def __call__(self, file_like, mode="r"):
        if self.fail_open:
            raise __import__("zipfile").BadZipFile("not a zip")
        file_like.seek(self.ctx.fresh_int("zip_moves_to", 0, 2 ** 32))
        outer = self

        class Z:
            def infolist(self):
                return outer.infos

            def close(self):
                pass

            def __enter__(self):
                return self

            def __exit__(self, *a):
                return False
        return Z()


def k3_stream_position(ctx):
    zb = _zb()
    p0 = ctx.fresh_int("initial_position", 0, 2 ** 32)
    outcome = ctx.choice("outcome", 3)  # 0 accept, 1 reject (bomb), 2 not a zip
    infos = [FakeInfo(10, 0 if outcome == 1 else 10, False)]
    st = PosStream(p0)
    with ctx.stub(zb.zipfile, ZipFile=_FakeZipFileCM(ctx, outcome == 2, infos)):
        try:
            zb.validate_zip_bytesio(st, source="x")
            raised = None
        except Exception as e:
            raised = type(e).__name__
    ctx.require(st.pos == p0, "stream-position-not-restored", outcome=outcome, raised=raised)
    ctx.require(st.writes == 0, "stream-written", outcome=outcome)
    if outcome == 1:
        ctx.require(raised == "ExtractionZipBombError", "bomb-not-reported", raised=raised)
    if outcome == 0:
        ctx.require(raised is None, "accepted-container-raised", raised=raised)


# ---------------------------------------------------------------------------------------
# K2 validate-before-read over all ZIP-container entry points
# ---------------------------------------------------------------------------------------

def _container_entry_points():
    """(name, callable(BytesIO)) for every ZIP-container entry point, discovered from the
    router registry (so a new ZIP-based extractor joins automatically if it uses the shared
    helpers) + the encryption probe."""
    import importlib
    from sharepoint2text.parsing import router
    eps = {}
    for ft, (modname, fn) in router._EXTRACTOR_REGISTRY.items():
        if ft in ("docx", "pptx", "xlsx", "odt", "odp", "ods", "odg", "odf", "epub"):
            mod = importlib.import_module(modname)
            eps[fn] = getattr(mod, fn)
    return eps


class _RecZip:
    """recording zipfile.ZipFile stand-in: a container with symbolic sizes.  Any member
    access before/after validation is an event."""
    log = None
    infos = None

    def __init__(self, file_like, mode="r", *a, **k):
        _RecZip.log.append(("open",))
        self.validated = False

    def infolist(self):
        _RecZip.log.append(("infolist",))
        self.validated = True
        return _RecZip.infos

    def namelist(self):
        _RecZip.log.append(("namelist",))
        return [i.filename for i in _RecZip.infos]

    def getinfo(self, name):
        _RecZip.log.append(("getinfo", name))
        raise KeyError(name)

    def read(self, name, pwd=None):
        _RecZip.log.append(("read" if self.validated else "read-unvalidated", name))
        raise KeyError(name)

    def open(self, name, mode="r", pwd=None):
        _RecZip.log.append(("read" if self.validated else "read-unvalidated", name))
        raise KeyError(name)

    def extract(self, *a, **k):
        _RecZip.log.append(("read" if self.validated else "read-unvalidated", "extract"))
        raise KeyError("x")

    extractall = extract

    def close(self):
        _RecZip.log.append(("close",))

    def __enter__(self):
        return self

    def __exit__(self, *a):
        self.close()
        return False


def k2_validate_before_read(ctx):
    """every ZIP-container extractor: on a container that the guard rejects, no member is
    read/opened/extracted, and the error that surfaces is the zip-bomb error; on an accepted
    one validation (infolist) precedes the first member access."""
    import zipfile as real_zipfile
    import sharepoint2text.parsing.extractors.util.zip_bomb as zb
    import sharepoint2text.parsing.extractors.util.encryption as enc
    from sharepoint2text.parsing.exceptions import ExtractionError, ExtractionZipBombError
    eps = _container_entry_points()
    names = sorted(eps)
    which = ctx.params.get("entry")
    fn = eps[which]
    # symbolic container: one entry, sizes symbolic around the default single-size limit and ratio
    fs = ctx.fresh_int("file_size", 0, 2 ** 40)
    cs = ctx.fresh_int("compress_size", 0, 2 ** 40)
    _RecZip.log = []
    _RecZip.infos = [FakeInfo(fs, cs, False, filename="content.xml")]
    raw = [(fs, cs, False)]
    d = zb.DEFAULT_ZIP_BOMB_LIMITS
    lims = (d.max_entries, d.max_total_uncompressed_bytes, d.max_single_uncompressed_bytes,
            int(d.max_total_compression_ratio), int(d.max_entry_compression_ratio), 0)
    bomb = _spec(raw, lims)

    class ZipMod:
        """the name ``zipfile`` as seen from zip_bomb / encryption"""
        ZipFile = _RecZip
        BadZipFile = real_zipfile.BadZipFile
        ZipInfo = real_zipfile.ZipInfo

        @staticmethod
        def is_zipfile(f):
            return True
    import olefile
    with ctx.shadow(zb, int=S.IntShadow), ctx.stub(zb, zipfile=ZipMod), \
            ctx.stub(enc, zipfile=ZipMod), \
            ctx.stub(olefile, isOleFile=lambda f: False):
        try:
            out = list(fn(io.BytesIO(b"PK\x03\x04 not really"), "x.bin"))
            raised = None
        except ExtractionError as e:
            raised = e
        except Exception as e:
            raised = e
    log = list(_RecZip.log)
    reads = [i for i, ev in enumerate(log) if ev[0].startswith("read")]
    unval = [ev for ev in log if ev[0] == "read-unvalidated"]
    infol = [i for i, ev in enumerate(log) if ev[0] == "infolist"]
    is_bomb_err = isinstance(raised, ExtractionZipBombError)
    if ctx.concrete:
        bomb_now = bool(bomb)
        if bomb_now:
            ctx.require(not reads, "member-read-on-rejected-container", log=log[:12])
            ctx.require(is_bomb_err, "bomb-error-not-surfaced", raised=repr(raised)[:120])
        else:
            ctx.require(not is_bomb_err, "accepted-container-rejected")
            ctx.require(not unval, "read-before-validate", log=log[:12])
        return
    # symbolic: the path is either the accept path or the reject path of the real guard
    if is_bomb_err:
        ctx.require(bomb, "accepted-container-rejected")
        ctx.require(not reads, "member-read-on-rejected-container", log=log[:12])
    else:
        ctx.require(z3.Not(bomb), "bomb-error-not-surfaced", raised=repr(raised)[:120], log=log[:12])
        ctx.require(not unval, "read-before-validate", log=log[:12])
    ctx.require(bool(infol), "container-never-validated", log=log[:12])


def _k2_parts(tier):
    return [{"entry": n} for n in sorted(_container_entry_points())]


def _k2_targets():
    zb = _zb()
    from sharepoint2text.parsing.extractors.util import zip_context, encryption
    return list(_container_entry_points().values()) + [
        zb.open_zipfile, zb.validate_zipfile, zip_context.ZipContext.__init__, encryption.is_odf_encrypted]


def _t1():
    zb = _zb()
    return [zb.validate_zipfile, zb._is_directory]


k_margin = Kernel("K1m", "float margin obligations for both ratio comparison sites", None,
                  engine="E3", runner=_margin_runner, targets=_t1,
                  bounds={"quick": {"size_bits": 40}, "thorough": {"size_bits": 40}},
                  perturb=["margin_too_strong"],
                  assumptions=["IEEE-754 round-to-nearest division is monotone and CPython int/int is correctly rounded"],
                  symbolic=["a (uncompressed total) and b (compressed total) as unbounded-width integers < 2^43"])
k_margin.replayer = _margin_replay

KERNELS = [
    Kernel("K1", "validate_zipfile == five-clause reference predicate, all limits symbolic",
           k1_predicate, targets=_t1,
           bounds={"quick": {"N": 3}, "thorough": {"N": 4}},
           parts=lambda tier: ([{"ratio_k": 0}, {"ratio_k": 1, "ratio_hi": 1023}] if tier == "quick" else
                               [{"ratio_k": k} for k in (0, 1, 2, 3, 8)]),
           perturb=["entry_ratio_ge", "single_ge", "dirs_counted"],
           assumptions=["ZipInfo sizes are non-negative integers < 2^40 (zipfile unpacks them unsigned)",
                        "int/int division modelled as exact rational division; K1m discharges the rounding margin"],
           outside=["forged central directories in real ZIP bytes (zipfile's parsing): the predicate is "
                    "checked on whatever infolist() reports",
                    "ratio limits that are not dyadic rationals m/2^k with k in the listed set, or >= 1024 "
                    "(for a limit with a full 53-bit significand the binary64 comparison is the specification)"],
           symbolic=["file_size_i, compress_size_i in [0,2^40)", "is_dir_i", "n_entries",
                     "max_entries, max_total, max_single", "both ratio limits (m/2^k, m symbolic)"],
           timeout={"quick": 240, "thorough": 3000}),
    k_margin,
    Kernel("K1r", "uninspectable container is rejected with the bomb error", k1_infolist_raises,
           targets=_t1, strength="structure", core=False,
           choices=["exception class raised by infolist()"]),
    Kernel("K2", "validate-before-read in every ZIP-container extractor", k2_validate_before_read,
           targets=_k2_targets, parts=_k2_parts, strength="data",
           stubs=["zipfile.ZipFile -> recording container with one entry of symbolic sizes",
                  "zipfile.is_zipfile -> True", "olefile.isOleFile -> False"],
           assumptions=["extractors reach zipfile only through util.zip_bomb / util.encryption "
                        "(checked: a read on an unvalidated container would appear in the log)"],
           outside=["second opens of the same bytes by third-party readers (openpyxl inside read_xlsx)"],
           symbolic=["file_size, compress_size of the container's entry"]),
    Kernel("K3", "validate_zip_bytesio restores the caller's stream position and never writes",
           k3_stream_position, targets=lambda: [_zb().validate_zip_bytesio],
           stubs=["zipfile.ZipFile -> stand-in that moves the stream to an arbitrary position"],
           symbolic=["initial stream position", "position the zip reader leaves the stream at"],
           choices=["outcome accept/reject/not-a-zip"]),
]

META = {
    "level_text": "The real validate_zipfile is executed symbolically on N<=3 (thorough 4) central-directory "
                  "entries with every size, directory flag and all five limits symbolic; on each of the "
                  "feasible paths z3 decides that the verdict equals an independent five-clause reference "
                  "predicate (boundary values included), float rounding of the two ratio tests is discharged "
                  "as integer margin obligations, and every ZIP-container extractor is run against a recording "
                  "container with symbolic sizes to show no member access without/after a failed validation.",
    "level_note": "Trusted: zipfile reports non-negative sizes; IEEE-754 division is correctly rounded. Outside: "
                  "real ZIP byte parsing, ratio limits >= 1024 or not m/2^k for the listed k, more than N entries "
                  "(the loop body is identical per entry; totals are prefix sums).",
    "technique": "symbolic execution of validate_zipfile/open_zipfile on z3 Int/Real proxies (symrun), "
                 "equivalence query against a reference predicate per path, SMT margin lemmas for float division",
}
